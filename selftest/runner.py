"""Thorough tier: checker self-validation with single-instance source mutants.

Each rule module may define MUTANTS: a list of dicts
    {'id': str, 'file': 'vmf.py', 'find': <exact text>, 'replace': <text>, 'expect': 'C07.I1', 'nth': 0}
The mutant is applied to a scratch copy of src/srctools (tempdir outside /repo and /verif), the property's
quick check is run on the copy in a subprocess, and must print a VIOLATION whose report names rule `expect`.
The unmodified copy must stay silent. A mutant whose `find` text no longer occurs is *stale* and skipped (noted);
an applied mutant that is not detected makes the run exit 2 (checker broken) - never a VIOLATION of the property.
"""
from __future__ import annotations

import concurrent.futures
import re
import os
import shutil
import subprocess
import sys
import tempfile
from typing import Any, Dict, List

from engine.model import AnalysisError, repo_root

VERIF = os.path.dirname(os.path.dirname(os.path.abspath(__file__)))


def _make_scratch(base: str, name: str) -> str:
    root = os.path.join(base, name)
    dst = os.path.join(root, 'src', 'srctools')
    os.makedirs(os.path.dirname(dst))
    src = os.path.join(repo_root(), 'src', 'srctools')
    shutil.copytree(src, dst, ignore=shutil.ignore_patterns('__pycache__', '*.lzma', '*.so', '*.cpp', '*.h'))
    return root


def _run_check(prop: str, root: str) -> subprocess.CompletedProcess:
    env = dict(os.environ)
    env['VERIF_REPO'] = root
    env['VERIF_NO_EVIDENCE'] = '1'
    env['VERIF_REPLAY_DIR'] = os.path.join(root, 'replay')
    return subprocess.run([sys.executable, os.path.join(VERIF, 'check.py'), prop, '--tier', 'quick'],
                          env=env, capture_output=True, text=True, timeout=600)


def _strip(ln: str) -> str:
    i = ln.find(' [')
    return ln[i:] if i >= 0 else ln


def _one(prop: str, base: str, m: Dict[str, Any], baseline: set) -> Dict[str, Any]:
    root = _make_scratch(base, 'm_' + m['id'])
    try:
        path = os.path.join(root, 'src', 'srctools', m['file'])
        with open(path, encoding='utf8') as f:
            text = f.read()
        nth = m.get('nth', 0)
        idx = -1
        for _ in range(nth + 1):
            idx = text.find(m['find'], idx + 1)
            if idx < 0:
                break
        if idx < 0:
            return {'id': m['id'], 'status': 'stale', 'expect': m['expect']}
        text = text[:idx] + m['replace'] + text[idx + len(m['find']):]
        with open(path, 'w', encoding='utf8') as f:
            f.write(text)
        for ex in m.get('extra', []):          # further edits belonging to the same variant
            p2 = os.path.join(root, 'src', 'srctools', ex['file'])
            with open(p2, encoding='utf8') as f:
                t2 = f.read()
            if ex['find'] not in t2:
                return {'id': m['id'], 'status': 'stale', 'expect': m['expect']}
            with open(p2, 'w', encoding='utf8') as f:
                f.write(t2.replace(ex['find'], ex['replace'], 1))
        try:
            compile(text, path, 'exec') if path.endswith('.py') else None
        except SyntaxError as exc:
            return {'id': m['id'], 'status': 'mutant-does-not-compile', 'expect': m['expect'], 'detail': str(exc)}
        res = _run_check(prop, root)
        if m.get('repairs'):
            # repaired variant: the listed known findings must disappear and nothing new may be reported
            new = [ln for ln in res.stdout.splitlines() if re.search(r' \[C\d\d\.\w+\]', ln) and _strip(ln) not in baseline and not ln.startswith('KNOWN')]
            still = [ln for ln in res.stdout.splitlines() if ln.startswith('KNOWN-FINDING') and any(k in ln for k in m['repairs'])]
            if res.returncode == 0 and not new and not still:
                return {'id': m['id'], 'status': 'repair-silences', 'expect': None}
            return {'id': m['id'], 'status': 'FALSE-ALARM', 'expect': None, 'exit': res.returncode, 'stdout_tail': ('\n'.join(still + new))[-600:]}
        if m['expect'] is None:
            # negative control: a behaviour-preserving edit must not raise an alarm (new report lines)
            new = [ln for ln in res.stdout.splitlines() if re.search(r' \[C\d\d\.\w+\]', ln) and _strip(ln) not in baseline and not ln.startswith('KNOWN')]
            if res.returncode != 2 and not new:
                return {'id': m['id'], 'status': 'silent-ok', 'expect': None}
            new_alarm = [ln for ln in new if not ln.startswith(('UNRECOGNISED ', 'ANALYSIS-ERROR'))]
            if m.get('refuse_ok') and res.returncode == 2 and not new_alarm and not any(ln.startswith('VIOLATION ') for ln in res.stdout.splitlines()):
                # a correct variant outside the enumerated idioms: the check declines (no verdict), which is not an alarm
                return {'id': m['id'], 'status': 'refused', 'expect': None}
            return {'id': m['id'], 'status': 'FALSE-ALARM', 'expect': None, 'exit': res.returncode, 'stdout_tail': res.stdout[-600:]}
        fired = [ln for ln in res.stdout.splitlines() if f'[{m["expect"]}]' in ln and _strip(ln) not in baseline]
        has_v = any(ln.startswith('VIOLATION ') for ln in res.stdout.splitlines())
        if res.returncode == 1 and fired and has_v:
            return {'id': m['id'], 'status': 'detected', 'expect': m['expect'], 'report': fired[0][:300]}
        refused = [ln for ln in res.stdout.splitlines() if ln.startswith('UNRECOGNISED ') and f'[{m["expect"]}]' in ln]
        if m.get('refuse_ok') and res.returncode == 2 and refused:
            # the variant leaves the enumerated idioms: the check declines to give a verdict (never a silent pass)
            return {'id': m['id'], 'status': 'refused', 'expect': m['expect'], 'report': refused[0][:300]}
        return {'id': m['id'], 'status': 'MISSED', 'expect': m['expect'], 'exit': res.returncode,
                'stdout_tail': res.stdout[-600:]}
    finally:
        shutil.rmtree(root, ignore_errors=True)


def _seed(prop: str, base: str, sid: str, patch: str, baseline: set, declined_ok: bool = False) -> Dict[str, Any]:
    """A kept seeded defect (/verif/seeded/<id>/patch.diff, written by an independent sub-agent and confirmed to break the property):
    applied to a scratch copy, the quick check must report a violation that the unmodified copy does not."""
    root = _make_scratch(base, 's_' + sid)
    try:
        ap = subprocess.run(['git', 'apply', '-p1', patch], cwd=root, capture_output=True, text=True)
        if ap.returncode != 0:
            return {'id': 'seed:' + sid, 'status': 'stale', 'expect': prop}
        res = _run_check(prop, root)
        new = [ln for ln in res.stdout.splitlines() if re.search(r' \[C\d\d\.\w+\]', ln) and _strip(ln) not in baseline and not ln.startswith(('KNOWN', 'UNRECOGNISED'))]
        has_v = any(ln.startswith('VIOLATION ') for ln in res.stdout.splitlines())
        if res.returncode == 1 and new and has_v:
            return {'id': 'seed:' + sid, 'status': 'detected', 'expect': prop, 'report': new[0][:300]}
        if declined_ok and res.returncode == 2 and not has_v:
            # a seed recorded as out of reach (meta.json "verdict": "declined"): the change leaves the idioms the rules enumerate, the check
            # must then refuse a verdict - what it must never do is pass silently
            return {'id': 'seed:' + sid, 'status': 'seed-declined', 'expect': prop}
        return {'id': 'seed:' + sid, 'status': 'MISSED', 'expect': prop, 'exit': res.returncode, 'stdout_tail': res.stdout[-600:]}
    finally:
        shutil.rmtree(root, ignore_errors=True)


def _alpha(prop: str, base: str, baseline: set, fraction: float, seed: int, normalise: bool) -> Dict[str, Any]:
    """Negative control produced mechanically (tools/alpha_rename.py): the locals of every function are renamed (all of them, or a random
    part).  With alpha-normalisation the check must give exit 0 and no new report line; without it (the rules on their own) it may decline
    but must not raise an alarm."""
    name = f'alpha:{"all" if fraction >= 1 else f"{fraction}#{seed}"}:{"norm" if normalise else "rules-only"}'
    root = _make_scratch(base, name.replace(':', '_').replace('#', '_'))
    try:
        import importlib.util
        spec = importlib.util.spec_from_file_location('alpha_rename', os.path.join(VERIF, 'tools', 'alpha_rename.py'))
        ar = importlib.util.module_from_spec(spec)
        spec.loader.exec_module(ar)                    # type: ignore[union-attr]
        ar.FRACTION = fraction
        ar.RNG = __import__('random').Random(seed)
        pk = os.path.join(root, 'src', 'srctools')
        for dirpath, _, files in os.walk(pk):
            for f in sorted(files):
                if f.endswith('.py'):
                    pth = os.path.join(dirpath, f)
                    with open(pth, encoding='utf8') as fh:
                        text = fh.read()
                    new, _n = ar.rename_module(text, None, '_v')
                    if new != text:
                        with open(pth, 'w', encoding='utf8') as fh:
                            fh.write(new)
        env = dict(os.environ)
        env['VERIF_REPO'] = root
        env['VERIF_NO_EVIDENCE'] = '1'
        env['VERIF_REPLAY_DIR'] = os.path.join(root, 'replay')
        if not normalise:
            env['VERIF_NO_ALPHANORM'] = '1'
        res = subprocess.run([sys.executable, os.path.join(VERIF, 'check.py'), prop, '--tier', 'quick'], env=env, capture_output=True, text=True, timeout=600)
        has_v = any(ln.startswith('VIOLATION ') for ln in res.stdout.splitlines())
        if res.returncode == 1 or has_v:
            return {'id': name, 'status': 'FALSE-ALARM', 'expect': None, 'exit': res.returncode, 'stdout_tail': res.stdout[-600:]}
        if normalise and res.returncode != 0:
            return {'id': name, 'status': 'FALSE-ALARM', 'expect': None, 'exit': res.returncode, 'stdout_tail': 'a pure rename must be analysed like the original: ' + res.stdout[-500:]}
        return {'id': name, 'status': 'silent-ok' if res.returncode == 0 else 'refused', 'expect': None}
    finally:
        shutil.rmtree(root, ignore_errors=True)


def _kept_seeds(prop: str) -> List[Any]:
    import json
    out = []
    sdir = os.path.join(VERIF, 'seeded')
    for sid in sorted(os.listdir(sdir)) if os.path.isdir(sdir) else []:
        meta_p = os.path.join(sdir, sid, 'meta.json')
        patch = os.path.join(sdir, sid, 'patch.diff')
        if not (os.path.exists(meta_p) and os.path.exists(patch)):
            continue
        meta = json.load(open(meta_p))
        det = meta.get('detected_by', '')
        if re.search(r'\b' + prop + r'\.', det) or (meta.get('property') == prop and not re.search(r'\bC\d\d\.', det)):
            out.append((sid, patch, meta.get('verdict') == 'declined'))
    return out


def run_selftest(ctx: Any, prop: str, rules: Any) -> None:
    mutants: List[Dict[str, Any]] = list(getattr(rules, 'MUTANTS', []))
    if not mutants:
        ctx.selftest = {'mutants': 0}
        return
    base = tempfile.mkdtemp(prefix='verif_selftest_')
    try:
        # control: the unmodified scratch copy gives the same verdict as the tree itself (no new violations)
        ctl = _make_scratch(base, 'control')
        res0 = _run_check(prop, ctl)
        shutil.rmtree(ctl, ignore_errors=True)
        if res0.returncode == 2:
            raise AnalysisError('self-validation: control copy is not analysable: ' + res0.stdout[-300:])
        baseline = {_strip(ln) for ln in res0.stdout.splitlines() if ' [' in ln}
        with concurrent.futures.ThreadPoolExecutor(max_workers=min(16, os.cpu_count() or 4)) as ex:
            futs = [ex.submit(_one, prop, base, m, baseline) for m in mutants]
            futs += [ex.submit(_seed, prop, base, sid, patch, baseline, dec) for sid, patch, dec in _kept_seeds(prop)]
            futs += [ex.submit(_alpha, prop, base, baseline, 1.0, 0, True), ex.submit(_alpha, prop, base, baseline, 1.0, 0, False), ex.submit(_alpha, prop, base, baseline, 0.5, 1, False)]
            results = [f.result() for f in futs]
    finally:
        shutil.rmtree(base, ignore_errors=True)
    missed = [r for r in results if r['status'] in ('MISSED', 'mutant-does-not-compile', 'FALSE-ALARM')]
    ctx.selftest = {
        'mutants': len(results),
        'detected': sum(1 for r in results if r['status'] == 'detected'),
        'kept_seeds_detected': sum(1 for r in results if r['status'] == 'detected' and r['id'].startswith('seed:')),
        'kept_seeds_declined_as_recorded': sum(1 for r in results if r['status'] == 'seed-declined'),
        'negative_controls_silent': sum(1 for r in results if r['status'] == 'silent-ok'),
        'alpha_renamed_trees': {r['id']: r['status'] for r in results if r['id'].startswith('alpha:')},
        'repairs_silence_known_findings': sum(1 for r in results if r['status'] == 'repair-silences'),
        'refused_no_verdict': sum(1 for r in results if r['status'] == 'refused'),
        'stale': [r['id'] for r in results if r['status'] == 'stale'],
        'results': results,
    }
    for r in results:
        if r['status'] == 'stale':
            print(f'SELFTEST-STALE property={prop} mutant={r["id"]}: its anchor text no longer occurs in the tree (variant skipped; refresh it)')
    if missed:
        for r in missed:
            print(f'SELFTEST-MISSED property={prop} mutant={r["id"]} expected rule {r["expect"]}: {r.get("stdout_tail", r.get("detail", ""))[-300:]}')
        raise AnalysisError(f'self-validation failed: {len(missed)} mutant(s) not detected: '
                            + ', '.join(r['id'] for r in missed))
