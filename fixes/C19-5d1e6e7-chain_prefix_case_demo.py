from srctools.filesys import VirtualFileSystem, FileSystemChain
vfs = VirtualFileSystem({'Materials/dev/a.vmt': b'A', 'materials/b.vmt': b'B'})
ch = FileSystemChain((vfs, 'materials'), (VirtualFileSystem({'dev/a.vmt': b'second'}), ''))
names = sorted(f.path for f in ch.walk_folder(''))
assert names == ['b.vmt', 'dev/a.vmt'], names
print('OK')
