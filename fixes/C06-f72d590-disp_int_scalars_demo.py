from srctools.vmf import VMF, Side, Solid
from srctools.math import Vec
from srctools.keyvalues import Keyvalues
import io
v = VMF()
solid = v.make_prism(Vec(-64, -64, -8), Vec(64, 64, 8)).solid
old = solid.sides[0]
new = Side(v, [p.copy() for p in old.planes], mat=old.mat, uaxis=old.uaxis, vaxis=old.vaxis, disp_power=2)
solid.sides[0] = new
v.add_brush(solid)
def exp(m):
    b = io.StringIO(); m.export(b); return b.getvalue()
t1 = exp(v)      # default DispVertex.distance is the int 0
v2 = VMF.parse(Keyvalues.parse(t1), preserve_ids=True)
t2 = exp(v2)
d = [(a.strip(), b.strip()) for a, b in zip(t1.splitlines(), t2.splitlines()) if a != b]
print(d[:2])
strip = lambda t: [l for l in t.splitlines() if 'mapversion' not in l]
assert strip(t1) == strip(t2), 'second export differs from the first'
print('OK')
