"""Demo for fix 51f85c1 (C16): entities in the first overflow block are no longer dropped by serialise().

    cd /tmp && PYTHONPATH=/repo/src:/tmp/shim /venv/bin/python /verif/fixes/C16-51f85c1-overflow_block_demo.py
Fails (AssertionError) on the tree before the fix, prints OK after it.
"""
import contextlib
import io

from srctools import _engine_db as edb
from srctools.fgd import FGD, EntityDef, EntityTypes, KVDef, ValueTypes

fgd = FGD.engine_dbase()
for i, name in enumerate(['zz_unique_one', 'Zz_Unique_Two', 'zz_unique_three']):
    ent = EntityDef(EntityTypes.POINT, name)
    ent.keyvalues[f'veryuniquekey{i}'] = {frozenset(): KVDef(f'veryuniquekey{i}', ValueTypes.STRING, f'Very Unique {i}', '', f'a very unique desc {i}')}
    fgd.entities[name.casefold()] = ent
want = set(fgd.entities) - {'_cbaseentity_'}
buf = io.BytesIO()
with contextlib.redirect_stdout(io.StringIO()):
    edb.serialise(fgd, buf)
buf.seek(0)
got = set(edb.unserialise(buf).get_classnames())
assert not (want - got), f'missing from the serialised database: {sorted(want - got)}'
print('OK')
