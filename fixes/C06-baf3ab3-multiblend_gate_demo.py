"""Demo for fix baf3ab3 (C06): multiblend blocks are exported when alpha or colours are set, not only blend.

    cd /tmp && PYTHONPATH=/repo/src:/tmp/shim /venv/bin/python /verif/fixes/C06-baf3ab3-multiblend_gate_demo.py
Fails (AssertionError) on the tree before the fix, prints OK after it.
"""
import io
from srctools import Keyvalues, Vec
from srctools.vmf import VMF, Vec4, DispVertex

v = VMF()
s = v.make_prism(Vec(-64, -64, -8), Vec(64, 64, 8)).solid
v.add_brush(s)
side = s.sides[0]
side.disp_power = 1
side._disp_verts = [DispVertex(x, y) for y in range(3) for x in range(3)]
side.disp_pos = Vec()
side.disp_allowed_vert = [-1] * 10
side._disp_verts[0].multi_alpha = Vec4(0.5, 0, 0, 0)
buf = io.StringIO()
v.export(buf)
v2 = VMF.parse(Keyvalues.parse(buf.getvalue()))
s2 = [sd for b in v2.brushes for sd in b if sd.is_disp][0]
assert s2._disp_verts[0].multi_alpha == Vec4(0.5, 0, 0, 0), f'multi_alpha read back as {s2._disp_verts[0].multi_alpha}'
print('OK')
