"""Demo for fix 2c3e630 (C17): $variables in angles / pitch / yaw and in keyvalues the FGD does not know.

Run with the repository source first on the path:
    cd /tmp && PYTHONPATH=/repo/src:/tmp/shim /venv/bin/python /verif/fixes/C17-2c3e630-substitute_demo.py
Fails (AssertionError) on the tree before the fix, prints OK after it.
"""
from srctools import VMF, Vec, Matrix
from srctools.vmf import FixupValue
from srctools.instancing import Instance, InstanceFile, FixupStyle, collapse_one

tmpl = VMF()
tmpl.create_ent('info_target', targetname='t', origin='0 0 0', angles='$ang')
tmpl.create_ent('prop_static', targetname='v', origin='0 0 0', angles='0 45 0', gibangles='$ang')
file = InstanceFile(tmpl)
target = VMF()
inst = Instance('a', 'tmpl.vmf', Vec(), Matrix(), FixupStyle.PREFIX, fixup=[FixupValue('ang', '0 90 0', 1)])
collapse_one(target, inst, file)
[t] = target.by_target['a-t']
[v] = target.by_target['a-v']
assert t['angles'] == '0 90 0', f'angles "$ang" collapsed to {t["angles"]!r}'
assert v['gibangles'] == '0 90 0', f'unknown keyvalue kept {v["gibangles"]!r}'
print('OK')
