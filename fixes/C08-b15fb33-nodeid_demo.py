from srctools.vmf import VMF
v = VMF()
a = v.create_ent('info_node', nodeid='2')
na = a['nodeid']
a.remove()
b = v.create_ent('info_node', nodeid=na)
print('a', na, 'b', b['nodeid'])
v.add_ent(a)
ids = [e['nodeid'] for e in v.entities]
print(ids, sorted(v.node_id._used))
assert len(set(ids)) == len(ids), 'duplicate node ids'
# and a plain add keeps the requested id
v2 = VMF()
e = v2.create_ent('info_node', nodeid='5')
print(e['nodeid'], sorted(v2.node_id._used))
assert e['nodeid'] == '5' and sorted(v2.node_id._used) == [5]
