"""Angle @= FrozenMatrix was not in place before a80b16c (Python implementation).

Run with the repository source first on the path:
    cd /tmp && PYTHONPATH=/repo/src:/tmp/shim /venv/bin/python /verif/fixes/C04-a80b16c-angle_imatmul_frozenmatrix_demo.py
Exits 1 on the parent commit 51f85c1 (alias keeps `10 20 30`), 0 from a80b16c on.
"""
from srctools.math import Py_Angle, Py_FrozenMatrix, Py_Matrix

ang = Py_Angle(10, 20, 30)
alias = ang
ang @= Py_FrozenMatrix.from_yaw(45)
expected = Py_Angle(10, 20, 30)
expected @= Py_Matrix.from_yaw(45)
assert ang == expected, (ang, expected)
assert ang is alias, f'`ang @= FrozenMatrix` bound a new object: alias is still {alias}, ang is {ang}'
print('OK')
