#!/venv/bin/python
"""Entry point: /venv/bin/python /verif/check.py <PROPERTY> [--tier quick|thorough] [--replay FILE]

Exit 0: every rule instance of the property holds on /repo's current source (or is a listed known finding).
Exit 1: a VIOLATION line was printed.
Exit 2: ANALYSIS-ERROR - the checker could not understand the tree (anchor vanished, unknown idiom,
        self-test failed); nothing is claimed either way.
"""
from __future__ import annotations

import argparse
import importlib
import json
import os
import sys
import traceback

HERE = os.path.dirname(os.path.abspath(__file__))
sys.path.insert(0, HERE)

from engine.model import AnalysisError, Program  # noqa: E402
from engine.report import Ctx  # noqa: E402


def main() -> int:
    ap = argparse.ArgumentParser()
    ap.add_argument('prop')
    ap.add_argument('--tier', default=os.environ.get('VERIF_TIER') or 'quick', choices=['quick', 'thorough'])
    ap.add_argument('--replay', default=None)
    ap.add_argument('--no-selftest', action='store_true')
    args = ap.parse_args()
    prop = args.prop.upper()
    try:
        rules = importlib.import_module(f'rules.{prop.lower()}')
    except ModuleNotFoundError:
        print(f'ANALYSIS-ERROR property={prop}: no rule module')
        return 2
    ctx = Ctx(prop, args.tier, getattr(rules, 'LEVEL', 'other'))
    if args.replay:
        with open(args.replay) as f:
            ctx.only_key = json.load(f)['key']
        os.environ['VERIF_NO_EVIDENCE'] = '1'
    try:
        prog = Program()
        rules.run(ctx, prog)
        if args.tier == 'thorough' and not args.replay and not args.no_selftest:
            from selftest.runner import run_selftest
            run_selftest(ctx, prop, rules)
        return ctx.finish(prog.consulted)
    except AnalysisError as exc:
        print(f'ANALYSIS-ERROR property={prop}: {exc}')
        if any(not i.ok for i in ctx.instances):
            # definite rule violations were already established before the analysis stopped: report them
            # (floors cannot be enforced on a partial run; known findings still apply)
            ctx.floors = {r: 0 for r in ctx.floors}
            ctx.notes.append(f'partial run: analysis stopped with: {exc}')
            try:
                rc = ctx.finish(prog.consulted if 'prog' in locals() else [])
            except AnalysisError:
                return 2
            return 1 if rc == 1 else 2
        return 2
    except Exception:  # noqa: BLE001 - a crash of the checker is never a verdict
        traceback.print_exc()
        print(f'ANALYSIS-ERROR property={prop}: checker crashed (see traceback)')
        return 2


if __name__ == '__main__':
    sys.exit(main())
