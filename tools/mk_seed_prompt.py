#!/usr/bin/env python3
"""mk_r2.py PROP SUFFIX : instantiate a round-N prompt from the C17r2 prompt, with the 'already explored' list from kept seeds' notes"""
import json, sys, glob, os, re
prop, suf = sys.argv[1], sys.argv[2]
tmpl = open('/tmp/seed/C17r2.prompt.md').read()
head = tmpl[:tmpl.index('```json')]
tail = tmpl[tmpl.index('## What to produce'):tmpl.index('## Already explored')]
rec = None
for l in open('/verif/properties.jsonl'):
    d = json.loads(l)
    if d['id'] == prop: rec = d
wt = f'/tmp/seed/{prop}{suf}'
head = head.replace('/tmp/seed/C17r2', wt)
tail = tail.replace('/tmp/seed/C17r2', wt)
expl = []
for d in sorted(glob.glob(f'/verif/seeded/{prop}-*/')):
    n = os.path.join(d, 'notes.md')
    if os.path.exists(n):
        txt = ' '.join(open(n).read().split())
        expl.append('- ' + txt[:330])
out = head + '```json\n' + json.dumps(rec, indent=1) + '\n```\n\n' + tail + '\n## Already explored (do something different)\nEarlier seeded changes for this property used the mechanisms below. Yours must use different sites and different mechanisms:\n' + '\n'.join(expl) + '\n'
open(f'/tmp/seed/{prop}{suf}.prompt.md', 'w').write(out)
print(wt, len(out))
