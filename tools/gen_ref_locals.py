#!/usr/bin/env python3
"""gen_ref_locals.py [REPO]  - record the alpha-invariant skeleton hash and the local names of every function of the package
(engine/ref_locals.json, read by engine/alphanorm.py).  Re-run after the rules have been brought in line with a new upstream commit."""
import ast, json, os, sys
sys.path.insert(0, os.path.dirname(os.path.dirname(os.path.abspath(__file__))))
from engine.alphanorm import REF_FILE, functions_of, skeleton

repo = sys.argv[1] if len(sys.argv) > 1 else '/repo'
pk = os.path.join(repo, 'src', 'srctools')
out = {}
n = 0
for dirpath, _, files in os.walk(pk):
    for f in sorted(files):
        if not f.endswith('.py'):
            continue
        p = os.path.join(dirpath, f)
        rel = os.path.relpath(p, repo).replace(os.sep, '/')
        tree = ast.parse(open(p, encoding='utf8').read())
        ent = {}
        seen = {}
        for qual, fn in functions_of(tree):
            k = seen.get(qual, 0)
            seen[qual] = k + 1
            h, order, _ = skeleton(fn)
            if order:
                ent[qual if k == 0 else f'{qual}#{k}'] = [h, order]
                n += 1
        if ent:
            out[rel] = ent
with open(REF_FILE, 'w', encoding='utf8') as fh:
    json.dump(out, fh, indent=0, sort_keys=True)
    fh.write('\n')
print(f'{n} functions with locals recorded in {REF_FILE}')
