#!/bin/sh
# usage: all_checks.sh [quick|thorough] - run every check of the manifest tier in parallel and print its EXIT CODE (the summary line alone hides
# a failed self-validation: the thorough tier exits 2 after printing a clean summary when a mutant or a renamed tree misbehaves)
tier="${1:-quick}"
for i in 01 02 03 04 05 06 07 08 09 10 11 12 13 14 15 16 17 18 19 20; do
  ( /venv/bin/python /verif/check.py C$i --tier "$tier" > /tmp/allchk_$i.log 2>&1; c=$?
    echo "C$i exit=$c $(grep -a 'SELFTEST-\|ANALYSIS-ERROR\|^VIOLATION' /tmp/allchk_$i.log | head -2 | cut -c1-200 | tr '\n' ' ')" ) &
done
wait
rm -f /tmp/allchk_*.log
