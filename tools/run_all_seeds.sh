#!/bin/sh
# Apply every kept seed to /repo in turn, run the quick check(s) of its property (and any property named in detected_by), restore.
# Prints one line per seed: id, exit code per property, first reported rule.
cd /repo || exit 9
if ! git diff --quiet -- src; then echo "REPO DIRTY, refusing"; exit 9; fi
for d in /verif/seeded/*/; do
  id=$(basename "$d")
  props=$(python3 -c "
import json,re,sys
m=json.load(open('$d/meta.json'))
ps=[m['property']]+re.findall(r'(C\d\d)\.', m['detected_by'])
out=[]
for p in ps:
    if p not in out: out.append(p)
print(' '.join(out))")
  git apply "$d/patch.diff" 2>/dev/null || { echo "$id PATCH-DOES-NOT-APPLY"; git checkout -q -- . ; continue; }
  line="$id"
  for p in $props; do
    out=$(VERIF_NO_EVIDENCE=1 VERIF_REPLAY_DIR=/tmp/seed_replay /venv/bin/python /verif/check.py "$p" --tier quick 2>&1); code=$?
    rule=$(echo "$out" | grep -o "\[C[0-9][0-9]\.[A-Z0-9]*\]" | head -1)
    line="$line  $p:exit=$code$rule"
  done
  echo "$line"
  git checkout -q -- .
done
rm -rf /tmp/seed_replay
