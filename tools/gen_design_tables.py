#!/usr/bin/env python3
"""Regenerate the generated tables of DESIGN.md (between <!-- BEGIN:x --> / <!-- END:x --> markers) from the artefacts:
evidence/*.json (rules and instance counts), seeded/*/meta.json, known_findings.json."""
import glob, json, re
V = '/verif'


def rules():
    out = ['| Prop | Rule | Statement decided | Instances (floor) |', '|---|---|---|---|']
    for f in sorted(glob.glob(V + '/evidence/C*.json')):
        e = json.load(open(f))
        for rid, r in e['coverage']['rules'].items():
            out.append(f"| {e['property_id']} | {rid.split('.')[1]} | {r['statement']} | {r['instances']} ({r['floor']}) |")
    return '\n'.join(out)


def seeds():
    out = ['| Seed | What it needs to manifest | Caught by |', '|---|---|---|']
    for d in sorted(glob.glob(V + '/seeded/*')):
        m = json.load(open(d + '/meta.json'))
        out.append(f"| {m['id']} | {m['needs_to_manifest']} | {m['detected_by']} |")
    return '\n'.join(out)


def fixes():
    k = json.load(open(V + '/known_findings.json'))['findings']
    out = ['| Prop | Commit | What failed | Rule instance that reports it |', '|---|---|---|---|']
    for e in k:
        if e['status'] == 'fixed':
            parts = e['key'].split(' | ')
            out.append(f"| {e['property']} | {e['commit']} | {e['what']} | {parts[0]} `{parts[-1]}` in {parts[2]} |")
    return '\n'.join(out)


def known():
    k = json.load(open(V + '/known_findings.json'))['findings']
    out = ['| Prop | Rule instance | Finding and why it is not repaired |', '|---|---|---|']
    for e in k:
        if e['status'] == 'known':
            parts = e['key'].split(' | ')
            out.append(f"| {e['property']} | {parts[0]} `{parts[-1]}` in {parts[1].split('/')[-1]}:{parts[2]} | {e['what']} |")
    return '\n'.join(out)


s = open(V + '/DESIGN.md').read()
for name, fn in (('rules', rules), ('seeds', seeds), ('fixes', fixes), ('known', known)):
    pat = re.compile(r'(<!-- BEGIN:%s -->\n).*?(<!-- END:%s -->)' % (name, name), re.S)
    if not pat.search(s):
        raise SystemExit(f'marker {name} missing')
    s = pat.sub(lambda m: m.group(1) + fn() + '\n' + m.group(2), s)
open(V + '/DESIGN.md', 'w').write(s)
print('DESIGN.md tables regenerated')
