#!/bin/sh
# usage: run_on_tree.sh <checkout> [PROP...] - run the quick checks against another checkout (e.g. an alpha-renamed copy), one line per property
tree="$1"; shift
props="$@"; [ -z "$props" ] && props="C01 C02 C03 C04 C05 C06 C07 C08 C09 C10 C11 C12 C13 C14 C15 C16 C17 C18 C19 C20"
for p in $props; do
  out=$(VERIF_REPO="$tree" VERIF_NO_EVIDENCE=1 VERIF_REPLAY_DIR=/tmp/tree_replay /venv/bin/python /verif/check.py $p --tier quick 2>&1); code=$?
  echo "$p exit=$code :: $(echo "$out" | grep -v '^KNOWN-FINDING\|^VIOLATION ' | grep -c '\[C')  $(echo "$out" | grep -v '^KNOWN-FINDING\|^VIOLATION \|^Traceback\|^  ' | head -1 | cut -c1-260)"
done
rm -rf /tmp/tree_replay
