#!/usr/bin/env python3
"""Regenerate /verif/MANIFEST.json from the table below (single source of truth for the interface)."""
import json
import os

VERIF = os.path.dirname(os.path.dirname(os.path.abspath(__file__)))
PY = '/venv/bin/python'

# property -> (category, level text, level note, technique, design ref)
CLAIMED = {
    'C18': ('other',
            'Static rules on RawFileSystem: the containment predicate of _resolve_path is classified with the string-form domain (a startswith() against '
            'the bare abspath root is rejected; root + separator, commonpath, is_relative_to are accepted), the candidate is normalised with '
            'abspath(join(root, path)) before the test and that value is what is returned, RootEscapeError is raised exactly when constrain_path (default '
            'True); every OS sink in the class (open, os.walk, os.stat, os.path.isfile...) receives a value returned by _resolve_path, File arguments are '
            'unwrapped and re-resolved; FileSystemChain reaches members only through their public methods.',
            'Trusted: CPython ast, engine/forms.py. Assumes lexical normalisation by os.path.abspath; symlinks inside the root are not claimed.',
            'static: taint-style sink sanitisation check + string-form classification of the containment predicate',
            'DESIGN.md section 3, C18'),
    'C19': ('other',
            'Static rules on the virtual, zip and VPK backends and the chain: string-form dataflow shows index keys, every lookup key and both operands of '
            'the walk_folder test are casefolded with forward slashes; the folder operand is made separator-terminated (or empty) before the prefix test and '
            "the normaliser's '.' for the empty folder is mapped back; yielded File paths are stored names the lookup accepts; the chain returns the first hit "
            'in list order, priority inserts at the front, prefixes are joined and stripped, the de-duplicated walk compares casefolded paths.',
            'Trusted: CPython ast, engine/forms.py (flow-insensitive with block-local kills). Byte equality across backends and OS case behaviour are not claimed.',
            'static: string-form dataflow (normal-form agreement of index, lookup and folder-test operands) + shape rules for the chain',
            'DESIGN.md section 3, C19'),
    'C14': ('other',
            'Static rules on dmx.py: the type-code table is folded and the reader classification is evaluated on every (type, shape) code the writer can emit; '
            'string-table formats per binary version are evaluated on both sides; token sequences (struct slots, NUL-terminated strings with their encoding, '
            'fixed / per-type / length-prefixed byte runs, reference sentinels with what follows them) are extracted from parse_bin and export_binary under every '
            '(version 1-5, value type, scalar/array) configuration and compared; converter tables (struct shared by both directions, arities, matrix cell positions); '
            'KeyValues2 quoted slots escaped and encoded with the selected encoding, keyword agreement; stub construction sites carry the UUID; attribute count '
            'criterion equals the skip criterion; KV1 bridge constants agree both ways.',
            'Trusted: CPython ast, engine/fold.py, engine/wire.py (gate evaluator). Graph isomorphism, UUID fix-ups, float text precision and KV1 tree equality are not claimed.',
            'static: folded code tables + per-configuration wire token extraction for reader and writer + quoted-slot escape lint',
            'DESIGN.md section 3, C14'),
    'C15': ('other',
            'Static rules on vtf.py and the two codec modules: header/resource-table slot sequences of VTF.read and VTF.save per file version 7.2-7.5, header slot -> attribute linkage, '
            'resource count = entries written; frame loop nest and _frames key order; constructor frame table vs declared mipmap_count; side sequence vs written version; '
            'bit-provenance interpretation (engine/bits.py) of every uncompressed save_*/load_* pair in the Python module and, through the pyx front end, in the Cython module: '
            'load(save(p)) keeps each channel in its own channel, preserves the declared top bits, quantisation is idempotent, Python and Cython bit maps are equal; '
            'bounds guard of Frame.__getitem__/__setitem__ (accepted region derived from the rejecting test); mipmap scaling shape; particle-sheet wire agreement per version.',
            'Trusted: CPython ast, engine/bits.py, engine/wire.py, engine/pyx.py. DXT/ATI codecs, grey-scale means, bluescreen branches and pixel values are not claimed.',
            'static: wire-slot extraction per version + symbolic bit-provenance interpretation of codec pairs (Python and Cython) + guard-region extraction',
            'DESIGN.md section 3, C15'),
    'C16': ('other',
            'Static rules on fgd.py, _engine_db.py and _fgd_helpers.py: token-level wire extraction (engine/tokwire.py) of every serialise/unserialise pair of the binary database '
            '(keyvalue records spawnflags/plain, I/O records, resource records tagged/untagged, tag lists, string dictionary, file header and block table), entity-header slot -> collection linkage, '
            'header counts = records written, flag bits tested and masked on the same slot; folded code tables (completeness, index round trip, 7-bit capacity, type flags within the mask); '
            'text tables and keyword agreement between writer and parser; line-token emission of KVDef/IODef export evaluated for every combination of empty/non-empty name, default, description '
            'and value-type kind (no colon directly before end of line or "="), quoted-slot escape lint, long-string cut discipline, tokenizer options; lazy-loading structure of EngineDB.',
            'Trusted: CPython ast, engine/tokwire.py, engine/fold.py, engine/wire.py (gate evaluator). Definition equality after a text round trip, the content of fgd.lzma and block packing are not claimed.',
            'static: token-level wire extraction + folded tables + finite-domain line-token emission of the text writers',
            'DESIGN.md section 3, C16'),
    'C20': ('other',
            'Static rules on cmdseq.py, choreo.py, sndscript.py, vmt.py, particles.py, smd.py: token-level wire extraction of cmdseq and of every choreo parse_binary/export_binary pair '
            '(per event type and relative-tag arm, sub-records paired by class, signedness differences discharged by an interval analysis of the packed expression), scenes.image header/table/summary '
            'per version, ordering and per-entry linkage; choreo text keyword agreement (every line keyword written has an implemented reader branch), quoted-slot escape lint for choreo and soundscript writers, '
            'soundscript range values quoted, VMT escape configuration agreement and bare-word quoting, particle section names / iterable materialisation / attribute spelling / name exclusion, '
            'SMD same-line field separation, per-line field counts and deterministic bone numbering; enum name tables complete and inverse.',
            'Trusted: CPython ast, engine/tokwire.py, engine/fold.py. Value equality (float formatting, quantisation) and lzma payloads are not claimed.',
            'static: token-level wire extraction + interval analysis for signedness + keyword/quoting lints over the text writers',
            'DESIGN.md section 3, C20'),
    'C13': ('other',
            'Static rules on vpk.py: CFG dominance of the writable-mode guard over every mutation of the file table / storage fields / archive files; '
            'wire agreement of the directory reader and writer (header and entry formats, entry slot -> FileInfo field linkage through the constructor, '
            'terminator 0xffff, None <-> DIR_ARCH_INDEX both ways, three-level nesting with one terminator per level, empty-string convention); placement '
            'agreement - read, verify and write use footer_data exactly when arch_index is None and a numbered file otherwise; all lookups normalise '
            'through _get_file_parts; the checksum covers the whole data; the preload is bounded to the 16-bit length field.',
            'Trusted: CPython ast, engine/cfg.py, engine/wire.py. Byte equality over operation sequences and CRC32 collisions are not claimed.',
            'static: guard dominance + reader/writer wire and field linkage + placement (guard, storage) agreement',
            'DESIGN.md section 3, C13'),
    'C11': ('other',
            'Wire-effect extraction (engine/wire.py): every struct-format read/write of the 19 binary view pairs is extracted in source order with '
            'its source/sink lump; version/layout gates are decided by a finite-domain evaluator for five engine configurations and, for static '
            'props, for every StaticPropVersion member; the resulting slot sequences of reader and writer must be equal per lump (L1/L4), unpack '
            'target and pack argument counts must equal the value slots (L2), the static prop record size must equal the declared size. Plus '
            'structural rules: subclass-before-base isinstance order, raising length check before fixed-width string packing, RLE record shape, '
            'escape discipline of the entity lump, physics sentinel agreement. Value equality and field-to-slot linkage beyond arity are not claimed.',
            'Trusted: CPython ast/struct.calcsize, engine/wire.py (fails closed on format expressions outside the enumerated idioms), the constant folder. '
            'float32 representability and find_or_insert re-indexing are outside.',
            'static: wire-effect extraction + finite-domain evaluation of version gates, reader/writer slot-sequence agreement',
            'DESIGN.md section 3, C11'),
    'C10': ('other',
            'Static rules over the lazily parsed lump views of class BSP: (B1) CFG must-pass-through - every lump that a view blanks when parsed '
            'is re-assigned by its writer on every normally returning path (format-variant guards shared with the reader excepted); (B2) dependency '
            'check - a writer (and the BSP helpers it calls) reads another view only if that view is rebuilt later in LUMP_REBUILD_ORDER and never its '
            'own view; (B3) completeness of the order tables and reader/writer presence; (B4) role-level agreement of the lump header record in both '
            'field orders and of the game-lump directory record; (B5) symmetry of compression flag, stored length and decompression; (B6) cache-'
            'before-blank in ParsedLump.__get__. These decide the 2^21 access-subset question structurally; byte identity is not claimed.',
            'Trusted: CPython ast, engine/cfg.py, the role classifier for header fields in rules/c10.py. LZMA determinism and content equality '
            '(C11) are outside.',
            'static: CFG must-pass-through + view/lump dependency order check + header role agreement',
            'DESIGN.md section 3, C10'),
    'C12': ('other',
            'Static rules on AtomicWriter and BSP.save: the destination path is only ever the argument of the final replace() (never opened, '
            'truncated or unlinked) so, given atomic rename, it holds old or new contents at every kill point; on the statement CFG of __exit__ with '
            'exceptional edges out of close/replace/unlink (path-sensitive in constant boolean guard flags): replace() is reached only after the '
            'handle was closed and only when the body did not raise, and every exit that did not complete replace() attempts to unlink the temp '
            'file; the temp file is a sibling created with exclusive mode, retried only on FileExistsError; BSP.save writes only through the handle.',
            'Trusted: CPython ast, engine/cfg.py. Assumes os.replace is atomic within a directory and that mode "x" creation is exclusive. Two-process '
            'interleavings beyond exclusive creation, fsync and power loss are not claimed.',
            'static: who-may-touch rule on the destination path + CFG must-pass-through with exceptional edges',
            'DESIGN.md section 3, C12'),
    'C17': ('other',
            'Repository-specific static rules: (N1) may-alias analysis of collapse_one with the `file` parameter as root - no store/del/augmented '
            'assignment/mutating call (incl. localise, add_out, remove...) on any name that may alias the template, and every object handed to the '
            'target map is the result of .copy()/Output.combine(); (N2) collapse_all removes each instance entity before collapsing it, iterates '
            'range(recur_limit) and ends in RecursionError (termination on cyclic inclusion); (N3) rotate-then-translate for positions and '
            'rotation-only for directions/angles in fixup_key, collapse_one, Vec/Side/UVAxis.localise; (N4) all fixup styles handled. '
            'The geometric law itself and FGD type dispatch are not claimed.',
            'Trusted: CPython ast, engine/effects.py (flow-insensitive may-alias sets, positional zip binding). Depends on C09 for deep copies and C04 '
            'for the algebra behind `@`.',
            'static: may-alias/effect analysis of the collapse routine + call-shape rules for transform composition',
            'DESIGN.md section 3, C17'),
    'C06': ('other',
            'Repository-specific static rules over the VMF writers and readers: per-pair agreement of the literal keys and block names emitted vs '
            'consumed (KV-text effect extraction with parameter/loop-table resolution; Output as a positional record), escape_text on every quoted '
            'slot whose expression is statically str-typed (small type resolver over field annotations and loop sources), significant-digit '
            'formatting only on the fields the property allows, displacement row lengths written vs demanded as linear forms in S=2**power+1, '
            'id plumbing from file to constructors, and world brushes exported with their group keys. Each is a necessary condition: breaking it '
            'loses or corrupts a field on every round trip. Equality of the re-parsed object graph and the second-export fixed point are not claimed.',
            'Trusted: CPython ast, engine/kvtext.py lexer/resolver, the type resolver in rules/c06.py (fails closed on untypable slots). Assumes C01/C02 '
            'for the text layer.',
            'static: reader/writer key-set agreement + typed escape discipline + format-class and row-shape rules',
            'DESIGN.md section 3, C06'),
    'C09': ('other',
            'Repository-specific ownership analysis of every copy method (Entity, Solid, Side incl. the DispVertex it rebuilds, Output, VisGroup, '
            'EntityGroup, Camera, Cordon, UVAxis, Keyvalues, EntityFixup): the constructor call of the copy is mapped parameter-by-parameter onto '
            'the fields __init__ / the attrs field list stores them in (including whether __init__ or a converter copies the argument), and each '
            'field must (P1) be fed from the same field of the source and (P2) if its declared type is mutable, through a copying expression; '
            'method calls on a field are summarised from the callee (copy_values -> shares FixupValue). P3: non in-place operators contain no '
            'construct mutating an operand. These are facts about the code shape on every path; export equality of the copy is not claimed.',
            'Trusted: CPython ast, the field/type model (slots, attrs fields, annotations, __init__ parameter annotations), the enumerated list of '
            'copying expressions. Unknown expression shapes end the run with exit 2.',
            'static: field-flow / ownership analysis of copy constructors + operator effect analysis',
            'DESIGN.md section 3, C09'),
    'C08': ('other',
            'Repository-specific static rules: the allocator only returns values it reserved on that path and tested free (caller-supplied ids only when '
            'positive), search_pos discipline; the used-id set is private to the managers and object ids are assigned only from get_id in constructors '
            '(package-wide scan of `.id =`); each class acquires and releases through its own manager and is never re-parented; an object id is '
            'released only by that object\'s __del__ (typestate: no release while the object is still reachable/re-addable), node ids released on '
            'removal are re-acquired on add; fixup indexes are the lowest unused index >= 1 and survive copies.',
            'Trusted: CPython ast; shape rules are written against the idioms present today and fail closed (exit 2) on unknown shapes. '
            'GC timing and cross-map moves are outside the decided clauses.',
            'static: allocator shape rule + who-may-write/who-may-release rules + manager pairing',
            'DESIGN.md section 3, C08'),
    'C07': ('other',
            'Repository-specific static rules over every site (package-wide) that mutates the two derived indexes or the entity key store: key '
            'normal form at each index mutation (string-form dataflow: casefolded; by_target maps empty to None), single-writer discipline for '
            'Entity._keys, remove-old-first and membership-guarded adds in the two writers, list+index co-update in add_ent/add_ents/remove_ent, '
            'worldspawn registration/re-class refusal, snapshot iteration of CopySet, and unregistration of the placeholder spawn when VMF.parse '
            'replaces it. Each is a necessary condition: breaking it makes some history go stale. Sufficiency for all histories is not claimed.',
            'Trusted: CPython ast, engine/forms.py (flow-insensitive string-form domain with order-aware parameter re-assignment). '
            'Histories that add one entity to two maps or twice to one map are outside the decided clauses.',
            'static: string-form dataflow on index keys + who-may-write rule + guarded-update shape rules',
            'DESIGN.md section 3, C07'),
    'C04': ('proof',
            'Obligations about the exact-arithmetic content of the formulas as written, discharged by normal-form computation in a polynomial '
            'domain over Q[cos/sin symbols, matrix and vector entries] modulo sin^2+cos^2=1 (and |axis|=1): from_angle equals roll.pitch.yaw under '
            'the product extracted from _mat_mul; orthonormality and det=+1 of every rotation constructor; _mat_mul/_vec_rot/transpose index '
            'patterns and associativity; the atan2 argument pairs of the Euler extraction in both branches; the same for the Cython siblings. '
            'Operand dispatch is decided by statically resolving the operator protocol for all 7x4 operand classes x {@, @=} and interpreting the '
            'selected arms over abstract objects, comparing value and result class with the documented table.',
            'Trusted: CPython ast, engine/poly.py (monomial-dict arithmetic + square-rewriting normal form), engine/mathobj.py, the pyx-lite front '
            'end. Exact real arithmetic is assumed; floating-point rounding, the pole neighbourhood bound and inverse() are not claimed.',
            'static: abstract interpretation in a polynomial domain + static operator-protocol resolution over the class table',
            'DESIGN.md section 3, C04'),
    'C05': ('other',
            'Repository-specific static rules: every store to an angle field (Python and Cython) is double-modulo normalised / a literal in range / a '
            'same-field copy, with raw-constructor helpers discharged at their call sites; frozen classes expose no in-place API over their whole MRO '
            '(exec-generated operators expanded); the private in-place mutators are applied only to targets that are fresh in the caller (method '
            'summaries: X.copy() is fresh only if copy() of every class X may have constructs) and the dispatch interpreter observes no operand '
            'mutation for any operand pair; copies construct; format_float fixes the sign after rounding and is the only formatter used by str/join/repr.',
            'Trusted: CPython ast, engine/mathobj.py, pyx-lite regexes for the Cython stores. Assumes IEEE fmod semantics for x % 360.0 % 360.0. '
            'The numeric "parses back within 5e-7" clause is not claimed.',
            'static: store-site normal-form rule + ownership/freshness summaries + operator dispatch interpretation',
            'DESIGN.md section 3, C05'),
    'C03': ('other',
            'Static rules plus an exhaustive tabulation of the transition function of every loop in Tokenizer._get_token / _handle_comment / '
            '_handle_string over a finite abstraction (alphabet partition = every character the code mentions + OTHER + EOF; the 7 option flags, '
            'branched lazily; loop-carried state computed as a fixed point). From the table: no double rewind, every continuing iteration consumes '
            '>= 1 character net (linear step bound), EOF exits every loop, no Python-level exception (KeyError/TypeError on None) can escape, only '
            'self.error(...) is raised, line numbers move only on line breaks, every return is a (Token, text) pair. Chunk independence is the '
            'who-may-touch rule K1: only __init__/_next_char touch the chunk cursor, everything else rewinds by exactly one.',
            'Trusted: CPython ast, engine/abseval.py (the evaluator covers only the statement/expression subset the tokenizer uses and fails '
            'closed on anything else), constant folder. The Cython tokenizer is checked for cursor encapsulation only (K8).',
            'static: who-may-touch rule + finite-domain abstract interpretation (transition tabulation) of the tokenizer loops + raise-site enumeration',
            'DESIGN.md section 3, C03'),
    'C01': ('other',
            'Repository-specific static rules decide the structural clauses of the round trip on every path of the writers and the reader '
            'configuration: escape discipline of every quoted slot on both write paths (leaf, block header), independence of the token stream '
            'from the indentation options, read-only serialisation, escape configuration agreement between parse and the writers, and child '
            'order (list-order single recursion; parse only appends). These hold for all trees because they are facts about the shape of the '
            'code; the value-level equality itself is not claimed (the character-level inverse is C02).',
            'Trusted: CPython ast, the f-string/quote lexer of engine/kvtext.py, the may-alias mutation finder of engine/effects.py. '
            'Assumes C02 for the content of escaped slots.',
            'static: KV-text effect extraction (quoted-slot lexer over f-strings) + mutation/effect analysis + reader-configuration check',
            'DESIGN.md section 3, C01'),
    'C02': ('proof',
            'Finite obligation set discharged by table/normal-form computation on the source: the escape tables are folded from the AST, the '
            'regexes are read through re._parser, and the transition function of Tokenizer._handle_string is tabulated over the finite alphabet '
            'partition (every character the code mentions + OTHER + EOF). The law over all strings follows by induction over the unit decomposition '
            'of escape_text(s); the Cython sibling is compared table-for-table.',
            'Trusted: CPython ast/re._parser, the constant folder and the finite-domain evaluator in /verif/engine, the induction argument in '
            'DESIGN.md C02. Not covered: UTF-8/buffer handling inside the C implementation.',
            'static: constant folding + regex AST + finite-domain transition tabulation of the string handler; Py/Cy table agreement',
            'DESIGN.md section 3, C02'),
}

PENDING_REASON = 'check for this property is not built yet in this revision of /verif (see DESIGN.md section 3 for the planned static rules)'


def main() -> None:
    props = [json.loads(l) for l in open(os.path.join(VERIF, 'properties.jsonl'))]
    checks = []
    na = []
    for p in props:
        pid = p['id']
        if pid in CLAIMED:
            cat, text, note, tech, ref = CLAIMED[pid]
            checks.append({
                'property_id': pid,
                'quick_cmd': f'{PY} /verif/check.py {pid} --tier quick',
                'thorough_cmd': f'{PY} /verif/check.py {pid} --tier thorough',
                'evidence_file': f'/verif/evidence/{pid}.json',
                'replay_cmd_template': f'{PY} /verif/check.py {pid} --replay {{path}}',
                'engine': 'srctools-static',
                'level_claimed': {'category': cat, 'text': text, 'design_ref': ref},
                'level_note': note,
                'technique': tech,
            })
        else:
            na.append({'property_id': pid, 'reason': NOT_APPLICABLE.get(pid, PENDING_REASON)})
    man = {
        'version': 1,
        'setup_cmd': f'{PY} -c "import ast, tokenize, json; print(\'stdlib-only framework, nothing to build\')"',
        'hooks': {
            'guard': 'TEAMSPEN210_SRCTOOLS_VERIF',
            'enable': 'no hooks: the checks read /repo/src/srctools as text and never import or run it; the guard variable is read by nothing',
            'baseline_off_cmd': 'cd /repo && /venv/bin/python -m pytest -ra -q -p no:cacheprovider --timeout=900 --continue-on-collection-errors',
            'source_commits': [],
            'add_only': True,
        },
        'engines': [{
            'name': 'srctools-static',
            'path': '/verif/engine',
            'serves_properties': sorted(CLAIMED),
            'kind_free_text': 'repository-specific static analysis over Python ast (+ token-level front end for the .pyx accelerators): '
                              'program model, constant folder, statement CFG, wire-format and KeyValues-text effect extraction, '
                              'string-form dataflow, ownership/effect summaries, finite-domain evaluator',
        }],
        'checks': checks,
        'notes': 'All checks: exit 0 = rules hold (known findings printed as KNOWN-FINDING), exit 1 = VIOLATION line(s), exit 2 = ANALYSIS-ERROR '
                 '(anchor vanished / unknown idiom / self-test failed; no verdict). Checks honour VERIF_REPO (default /repo) so the thorough tier '
                 'can validate each rule against single-instance source mutants in a temp copy. Known findings: /verif/known_findings.json.',
        'not_applicable': na,
    }
    with open(os.path.join(VERIF, 'MANIFEST.json'), 'w') as f:
        json.dump(man, f, indent=1)
        f.write('\n')
    print(f'{len(checks)} checks claimed, {len(na)} not applicable')


NOT_APPLICABLE: dict = {}

if __name__ == '__main__':
    main()
