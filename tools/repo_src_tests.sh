#!/bin/sh
# Triage helper (NOT a check): run the repository's tests against /repo/src (pure-Python fallbacks) instead of the
# installed srctools 2.7.0 wheel that the baseline command imports.  Needs a shim for importlib_resources.
mkdir -p /tmp/shim && echo "from importlib.resources import *" > /tmp/shim/importlib_resources.py
cd /repo && PYTHONPATH=/repo/src:/tmp/shim /venv/bin/python -m pytest -q -p no:cacheprovider -n 8 "$@" 2>&1 | tail -25
# regression fixtures written by the run (file_regression for parameters the wheel's tests do not have) are not part of the tree
git -C /repo clean -fdq tests
