#!/bin/sh
# usage: par_regress.sh seeds|refactorings [JOBS]
# Parallel regression on scratch copies of /repo HEAD (never touches /repo's working tree):
#   seeds        - every kept seed: quick check of its property and of every property named in detected_by.
#                  "OK" = at least one of them exits 1; anything else is printed as NOT-REPORTED (declined seeds show exit=2)
#   refactorings - every behaviour-preserving refactoring, all twenty quick checks; prints every check that does not exit 0
mode="$1"; jobs="${2:-14}"
base=$(mktemp -d /tmp/parregXXXX)
git -C /repo archive HEAD src | tar -x -C "$base"
one_seed() {
  d="$1"; id=$(basename "$d"); t=$(mktemp -d /tmp/prsXXXX); cp -r "$2/src" "$t/"
  (cd "$t" && patch -s -p1 < "$d/patch.diff" >/dev/null 2>&1) || { echo "$id PATCH-DOES-NOT-APPLY"; rm -rf "$t"; return; }
  props=$(python3 -c "
import json,re
m=json.load(open('$d/meta.json'))
ps=[m['property']]+re.findall(r'(C\d\d)\.', m['detected_by'])
out=[]
for p in ps:
    if p not in out: out.append(p)
print(' '.join(out))")
  line="$id"; hit=0
  for p in $props; do
    out=$(VERIF_REPO="$t" VERIF_NO_EVIDENCE=1 VERIF_REPLAY_DIR="$t/replay" /venv/bin/python /verif/check.py "$p" --tier quick 2>&1); code=$?
    rule=$(echo "$out" | grep -o "\[C[0-9][0-9]\.[A-Z0-9]*\]" | head -1)
    line="$line  $p:exit=$code$rule"; [ $code -eq 1 ] && hit=1
  done
  if [ $hit -eq 1 ]; then echo "OK $line"; else echo "NOT-REPORTED $line"; fi
  rm -rf "$t"
}
one_refac() {
  d="$1"; id=$(basename "$d"); t=$(mktemp -d /tmp/prsXXXX); cp -r "$2/src" "$t/"
  (cd "$t" && patch -s -p1 < "$d/patch.diff" >/dev/null 2>&1) || { echo "$id PATCH-DOES-NOT-APPLY"; rm -rf "$t"; return; }
  for n in 01 02 03 04 05 06 07 08 09 10 11 12 13 14 15 16 17 18 19 20; do
    out=$(VERIF_REPO="$t" VERIF_NO_EVIDENCE=1 VERIF_REPLAY_DIR="$t/replay" /venv/bin/python /verif/check.py "C$n" --tier quick 2>&1); code=$?
    [ $code -ne 0 ] && echo "## $id C$n exit=$code :: $(echo "$out" | grep -v '^KNOWN-FINDING\|^VIOLATION ' | head -1 | cut -c1-260)"
  done
  echo "done $id"
  rm -rf "$t"
}
if [ "$mode" = seeds ]; then dir=/verif/seeded; fn=one_seed; else dir=/verif/refactorings; fn=one_refac; fi
n=0
for d in $dir/*/; do
  $fn "${d%/}" "$base" &
  n=$((n+1))
  if [ $((n % jobs)) -eq 0 ]; then wait; fi
done
wait
rm -rf "$base"
echo "($mode scan done)"
