#!/bin/sh
# usage: verify_seed.sh <seed dir with patch.diff + demo.py> [tests]  - confirm in a scratch worktree: demo passes without, fails with the change.
# The demo is run from <worktree>/_seed/X/demo.py so that paths relative to the worktree (sample files under tests/) resolve.
d="$1"; wt=/tmp/verify_seed_wt.$$
git -C /repo worktree add --detach -q "$wt" HEAD || exit 9
mkdir -p "$wt/_seed/X"
sed -E "s#^([[:space:]]*)assert .*srctools\.__file__.*#\1pass#; s#/tmp/seed/C[0-9]+#$wt#g" "$d/demo.py" > "$wt/_seed/X/demo.py"
cd /tmp
echo "--- without change:"; PYTHONPATH=$wt/src:/tmp/shim /venv/bin/python "$wt/_seed/X/demo.py" > /tmp/vs_out.$$ 2>&1; echo "exit=$?"; tail -3 /tmp/vs_out.$$
(cd $wt && (git apply "$d/patch.diff" 2>/dev/null || git apply --3way "$d/patch.diff")) || echo "PATCH DOES NOT APPLY"
echo "--- with change:"; PYTHONPATH=$wt/src:/tmp/shim /venv/bin/python "$wt/_seed/X/demo.py" > /tmp/vs_out.$$ 2>&1; echo "exit=$?"; tail -5 /tmp/vs_out.$$
if [ -n "$2" ]; then echo "--- tests with change:"; (cd $wt && PYTHONPATH=$wt/src:/tmp/shim /venv/bin/python -m pytest -q -p no:cacheprovider -n 8 $2 2>&1 | tail -3); fi
rm -f /tmp/vs_out.$$
git -C /repo worktree remove --force "$wt"
