#!/bin/sh
# Apply every behaviour-preserving refactoring under /verif/refactorings in turn and run all twenty quick checks on it.
# Expected: no output between the headers (every check exits 0).  exit=2 = a check declines, exit=1 = false alarm.
for d in /verif/refactorings/*/; do
  r=$(/verif/tools/try_patch_all.sh "$d/patch.diff" 2>&1 | grep -v "^(done" | cut -c1-300)
  [ -n "$r" ] && echo "## $(basename $d): $r"
done
echo "(refactoring scan done)"
