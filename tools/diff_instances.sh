#!/bin/sh
# usage: diff_instances.sh <other checkout> PROP - which rule instances differ between /repo and another tree (counted per rule|function)
VERIF_NO_EVIDENCE=1 VERIF_DUMP_INSTANCES=/tmp/inst_a.txt /venv/bin/python /verif/check.py $2 --tier quick >/dev/null 2>&1
VERIF_REPO=$1 VERIF_NO_EVIDENCE=1 VERIF_DUMP_INSTANCES=/tmp/inst_b.txt /venv/bin/python /verif/check.py $2 --tier quick >/dev/null 2>&1
sort /tmp/inst_a.txt | uniq -c > /tmp/inst_a.s; sort /tmp/inst_b.txt | uniq -c > /tmp/inst_b.s
diff /tmp/inst_a.s /tmp/inst_b.s
rm -f /tmp/inst_a.txt /tmp/inst_b.txt /tmp/inst_a.s /tmp/inst_b.s
