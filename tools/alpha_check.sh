#!/bin/sh
# Negative control produced mechanically: rename the locals of every function of the package (tools/alpha_rename.py), then run all twenty quick
# checks on the renamed copy.  Expected: exit 0 everywhere with the same instance counts as on /repo (engine/alphanorm.py recognises a function
# that differs from the recorded one only in local names).  With VERIF_NO_ALPHANORM=1 the rules are on their own: no exit 1 is acceptable then either.
set -e
rm -rf /tmp/alpha_check
/venv/bin/python /verif/tools/alpha_rename.py /repo /tmp/alpha_check --suffix "${1:-_v}" >/dev/null
/verif/tools/run_on_tree.sh /tmp/alpha_check
rm -rf /tmp/alpha_check
