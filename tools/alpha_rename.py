#!/usr/bin/env python3
"""alpha_rename.py SRC_ROOT DST_ROOT [--only module.py[:Qual.name]] [--suffix _v] [--fraction 0.5 --seed N]

Behaviour-preserving negative control, produced mechanically: copies SRC_ROOT (a checkout of srctools) to DST_ROOT and renames the
*local variables* of every function (names bound by assignment / for / with / comprehension / walrus inside the function, excluding
parameters, global/nonlocal names, names bound by `except ... as`, imports or match patterns, and names referenced from a nested
def/lambda/class).  Every check must stay silent on the result (exit 0) or decline (exit 2); an exit 1 is a false alarm caused by a
rule that depends on what a local happens to be called.

Run with /venv/bin/python (3.12: f-string expressions carry real positions).
"""
from __future__ import annotations

import ast
import os
import shutil
import sys
from typing import Dict, List, Optional, Set, Tuple


def bound_names(fn: ast.AST) -> Tuple[Set[str], Set[str]]:
    """(names bound by renameable constructs, names that must not be renamed) in fn's own scope"""
    bound: Set[str] = set()
    frozen: Set[str] = set()
    a = fn.args                                                           # type: ignore[attr-defined]
    for p in a.posonlyargs + a.args + a.kwonlyargs + ([a.vararg] if a.vararg else []) + ([a.kwarg] if a.kwarg else []):
        frozen.add(p.arg)

    def targets(t: ast.AST) -> None:
        for n in ast.walk(t):
            if isinstance(n, ast.Name) and isinstance(n.ctx, (ast.Store, ast.Del)):
                bound.add(n.id)

    def visit(n: ast.AST, top: bool) -> None:
        if not top and isinstance(n, (ast.FunctionDef, ast.AsyncFunctionDef, ast.Lambda, ast.ClassDef)):
            # anything the nested scope mentions stays as it is (closures), and its own name is a binding we leave alone
            for x in ast.walk(n):
                if isinstance(x, ast.Name):
                    frozen.add(x.id)
                if isinstance(x, ast.arg):
                    frozen.add(x.arg)
            if hasattr(n, 'name'):
                frozen.add(n.name)                                         # type: ignore[attr-defined]
            return
        if isinstance(n, (ast.Global, ast.Nonlocal)):
            frozen.update(n.names)
        if isinstance(n, ast.ExceptHandler) and n.name:
            frozen.add(n.name)
        if isinstance(n, (ast.Import, ast.ImportFrom)):
            for al in n.names:
                frozen.add((al.asname or al.name).split('.')[0])
        if isinstance(n, (ast.MatchAs, ast.MatchStar)) and getattr(n, 'name', None):
            frozen.add(n.name)                                             # type: ignore[arg-type]
        if isinstance(n, ast.MatchMapping) and n.rest:
            frozen.add(n.rest)
        if isinstance(n, ast.Name) and isinstance(n.ctx, (ast.Store, ast.Del)):
            bound.add(n.id)
        for ch in ast.iter_child_nodes(n):
            visit(ch, False)
    visit(fn, True)
    return bound, frozen


def rename_module(src: str, only_qual: Optional[str], suffix: str) -> Tuple[str, int]:
    tree = ast.parse(src)
    lines = src.encode('utf8').split(b'\n')
    edits: List[Tuple[int, int, int, bytes]] = []          # (line, col, end_col, new)
    module_names = {n.id for n in ast.walk(tree) if isinstance(n, ast.Name)} | {n.attr for n in ast.walk(tree) if isinstance(n, ast.Attribute)}
    n_funcs = 0

    def do_func(fn: ast.AST, qual: str) -> None:
        nonlocal n_funcs
        bound, frozen = bound_names(fn)
        if 'locals' in {x.id for x in ast.walk(fn) if isinstance(x, ast.Name)}:
            return
        ren = {b: b + suffix for b in sorted(bound - frozen) if not b.startswith('__') and (b + suffix) not in module_names and b != '_'}
        if FRACTION < 1.0:
            ren = {k: v for k, v in ren.items() if RNG.random() < FRACTION}       # partial rename: only some of the locals of each function
        if not ren:
            return
        n_funcs += 1

        def walk(n: ast.AST, top: bool) -> None:
            if not top and isinstance(n, (ast.FunctionDef, ast.AsyncFunctionDef, ast.Lambda, ast.ClassDef)):
                return
            if isinstance(n, ast.Name) and n.id in ren and n.end_lineno == n.lineno:
                edits.append((n.lineno, n.col_offset, n.end_col_offset, ren[n.id].encode()))
            for ch in ast.iter_child_nodes(n):
                walk(ch, False)
        walk(fn, True)

    def scan(body: List[ast.stmt], prefix: str) -> None:
        for st in body:
            if isinstance(st, (ast.FunctionDef, ast.AsyncFunctionDef)):
                q = prefix + st.name
                if only_qual is None or only_qual == q:
                    do_func(st, q)
                scan(st.body, q + '.')
            elif isinstance(st, ast.ClassDef):
                scan(st.body, prefix + st.name + '.')
            elif isinstance(st, (ast.If, ast.Try)):
                scan(st.body, prefix)
                scan(getattr(st, 'orelse', []), prefix)
    scan(tree.body, '')
    for ln, c0, c1, new in sorted(set(edits), reverse=True):
        line = lines[ln - 1]
        lines[ln - 1] = line[:c0] + new + line[c1:]
    out = b'\n'.join(lines).decode('utf8')
    ast.parse(out)
    return out, n_funcs


FRACTION = 1.0
RNG = __import__('random').Random(0)


def main() -> None:
    global FRACTION, RNG
    args = sys.argv[1:]
    if '--fraction' in args:
        FRACTION = float(args[args.index('--fraction') + 1])
    if '--seed' in args:
        RNG = __import__('random').Random(int(args[args.index('--seed') + 1]))
    src_root, dst_root = args[0], args[1]
    only_mod = only_qual = None
    suffix = '_v'
    if '--only' in args:
        spec = args[args.index('--only') + 1]
        only_mod, _, q = spec.partition(':')
        only_qual = q or None
    if '--suffix' in args:
        suffix = args[args.index('--suffix') + 1]
    if os.path.exists(dst_root):
        shutil.rmtree(dst_root)
    shutil.copytree(src_root, dst_root, ignore=shutil.ignore_patterns('.git', '__pycache__', '*.pyc', '.pytest_cache', 'build', 'dist', '*.egg-info'))
    pk = os.path.join(dst_root, 'src', 'srctools')
    total = 0
    for dirpath, _, files in os.walk(pk):
        for f in sorted(files):
            if not f.endswith('.py'):
                continue
            rel = os.path.relpath(os.path.join(dirpath, f), pk)
            if only_mod is not None and rel != only_mod:
                continue
            p = os.path.join(dirpath, f)
            text = open(p, encoding='utf8').read()
            new, n = rename_module(text, only_qual, suffix)
            if new != text:
                open(p, 'w', encoding='utf8').write(new)
                total += n
    print(f'renamed locals in {total} functions -> {dst_root}')


if __name__ == '__main__':
    main()
