#!/usr/bin/env python3
"""keep_seed.py <src seed dir> <ID e.g. C02-A> <property> <detected_by or 'MISSED'/'ANALYSIS-ERROR'> <needs...> : copy a verified seed to /verif/seeded/<ID>/"""
import json, os, re, shutil, sys
src, sid, prop, detected, needs = sys.argv[1:6]
dst = f'/verif/seeded/{sid}'
os.makedirs(dst, exist_ok=True)
shutil.copy(os.path.join(src, 'patch.diff'), dst)
demo = open(os.path.join(src, 'demo.py')).read()
demo = re.sub(r'^(\s*)assert .*srctools\.__file__.*$', r'\1pass  # (path assertion of the seeding sandbox removed)', demo, flags=re.M)
open(os.path.join(dst, 'demo.py'), 'w').write(demo)
if os.path.exists(os.path.join(src, 'notes.md')):
    shutil.copy(os.path.join(src, 'notes.md'), dst)
meta = {
    'id': sid, 'property': prop, 'needs_to_manifest': needs, 'detected_by': detected,
    'confirmed': 'tools/verify_seed.sh: demo.py exits 0 on a scratch worktree of /repo HEAD and non-zero with patch.diff applied; '
                 'the relevant tests/ files still pass against the patched source (PYTHONPATH=<wt>/src:/tmp/shim)',
    'ran': [f'/verif/tools/verify_seed.sh /verif/seeded/{sid}', f'/verif/tools/try_seed.sh /verif/seeded/{sid}/patch.diff {prop}'],
    'origin': 'independent sub-agent given only the property text and a scratch worktree',
}
json.dump(meta, open(os.path.join(dst, 'meta.json'), 'w'), indent=1)
print('kept', dst)
