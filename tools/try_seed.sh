#!/bin/sh
# usage: try_seed.sh <patch.diff> PROP [PROP...]   - apply a seeded change to /repo, run the quick checks, undo.
patch="$1"; shift
cd /repo || exit 9
if ! git diff --quiet -- src; then echo "REPO DIRTY, refusing"; exit 9; fi
git apply "$patch" 2>/dev/null || git apply --3way "$patch" || { echo "PATCH DOES NOT APPLY"; git reset -q; git checkout -- . ; exit 8; }
for p in "$@"; do
  VERIF_NO_EVIDENCE=1 VERIF_REPLAY_DIR=/tmp/seed_replay /venv/bin/python /verif/check.py "$p" --tier quick | grep -v "^VIOLATION" | cut -c1-400
  echo "== $p exit=$?"
done
git reset -q; git checkout -- . ; git status --short | grep -v '^??'
