#!/bin/sh
# usage: triage_round.sh <suffix e.g. r4> PROP...  - for every /tmp/seed/<PROP><suffix>/_seed/{A,B}: confirm the demo (verify_seed.sh) and show the
# first report line of the property's quick check with the patch applied (MISSED = silent, ANALYSIS-ERROR/UNRECOGNISED = declined).
suf="$1"; shift
for P in "$@"; do for S in A B; do
  d=/tmp/seed/${P}${suf}/_seed/$S
  [ -f "$d/patch.diff" ] || { echo "== $P $S (no patch yet)"; continue; }
  v=$(/verif/tools/verify_seed.sh "$d" 2>&1 | grep -E '^exit=|PATCH DOES' | tr '\n' ' ')
  r=$(/verif/tools/try_seed.sh "$d/patch.diff" "$P" 2>&1 | grep -v KNOWN | grep -E "\[C[0-9]+\.|ANALYSIS-ERROR|UNRECOG" | head -1 | cut -c1-170)
  echo "== $P $S [$v] ${r:-MISSED}"
done; done
