#!/usr/bin/env python3
"""Add an entry to /verif/known_findings.json.  usage: kf.py fixed|known PROP COMMIT-or-'-' 'KEY' 'what failed'"""
import json, sys
p = '/verif/known_findings.json'
d = json.load(open(p))
status, prop, commit, key, what = sys.argv[1:6]
line = (f'fixed: property={prop} {commit} {what}' if status == 'fixed' else f'known: property={prop} {what}')
ent = {'property': prop, 'status': status, 'key': key, 'what': what, 'line': line}
if status == 'fixed':
    ent['commit'] = commit
d['findings'] = [e for e in d['findings'] if not (e['property'] == prop and e['key'] == key)] + [ent]
json.dump(d, open(p, 'w'), indent=1)
open(p, 'a').write('\n')
print(line)
