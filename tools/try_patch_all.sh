#!/bin/sh
# usage: try_patch_all.sh <patch.diff>  - apply a patch to /repo, run the quick check of all twenty properties, restore.
# Prints one line per property that does not exit 0, with the first report line.  Used for behaviour-preserving refactorings
# (expected: all exit 0; exit 2 = the check declines; exit 1 = false alarm to be fixed).
patch="$1"
cd /repo || exit 9
if ! git diff --quiet -- src; then echo "REPO DIRTY, refusing"; exit 9; fi
git apply "$patch" 2>/dev/null || { echo "PATCH DOES NOT APPLY"; git checkout -q -- .; exit 8; }
for n in 01 02 03 04 05 06 07 08 09 10 11 12 13 14 15 16 17 18 19 20; do
  out=$(VERIF_NO_EVIDENCE=1 VERIF_REPLAY_DIR=/tmp/patch_replay /venv/bin/python /verif/check.py "C$n" --tier quick 2>&1); code=$?
  if [ $code -ne 0 ]; then
    echo "C$n exit=$code :: $(echo "$out" | grep -v '^KNOWN-FINDING\|^VIOLATION ' | head -2 | cut -c1-300 | tr '\n' ' ')"
  fi
done
git checkout -q -- .
rm -rf /tmp/patch_replay
echo "(done $patch)"
