"""C16.Q6 - positional agreement of helper arguments between Helper.export() and Helper.parse().

An FGD helper is written as `name(arg0, arg1, ...)` from the list `export()` returns and read back by `parse(args)`, which
assigns meaning by POSITION.  For every Helper class of _fgd_helpers that defines export():

  * every list export() can return is enumerated (list literals, a local list grown by +=/append/extend under conditions,
    early returns).  Element k may only mention fields that parse() fills from args[k];
  * the length of every such list is accepted by the arity guards of parse() (`if len(args) > 2: raise`, `[a, b] = args`);
  * a list built by filtering individual arguments (comprehension with a condition) cannot keep positions: violation when
    parse() is positional.

Classes whose parse() hands the whole list to the constructor and whose export() returns that field are position free.
"""
from __future__ import annotations

import ast
import itertools
from typing import Any, Dict, FrozenSet, Iterator, List, Optional, Sequence, Set, Tuple

from engine.srcmatch import U
from engine.model import AnalysisError, Program, dotted, walk_no_nested

WHOLE = 'WHOLE-LIST'


def _fields_of(mod: Any, cname: str) -> List[str]:
    """attrs field order: inherited fields first, annotated non-ClassVar names of the class body."""
    c = mod.cls(cname)
    out: List[str] = []
    for b in c.bases:
        bn = dotted(b)
        if bn and bn != 'Helper' and mod.has_class(bn):
            out += _fields_of(mod, bn)
    for st in c.body:
        if isinstance(st, ast.AnnAssign) and isinstance(st.target, ast.Name) and 'ClassVar' not in U(st.annotation):
            if st.target.id not in out:
                out.append(st.target.id)
    return out


def _ctor_map(mod: Any, cname: str) -> Tuple[List[str], Dict[str, Set[str]]]:
    """(constructor parameter names, param -> fields it determines)"""
    c = mod.cls(cname)
    for st in c.body:
        if isinstance(st, ast.FunctionDef) and st.name == '__init__':
            params = [a.arg for a in st.args.args[1:]]
            dep: Dict[str, Set[str]] = {p: set() for p in params}
            for n in ast.walk(st):
                if isinstance(n, ast.Assign):
                    tg: List[str] = []
                    for t in n.targets:
                        for e in (t.elts if isinstance(t, ast.Tuple) else [t]):
                            if isinstance(e, ast.Attribute) and dotted(e.value) == 'self':
                                tg.append(e.attr)
                    used = {x.id for x in ast.walk(n.value) if isinstance(x, ast.Name)}
                    for p in params:
                        if p in used:
                            dep[p] |= set(tg)
            return params, dep
    for b in c.bases:
        bn = dotted(b)
        if bn and bn != 'Helper' and mod.has_class(bn) and not any(isinstance(st, ast.AnnAssign) and 'ClassVar' not in U(st.annotation) for st in c.body):
            return _ctor_map(mod, bn)
    fl = _fields_of(mod, cname)
    return [f.lstrip('_') for f in fl], {f.lstrip('_'): {f} for f in fl}


def _find_method(mod: Any, cname: str, meth: str) -> Optional[Tuple[str, ast.FunctionDef]]:
    c = mod.cls(cname)
    for st in c.body:
        if isinstance(st, ast.FunctionDef) and st.name == meth:
            return cname, st
    for b in c.bases:
        bn = dotted(b)
        if bn and bn != 'Helper' and mod.has_class(bn):
            r = _find_method(mod, bn, meth)
            if r:
                return r
    return None


class Unrecognised(Exception):
    def __init__(self, node: ast.AST, why: str) -> None:
        super().__init__(why)
        self.node, self.why = node, why


class Filtered(Exception):
    def __init__(self, node: ast.AST) -> None:
        super().__init__('filtered')
        self.node = node


# ---------------------------------------------------------------------------------------------------- export side
def export_lists(fn: ast.FunctionDef) -> List[Tuple[ast.AST, Any]]:
    """Every list export() may return: [(return node, WHOLE | [set of self fields per element])]."""
    results: List[Tuple[ast.AST, Any]] = []

    def fields(expr: ast.AST, env: Dict[str, Any]) -> FrozenSet[str]:
        out: Set[str] = set()
        for n in ast.walk(expr):
            if isinstance(n, ast.Attribute) and dotted(n.value) == 'self':
                out.add(n.attr)
            elif isinstance(n, ast.Name) and isinstance(env.get(n.id), frozenset):
                out |= env[n.id]
        return frozenset(out)

    def lit(expr: ast.AST, env: Dict[str, Any]) -> Any:
        if isinstance(expr, (ast.List, ast.Tuple)):
            if any(isinstance(e, ast.Starred) for e in expr.elts):
                raise Unrecognised(expr, 'starred element')
            return [fields(e, env) for e in expr.elts]
        if isinstance(expr, ast.Name) and isinstance(env.get(expr.id), list):
            return list(env[expr.id])
        if isinstance(expr, ast.Attribute) and dotted(expr.value) == 'self':
            return WHOLE
        if isinstance(expr, ast.BinOp) and isinstance(expr.op, ast.Add):
            a, b = lit(expr.left, env), lit(expr.right, env)
            if WHOLE in (a, b):
                raise Unrecognised(expr, 'concatenation with a list field')
            return a + b
        if isinstance(expr, (ast.ListComp, ast.GeneratorExp)) or (isinstance(expr, ast.Call) and dotted(expr.func) in ('list', 'filter') and expr.args and isinstance(expr.args[0], (ast.ListComp, ast.GeneratorExp))):
            comp = expr if isinstance(expr, (ast.ListComp, ast.GeneratorExp)) else expr.args[0]
            if any(g.ifs for g in comp.generators):
                raise Filtered(expr)
            raise Unrecognised(expr, 'comprehension')
        if isinstance(expr, ast.Call) and dotted(expr.func) == 'filter':
            raise Filtered(expr)
        raise Unrecognised(expr, f'list expression `{U(expr)[:40]}`')

    def block(stmts: Sequence[ast.stmt], env: Dict[str, Any]) -> List[Dict[str, Any]]:
        """returns the environments that fall through"""
        envs = [env]
        for st in stmts:
            nxt: List[Dict[str, Any]] = []
            for e in envs:
                nxt += stmt(st, e)
            envs = nxt
            if not envs:
                break
            if len(envs) > 256:
                raise Unrecognised(st, 'too many paths')
        return envs

    def stmt(st: ast.stmt, env: Dict[str, Any]) -> List[Dict[str, Any]]:
        if isinstance(st, ast.Expr) and isinstance(st.value, ast.Constant):
            return [env]
        if isinstance(st, (ast.FunctionDef, ast.Pass)):
            return [env]
        if isinstance(st, ast.Return):
            if st.value is None:
                raise Unrecognised(st, 'bare return')
            # a conditional expression returns either list
            pend, alts = [st.value], []
            while pend:
                v_ = pend.pop()
                if isinstance(v_, ast.IfExp):
                    pend += [v_.orelse, v_.body]
                else:
                    alts.append(v_)
            for v_ in alts:
                results.append((v_ if len(alts) > 1 else st, lit(v_, env)))
            return []
        if isinstance(st, ast.If):
            a = block(st.body, dict(env))
            b = block(st.orelse, dict(env))
            return a + b
        if isinstance(st, (ast.Assign, ast.AnnAssign)):
            tgts = st.targets if isinstance(st, ast.Assign) else [st.target]
            if st.value is None:
                return [env]
            env = dict(env)
            for t in tgts:
                if not isinstance(t, ast.Name):
                    raise Unrecognised(st, 'assignment target')
                if isinstance(st.value, (ast.List, ast.ListComp, ast.GeneratorExp)) or (isinstance(st.value, ast.BinOp) and isinstance(st.value.op, ast.Add) and any(isinstance(x, ast.List) for x in ast.walk(st.value))):
                    env[t.id] = lit(st.value, env)
                else:
                    prev = env.get(t.id)
                    env[t.id] = fields(st.value, env)
            return [env]
        if isinstance(st, ast.AugAssign) and isinstance(st.target, ast.Name) and isinstance(env.get(st.target.id), list) and isinstance(st.op, ast.Add):
            env = dict(env)
            add = lit(st.value, env)
            if add == WHOLE:
                raise Unrecognised(st, '+= list field')
            env[st.target.id] = env[st.target.id] + add
            return [env]
        if isinstance(st, ast.Expr) and isinstance(st.value, ast.Call) and isinstance(st.value.func, ast.Attribute) and isinstance(st.value.func.value, ast.Name) \
                and isinstance(env.get(st.value.func.value.id), list):
            name, meth = st.value.func.value.id, st.value.func.attr
            env = dict(env)
            if meth == 'append' and len(st.value.args) == 1:
                env[name] = env[name] + [fields(st.value.args[0], env)]
                return [env]
            if meth == 'extend' and len(st.value.args) == 1:
                add = lit(st.value.args[0], env)
                if add == WHOLE:
                    raise Unrecognised(st, 'extend(list field)')
                env[name] = env[name] + add
                return [env]
            if meth in ('remove', 'pop', 'insert', '__delitem__'):
                raise Filtered(st)
            raise Unrecognised(st, f'list method {meth}')
        if isinstance(st, ast.Delete):
            raise Filtered(st)
        raise Unrecognised(st, f'statement `{U(st)[:40]}`')

    rest = block(fn.body, {})
    if rest:
        raise Unrecognised(fn, 'export() can fall off its end')
    # merge if/else assigned locals: handled by path enumeration
    return results


# ---------------------------------------------------------------------------------------------------- parse side
def parse_positions(mod: Any, cname: str, fn: ast.FunctionDef) -> Tuple[Any, Dict[int, Set[str]]]:
    """WHOLE, or position -> fields filled from it"""
    params, dep = _ctor_map(mod, cname)
    var_pos: Dict[str, Set[int]] = {}

    def positions(expr: ast.AST) -> Set[int]:
        out: Set[int] = set()
        for n in ast.walk(expr):
            if isinstance(n, ast.Subscript) and dotted(n.value) == 'args':
                if isinstance(n.slice, ast.Constant) and isinstance(n.slice.value, int) and n.slice.value >= 0:
                    out.add(n.slice.value)
                else:
                    raise Unrecognised(n, f'args index `{U(n)}`')
            elif isinstance(n, ast.Name) and n.id in var_pos:
                out |= var_pos[n.id]
        return out

    changed = True
    rounds = 0
    while changed and rounds < 10:
        changed = False
        rounds += 1
        for n in ast.walk(fn):
            if isinstance(n, (ast.Assign, ast.AnnAssign)) and n.value is not None:
                tgts = n.targets if isinstance(n, ast.Assign) else [n.target]
                for t in tgts:
                    if isinstance(t, (ast.List, ast.Tuple)) and dotted(n.value) == 'args':
                        for i, e in enumerate(t.elts):
                            if isinstance(e, ast.Name) and i not in var_pos.setdefault(e.id, set()):
                                var_pos[e.id].add(i)
                                changed = True
                        continue
                    src = positions(n.value)
                    for e in (t.elts if isinstance(t, (ast.List, ast.Tuple)) else [t]):
                        if isinstance(e, ast.Name) and not src <= var_pos.setdefault(e.id, set()):
                            var_pos[e.id] |= src
                            changed = True
    pos_fields: Dict[int, Set[str]] = {}
    whole = False
    n_ctor = 0
    for c in ast.walk(fn):
        if isinstance(c, ast.Call) and dotted(c.func) == 'cls':
            n_ctor += 1
            bound = list(zip(params, c.args)) + [(k.arg, k.value) for k in c.keywords if k.arg]
            if len(c.args) > len(params):
                raise Unrecognised(c, 'more constructor arguments than fields')
            for p, a in bound:
                if dotted(a) == 'args':
                    whole = True
                    continue
                for k in positions(a):
                    pos_fields.setdefault(k, set()).update(dep.get(p, {p}))
    if n_ctor == 0:
        raise Unrecognised(fn, 'parse() never calls cls(...)')
    return (WHOLE if whole else None), pos_fields


def accepted_lengths(fn: ast.FunctionDef, upto: int = 12) -> Optional[Set[int]]:
    """Lengths of `args` not rejected by the top-level arity guards of parse(); None when no guard is recognised."""
    alias = {'len(args)'}
    for n in ast.walk(fn):
        if isinstance(n, ast.Assign) and U(n.value) == 'len(args)' and isinstance(n.targets[0], ast.Name):
            alias.add(n.targets[0].id)
    guards: List[ast.expr] = []
    exact: Optional[int] = None
    for st in fn.body:
        if isinstance(st, ast.If) and st.body and isinstance(st.body[0], ast.Raise):
            guards.append(st.test)
        if isinstance(st, ast.Try) and any(isinstance(b, ast.Raise) for h in st.handlers for b in h.body):
            for b in st.body:
                if isinstance(b, ast.Assign) and dotted(b.value) == 'args' and isinstance(b.targets[0], (ast.List, ast.Tuple)):
                    exact = len(b.targets[0].elts)
    max_index = max([n.slice.value for n in ast.walk(fn) if isinstance(n, ast.Subscript) and dotted(n.value) == 'args' and isinstance(n.slice, ast.Constant) and isinstance(n.slice.value, int)] or [-1])

    def ev(t: ast.expr, L: int) -> Optional[bool]:
        if isinstance(t, ast.BoolOp):
            vals = [ev(v, L) for v in t.values]
            if isinstance(t.op, ast.Or):
                return True if True in vals else (None if None in vals else False)
            return False if False in vals else (None if None in vals else True)
        if isinstance(t, ast.UnaryOp) and isinstance(t.op, ast.Not):
            v = ev(t.operand, L)
            return None if v is None else not v
        if isinstance(t, ast.Compare) and len(t.ops) == 1 and U(t.left) in alias:
            try:
                rhs = ast.literal_eval(t.comparators[0])
            except Exception:
                return None
            op = t.ops[0]
            table = {ast.Gt: lambda: L > rhs, ast.GtE: lambda: L >= rhs, ast.Lt: lambda: L < rhs, ast.LtE: lambda: L <= rhs, ast.Eq: lambda: L == rhs, ast.NotEq: lambda: L != rhs,
                     ast.In: lambda: L in rhs, ast.NotIn: lambda: L not in rhs}
            f = table.get(type(op))
            return f() if f else None
        return None
    if not guards and exact is None:
        return None
    ok: Set[int] = set()
    for L in range(upto + 1):
        if exact is not None and L != exact:
            continue
        if any(ev(g, L) is True for g in guards):
            continue
        ok.add(L)
    return ok


def _quoted_fields(fn: ast.FunctionDef) -> List[Tuple[ast.AST, str]]:
    """Fields export() wraps in literal double quotes: f'"{self.x}"' or '"' + self.x + '"'."""
    out: List[Tuple[ast.AST, str]] = []
    for n in ast.walk(fn):
        if isinstance(n, ast.JoinedStr) and len(n.values) >= 3:
            for i in range(1, len(n.values) - 1):
                a, v, b = n.values[i - 1], n.values[i], n.values[i + 1]
                if (isinstance(v, ast.FormattedValue) and isinstance(a, ast.Constant) and isinstance(b, ast.Constant)
                        and str(a.value).endswith('"') and str(b.value).startswith('"')):
                    for m in ast.walk(v.value):
                        if isinstance(m, ast.Attribute) and dotted(m.value) == 'self':
                            out.append((n, m.attr))
        elif isinstance(n, ast.BinOp) and isinstance(n.op, ast.Add) and isinstance(n.right, ast.Constant) and str(n.right.value).startswith('"'):
            inner = n.left
            if isinstance(inner, ast.BinOp) and isinstance(inner.op, ast.Add) and isinstance(inner.left, ast.Constant) and str(inner.left.value).endswith('"'):
                for m in ast.walk(inner.right):
                    if isinstance(m, ast.Attribute) and dotted(m.value) == 'self':
                        out.append((n, m.attr))
    return out


def _strips_quotes(fn: ast.FunctionDef) -> bool:
    """parse() removes surrounding double quotes from an argument (.strip('"') and relatives)."""
    for n in ast.walk(fn):
        if (isinstance(n, ast.Call) and isinstance(n.func, ast.Attribute) and n.func.attr in ('strip', 'removeprefix', 'removesuffix', 'lstrip', 'rstrip')
                and n.args and isinstance(n.args[0], ast.Constant) and isinstance(n.args[0].value, str) and '"' in n.args[0].value):
            return True
    return False


def q6_helper_args(ctx: Any, prog: Program) -> None:
    hlp = prog.module('_fgd_helpers')
    ctx.rule('C16.Q6', 'helper arguments: every list export() can return keeps each field at the position parse() reads it from, and has a length parse() accepts', floor=30)
    n_cls = 0
    n_quote = [0]
    for cname, c in hlp.all_classes().items():
        own_export = next((st for st in c.body if isinstance(st, ast.FunctionDef) and st.name == 'export'), None)
        own_parse = next((st for st in c.body if isinstance(st, ast.FunctionDef) and st.name == 'parse'), None)
        if own_export is None and own_parse is None:
            continue
        if cname == 'Helper':
            continue
        ex = _find_method(hlp, cname, 'export')
        pa = _find_method(hlp, cname, 'parse')
        if ex is None or pa is None or ex[0] == 'Helper' or pa[0] == 'Helper':
            ctx.shape('C16.Q6', False, hlp, c, f'{cname} defines only one of parse()/export()', func=cname, text=f'{cname}: parse/export pair')
            continue
        n_cls += 1
        efn, pfn = ex[1], pa[1]
        # Quotes written around an argument are part of the text parse() receives (the helper
        # argument reader keeps them), so whichever side adds them the other must remove them.
        quoted = _quoted_fields(efn)
        for qn, qf in quoted:
            ctx.check('C16.Q6', _strips_quotes(pfn), hlp, qn, f'{cname}.export wraps self.{qf} in double quotes (`{U(qn)[:50]}`) but {cname}.parse never strips quotes from its arguments: '
                      'the value read back carries the quote characters', func=f'{cname}.export', text=f'{cname}: quotes added by export are stripped by parse')
        if _strips_quotes(pfn):
            n_quote[0] += 1
        try:
            whole, pos_fields = parse_positions(hlp, cname, pfn)
        except Unrecognised as u:
            ctx.shape('C16.Q6', False, hlp, u.node, f'{cname}.parse: {u.why}', func=f'{cname}.parse', text=f'{cname}.parse analysable')
            continue
        positional = bool(pos_fields)
        try:
            lists = export_lists(efn)
        except Filtered as f:
            ctx.check('C16.Q6', not positional, hlp, f.node, f'{cname}.export drops or filters individual arguments (`{U(f.node)[:60]}`), but {cname}.parse assigns meaning by position: '
                      'omitting an argument shifts every later one into the wrong field', func=f'{cname}.export', text=f'{cname}: no per-argument filtering')
            continue
        except Unrecognised as u:
            ctx.shape('C16.Q6', False, hlp, u.node, f'{cname}.export: {u.why}', func=f'{cname}.export', text=f'{cname}.export analysable')
            continue
        ctx.check('C16.Q6', True, hlp, efn, 'no filtering', func=f'{cname}.export', text=f'{cname}: no per-argument filtering')
        lens = accepted_lengths(pfn)
        uniq = {}
        for ret, seq in lists:
            uniq[(id(ret), repr(seq))] = (ret, seq)
        lists = list(uniq.values())
        for ret, seq in lists:
            if seq == WHOLE:
                ctx.check('C16.Q6', whole == WHOLE and not positional, hlp, ret, f'{cname}.export returns a whole list field, but {cname}.parse is positional', func=f'{cname}.export', text=f'{cname}: whole list both ways')
                continue
            if whole == WHOLE and not positional:
                ctx.shape('C16.Q6', False, hlp, ret, f'{cname}.parse passes the whole list on but export builds a list by position', func=f'{cname}.export', text=f'{cname}: whole list both ways')
                continue
            for k, fs in enumerate(seq):
                if not fs:
                    continue
                want = pos_fields.get(k, set())
                ctx.check('C16.Q6', fs <= want, hlp, ret, f'{cname}.export can return a list whose argument {k} is built from {sorted(fs)}, but {cname}.parse fills {sorted(want) or "nothing"} from args[{k}]',
                          func=f'{cname}.export', text=f'{cname}: argument {k} of a {len(seq)}-list')
            if lens is not None:
                ctx.check('C16.Q6', len(seq) in lens, hlp, ret, f'{cname}.export can return {len(seq)} argument(s); {cname}.parse rejects that count (accepts {sorted(lens)})', func=f'{cname}.export', text=f'{cname}: {len(seq)} arguments accepted')
    if not n_quote[0]:
        raise AnalysisError('no helper parse() strips quotes any more (HelperSprite confirmed by hand): the quote-symmetry clause has no instance')
    if n_cls < 15:
        raise AnalysisError(f'only {n_cls} helper classes with parse()/export() found (16 confirmed by hand)')
