"""C11 - every BSP lump writer is the inverse of its reader: wire-level clauses (DESIGN.md C11).

  L1  slot sequences: for every view pair, every engine layout configuration (standard v20, v19, INFRA, VitaminSource,
      Chaos v25) and every source/sink (main lump, each auxiliary lump), the struct slot sequence the reader consumes
      equals the one the writer produces (version gates are decided per configuration by the finite-domain evaluator;
      formats looked up in self.lump_layout resolve to the configured layout table).
  L2  arity: the number of unpack targets / pack arguments equals the number of value slots of the format.
  L4  static props: for every StaticPropVersion member the reader and the writer select identical slot sequences and the
      per-prop record size equals the member's declared size.
  L5  isinstance dispatch order: a class tested after one of its base classes in an if/elif chain is unreachable.
  L6  no silent truncation: a fixed-width `Ns` slot packed from `<str>.encode(...)` is dominated by a length test that raises.
  L7  run-length coding: runlength_encode emits (0x00, n) pairs with 1 <= n <= 255 and consumes all zeros; runlength_decode reads
      the count byte after each zero and skips two bytes; both loops advance.
  L8  entity lump text: write_ent_data escapes every str it writes inside quotes (multiline mode for values) and the reader
      tokenises with escapes enabled; outputs go through Output.as_keyvalue / Output.parse (C06 pair).
  L3, L10, L11  field linkage, bit linkage of the split static-prop flags, string-pool search discipline: see rules/c11_link.py.
  L9  sentinel agreement: the physics-collide terminator record written (-1, ...) is the one the reader's loop exits on.
"""
from __future__ import annotations

import ast
import re
from typing import Any, Dict, List, Optional, Sequence, Set, Tuple

from engine.srcmatch import U
from engine.fold import EnumMember, Folder
from engine.kvtext import conversion_of, emits_in, flatten as kv_flatten
from engine.model import class_fields, AnalysisError, Program, base_names, dotted, mro, walk_no_nested
from engine.wire import UNKNOWN as UNKNOWN_, Atom, Config, Extractor, atoms, by_tag, byte_size, expand, flatten, simplify, tags, value_count
from rules.c10 import views_of
from rules.c11_link import accessor_table, link_records, records, sig, split_field_check, string_pool_check

LEVEL = 'other'

BSP_CONFIGS = {
    'standard-v20': ({'self.is_vitamin': False, 'is_vitamin': False, 'self.version': 20}, 'LUMP_LAYOUT_STANDARD'),
    'v19': ({'self.is_vitamin': False, 'is_vitamin': False, 'self.version': 19}, 'LUMP_LAYOUT_V19'),
    'infra': ({'self.is_vitamin': False, 'is_vitamin': False, 'self.version': 22}, 'LUMP_LAYOUT_INFRA'),
    'vitamin': ({'self.is_vitamin': True, 'is_vitamin': True, 'self.version': 21}, 'LUMP_LAYOUT_VITAMIN'),
    'chaos-v25': ({'self.is_vitamin': False, 'is_vitamin': False, 'self.version': 25}, 'LUMP_LAYOUT_CHAOS'),
}
# pairs whose writer assembles its output through an intermediate buffer / different loop nest: compare the multiset of
# record groups instead of the exact order (reason per entry)
UNORDERED_OK = {
    'detail_props': 'the writer packs the per-prop records into a buffer first and yields it last; order in the file is model table, sprite table, props',
    'primitives': 'the writer interleaves vertex packing with the primitive records but stores them to separate lumps',
}
NO_WIRE = {'pakfile': 'zip archive handled by zipfile', 'ents': 'text lump (L8)'}
INLINE = ('_read_faces_common', '_write_faces_common', '_read_static_props_models')


def groups(s: str) -> List[str]:
    """top-level pieces of a slot string: starred groups and plain runs"""
    out, depth, cur = [], 0, ''
    i = 0
    while i < len(s):
        ch = s[i]
        if ch == '(':
            if depth == 0 and cur:
                out.append(cur)
                cur = ''
            depth += 1
            cur += ch
        elif ch == ')':
            depth -= 1
            cur += ch
            if depth == 0:
                if i + 1 < len(s) and s[i + 1] == '*':
                    cur += '*'
                    i += 1
                out.append(cur)
                cur = ''
        else:
            cur += ch
        i += 1
    if cur:
        out.append(cur)
    return out


def strip_sentinel(s: str) -> str:
    """`(Hxyz)*H` -> `(Hxyz)*` : a terminator record that is the header of one more iteration"""
    m = re.fullmatch(r'(.*)\(([a-zA-Z?;0-9]+?)(\(.*\)\*)?\)\*([a-zA-Z?;0-9]+)', s)
    if m and m.group(2).startswith(m.group(4)) or (m and m.group(4) == m.group(2)):
        return s[:len(s) - len(m.group(4))]
    return s


def fold_int(fold: Folder, e: ast.AST) -> Optional[int]:
    if isinstance(e, ast.Constant) and isinstance(e.value, int):
        return e.value
    if isinstance(e, ast.Name):
        try:
            v = fold.global_(e.id)
            return v if isinstance(v, int) else None
        except Exception:   # noqa: BLE001
            return None
    return None


def member_props_for(fold: Folder, mod: Any, enum_name: str) -> Dict[str, Any]:
    """attribute/property evaluators for members of an Enum whose values are tuples unpacked by __init__"""
    c = mod.cls(enum_name)
    props: Dict[str, Any] = {}
    init = mod.methods(enum_name).get('__init__')
    if init is not None:
        params = [a.arg for a in init.args.args[1:]]
        defaults = [None] * (len(params) - len(init.args.defaults)) + [fold.fold(d, {}) for d in init.args.defaults]
        for n in ast.walk(init):
            if isinstance(n, ast.Assign) and isinstance(n.targets[0], ast.Attribute) and dotted(n.targets[0].value) == 'self' and isinstance(n.value, ast.Name) and n.value.id in params:
                idx = params.index(n.value.id)
                props[n.targets[0].attr] = (lambda m, idx=idx, dflt=defaults[idx]: (m.value[idx] if isinstance(m.value, tuple) and idx < len(m.value) else dflt))
    for name, fn in mod.methods(enum_name).items():
        if any(dotted(d) == 'property' for d in fn.decorator_list):
            rets = [r for r in ast.walk(fn) if isinstance(r, ast.Return) and r.value is not None]
            if len(rets) == 1 and isinstance(rets[0].value, ast.Call) and dotted(rets[0].value.func) == 'self.name.startswith' \
                    and isinstance(rets[0].value.args[0], ast.Constant):
                props[name] = (lambda m, pre=rets[0].value.args[0].value: m.name.startswith(pre))
    return props


def _root_name(e: ast.AST) -> Optional[str]:
    while isinstance(e, (ast.Attribute, ast.Subscript, ast.Call)):
        e = e.func if isinstance(e, ast.Call) else e.value
    return e.id if isinstance(e, ast.Name) else None


def _anc11(mod: Any, n: ast.AST, stop: Any) -> List[ast.AST]:
    out = []
    p = mod.parents.get(n)
    while p is not None and p is not stop:
        out.append(p)
        p = mod.parents.get(p)
    return out


def run(ctx: Any, prog: Program) -> None:
    bsp = prog.module('bsp')
    fold = Folder(prog, bsp)
    ms = bsp.methods('BSP')
    views = views_of(bsp)
    inline = {k: ms[k] for k in INLINE if k in ms}
    # private methods of BSP (other than the lump readers/writers themselves) that pack or unpack are read in place too (`self._pack_leaf(...)`)
    for q_, f_ in ms.items():
        if q_.startswith('_') and not q_.startswith('__') and not q_.startswith('_lmp_') and q_ not in inline and any(
                isinstance(c_, ast.Call) and isinstance(c_.func, ast.Attribute) and c_.func.attr in ('pack', 'pack_into', 'unpack', 'unpack_from', 'iter_unpack') for c_ in ast.walk(f_)):
            inline[q_] = f_
    # private module-level helpers of bsp.py that pack or write (`_write_phys_block(buf, ...)` extracted from a lump writer) are read in place
    for q_, fl_ in bsp.all_funcs().items():
        if '.' not in q_ and q_.startswith('_') and len(fl_) == 1 and q_ not in inline and any(
                isinstance(c_, ast.Call) and isinstance(c_.func, ast.Attribute) and c_.func.attr in ('pack', 'pack_into', 'write', 'unpack', 'unpack_from', 'iter_unpack', 'read') for c_ in ast.walk(fl_[0])):
            inline[q_] = fl_[0]
    ctx.not_decided += ['value equality after find_or_insert re-indexing', 'float32 representability of values', 'which field each slot carries beyond arity (only checked where listed)']
    ctx.rule('C11.L1', 'reader and writer of each lump use the same struct slot sequence per layout configuration and per lump', floor=150)
    ctx.rule('C11.L2', 'unpack target count / pack argument count equals the number of value slots', floor=40)
    ctx.rule('C11.L3', 'each slot carries the same record field (and vector component) for the reader and the writer', floor=200)
    ctx.rule('C11.L10', 'static-prop flags: every flag bit the reader takes from the file is stored there by the writer, per StaticPropVersion', floor=12)
    ctx.rule('C11.L11', 'de-duplicated string pools are searched for the terminated string and extended by exactly the searched bytes', floor=2)
    ctx.rule('C11.L12', 'a writer that may append to the very list it is writing (find_or_insert on its own view) iterates the live list, so appended elements are written too', floor=1)
    ctx.rule('C11.L14', 'a writer skips a record only when every field that record would carry is at its default', floor=1)
    ctx.rule('C11.L29', 'a mutable value a reader puts into each record is created per record, never one object made before the record loop', floor=10)
    ctx.rule('C11.L28', 'a side record the reader attaches by subscripting its element list carries the position of its element in the written array', floor=1)
    ctx.rule('C11.L15', 'auxiliary lumps rebuilt by a writer are stored under the same version conditions the reader applies when it reads them', floor=10)
    ctx.rule('C11.L16', 'entity lump: a comma-separated value is taken for an output only when it has exactly the four separators the writer emits', floor=1)
    ctx.rule('C11.L17', 'an index that is written negated to mark a reversed element can never be 0: slot 0 of its table is reserved unconditionally', floor=1)
    ctx.rule('C11.L13', 'find_or_extend reports an existing run only when the whole sublist lies inside the list', floor=1)
    ctx.rule('C11.L4', 'static props: identical slot sequence for every StaticPropVersion, record size equals the declared size', floor=20)
    ctx.rule('C11.L5', 'isinstance chains test subclasses before their base classes', floor=1)
    ctx.rule('C11.L6', 'fixed-width string slots are length-checked before packing', floor=3)
    ctx.rule('C11.L7', 'run-length encoder and decoder agree on the (0x00, count) record', floor=6)
    ctx.rule('C11.L8', 'entity lump: every str written inside quotes is escaped; reader decodes escapes', floor=3)
    ctx.rule('C11.L9', 'physics-collide terminator record agrees between writer and reader', floor=2)

    # ---- L18: a record index taken from the length of a chunk list ------------------------------------------------------------------
    # Writers collect `struct.pack(...)` chunks in a list and join them.  When one record is appended as several chunks, or as a number of
    # chunks that depends on the layout (`if not self.is_vitamin: append(view sizes)`), `len(chunks)` / `len(chunks) // k` is the index of
    # the next record only if every record contributes exactly k chunks in every layout.
    ctx.rule('C11.L18', 'a record index derived from the length of a list of packed chunks agrees with the number of chunks appended per record in every layout', floor=10)

    def chunk_index_hazards(fn_: ast.AST) -> List[Tuple[ast.AST, str]]:
        out_: List[Tuple[ast.AST, str]] = []
        packed_lists = {dotted(c.func.value) for c in ast.walk(fn_) if isinstance(c, ast.Call) and isinstance(c.func, ast.Attribute) and c.func.attr == 'append' and c.args
                        and isinstance(c.args[0], ast.Call) and (dotted(c.args[0].func) or '').endswith('pack') and isinstance(c.func.value, ast.Name)}
        for a_ in ast.walk(fn_):
            if not isinstance(a_, ast.Assign):
                continue
            v_ = a_.value
            k_ = 1
            if isinstance(v_, ast.BinOp) and isinstance(v_.op, (ast.FloorDiv, ast.Div)) and isinstance(v_.right, ast.Constant) and isinstance(v_.right.value, int):
                k_, v_ = v_.right.value, v_.left
            if not (isinstance(v_, ast.Call) and dotted(v_.func) == 'len' and len(v_.args) == 1 and dotted(v_.args[0]) in packed_lists):
                continue
            lst_ = dotted(v_.args[0])
            loops_ = [l_ for l_ in ast.walk(fn_) if isinstance(l_, (ast.For, ast.While)) and any(x is a_ for x in ast.walk(l_))]
            if not loops_:
                continue
            loop_ = loops_[-1]
            uncond = cond = 0
            for c in ast.walk(loop_):
                if isinstance(c, ast.Call) and isinstance(c.func, ast.Attribute) and c.func.attr == 'append' and dotted(c.func.value) == lst_:
                    # conditional relative to the statement list that holds the index assignment
                    holder = bsp.parents.get(a_)
                    p_ = bsp.parents.get(c)
                    under_if = False
                    while p_ is not None and p_ is not holder and p_ is not loop_:
                        if isinstance(p_, ast.If):
                            under_if = True
                        p_ = bsp.parents.get(p_)
                    if under_if:
                        cond += 1
                    else:
                        uncond += 1
            if cond:
                out_.append((a_, f'`{U(a_)[:60]}`: a record adds {uncond} chunk(s) to `{lst_}` plus {cond} more only in some layouts, so the list length divided by {k_} is not the record number in all of them'))
            elif uncond != k_:
                out_.append((a_, f'`{U(a_)[:60]}`: every record adds {uncond} chunk(s) to `{lst_}` but the index divides the length by {k_}'))
        return out_
    probe18 = ast.parse("def w(self, items):\n    out = []\n    for it in items:\n        ind = len(out) // 2\n        out.append(struct.pack('<i', it))\n        if not self.is_vitamin:\n            out.append(struct.pack('<i', 0))\n    return out").body[0]
    for n_ in ast.walk(probe18):
        for ch_ in ast.iter_child_nodes(n_):
            bsp.parents.setdefault(ch_, n_)
    if len(chunk_index_hazards(probe18)) != 1:
        raise AnalysisError('L18: the detector does not fire on its built-in positive example')
    for wname, wfn in bsp.methods('BSP').items():
        if not wname.startswith('_lmp_write'):
            continue
        hz = chunk_index_hazards(wfn)
        ctx.check('C11.L18', not hz, bsp, hz[0][0] if hz else wfn, f'BSP.{wname}: ' + (hz[0][1] if hz else 'no record index is derived from a chunk-list length') +
                  ('; references written with that index point at the wrong record after a rebuild' if hz else ''), func=f'BSP.{wname}', text=f'{wname}: record indexes')
    # ---- L19: de-duplication tables of the writers ----------------------------------------------------------------------------------
    # `try: ind = table[key]  except KeyError: ind = table[key] = next; out.append(pack(<fields of obj>))` re-uses a record already written.
    # That is only sound when equal keys imply equal records: the key is the object itself, or covers every field of it that is packed.
    ctx.rule('C11.L19', 'a writer re-uses an already written record only for the same object (or a key covering every packed field)', floor=1)
    n19 = 0
    for wname, wfn in bsp.methods('BSP').items():
        if not wname.startswith('_lmp_write'):
            continue
        lookups: List[Tuple[ast.Assign, str, ast.AST, List[ast.stmt]]] = []        # (lookup statement, table, key, statements run on a miss)
        for tr in [t for t in ast.walk(wfn) if isinstance(t, ast.Try) and len(t.handlers) == 1 and dotted(t.handlers[0].type) == 'KeyError']:
            look_ = [a for a in tr.body if isinstance(a, ast.Assign) and isinstance(a.value, ast.Subscript) and isinstance(a.value.value, ast.Name)]
            if len(look_) == 1:
                lookups.append((look_[0], look_[0].value.value.id, look_[0].value.slice, tr.handlers[0].body))
        # the same table consulted as `ind = table.get(key)` / `if ind is None:`
        for blk_owner in ast.walk(wfn):
            for fld in ('body', 'orelse', 'finalbody'):
                blk = getattr(blk_owner, fld, None)
                if not isinstance(blk, list):
                    continue
                for a, nxt in zip(blk, blk[1:]):
                    if isinstance(a, ast.Assign) and len(a.targets) == 1 and isinstance(a.targets[0], ast.Name) and isinstance(a.value, ast.Call) and isinstance(a.value.func, ast.Attribute) and a.value.func.attr == 'get' \
                            and isinstance(a.value.func.value, ast.Name) and len(a.value.args) == 1 and isinstance(nxt, ast.If) and isinstance(nxt.test, ast.Compare) and dotted(nxt.test.left) == a.targets[0].id \
                            and isinstance(nxt.test.ops[0], ast.Is) and isinstance(nxt.test.comparators[0], ast.Constant) and nxt.test.comparators[0].value is None:
                        lookups.append((a, a.value.func.value.id, a.value.args[0], nxt.body))
        for look0, table, key, miss_body in lookups:
            look = [look0]
            packs = [c for st in miss_body for c in ast.walk(st) if isinstance(c, ast.Call) and (dotted(c.func) or '').endswith('pack')]
            if not packs:
                continue
            # the object whose fields are packed
            bases = {}
            for c in packs:
                for a in ast.walk(c):
                    if isinstance(a, ast.Attribute) and isinstance(a.value, ast.Name) and a.value.id not in ('self', 'struct'):
                        bases.setdefault(a.value.id, set()).add(a.attr)
            if len(bases) != 1:
                continue
            obj, packed = next(iter(bases.items()))
            kexpr = key
            if isinstance(kexpr, ast.Name) and kexpr.id != obj:
                defs_ = [a.value for a in ast.walk(wfn) if isinstance(a, ast.Assign) and len(a.targets) == 1 and dotted(a.targets[0]) == kexpr.id]
                kexpr = defs_[-1] if defs_ else kexpr
            n19 += 1
            if isinstance(kexpr, ast.Name) and kexpr.id == obj:
                ctx.check('C11.L19', True, bsp, look[0], 'keyed by the object itself', func=f'BSP.{wname}', text=f'{wname}: {table} key')
                continue
            kfields = {a.attr for a in ast.walk(kexpr) if isinstance(a, ast.Attribute) and isinstance(a.value, ast.Name) and a.value.id == obj}
            missing = sorted(packed - kfields)
            ctx.shape('C11.L19', bool(kfields), bsp, look[0], f'key `{U(key)}` of {table} is the object or built from its fields', func=f'BSP.{wname}', text=f'{wname}: {table} key')
            if kfields:
                ctx.check('C11.L19', not missing, bsp, look[0], f'BSP.{wname} re-uses the record already written for `{U(kexpr)[:50]}`, but a record also carries {missing}: two `{obj}` objects that agree in the key and differ '
                          'there collapse into the first one written, and everything that refers to the second now points at the wrong data', func=f'BSP.{wname}', text=f'{wname}: {table} key')
    # the helper form: `add = find_or_insert(<list>, <key function>)` - equal keys share one slot of the list.  The default key (object
    # identity) and an identity function keep distinct entries distinct; a folding key (str.casefold ...) merges names the reader hands out
    # verbatim, unless the paired reader identifies the entries under the same fold (the texture table: `_texdata[mat.casefold()]`).
    FOLDS = ('casefold', 'lower', 'upper', 'strip', 'title', 'swapcase')

    def returns_param(f: ast.AST) -> bool:
        if isinstance(f, ast.Lambda):
            return isinstance(f.body, ast.Name) and bool(f.args.args) and f.body.id == f.args.args[0].arg
        if isinstance(f, ast.Name):
            if f.id == 'id':
                return True
            for cand in (bsp.all_funcs().get(f.id) or []):
                body = [x for x in cand.body if not (isinstance(x, ast.Expr) and isinstance(x.value, ast.Constant))]
                if len(body) == 1 and isinstance(body[0], ast.Return) and isinstance(body[0].value, ast.Name) and cand.args.args and body[0].value.id == cand.args.args[0].arg:
                    return True
        return False

    def fold_of(f: ast.AST) -> Optional[str]:
        if isinstance(f, ast.Attribute) and isinstance(f.value, ast.Name) and f.value.id == 'str' and f.attr in FOLDS:
            return f.attr
        if isinstance(f, ast.Lambda):
            for c in ast.walk(f.body):
                if isinstance(c, ast.Call) and isinstance(c.func, ast.Attribute) and c.func.attr in FOLDS:
                    return c.func.attr
        return None
    n19h = 0
    for wname, wfn in bsp.methods('BSP').items():
        if not wname.startswith(('_lmp_write', '_write_')):
            continue
        for c in [x for x in ast.walk(wfn) if isinstance(x, ast.Call) and (dotted(x.func) or '').split('.')[-1] in ('find_or_insert', 'find_or_extend')]:
            keyf = c.args[1] if len(c.args) > 1 else next((k.value for k in c.keywords if k.arg == 'key_func'), None)
            n19h += 1
            label = f'{wname}: slot key of {U(c.args[0]) if c.args else "?"}'
            if keyf is None or returns_param(keyf):
                ctx.check('C11.L19', True, bsp, c, 'distinct entries keep distinct slots', func=f'BSP.{wname}', text=label)
                continue
            fo = fold_of(keyf)
            if fo is None:
                ctx.shape('C11.L19', False, bsp, c, f'key function `{U(keyf)}` is neither the identity nor a recognised string fold', func=f'BSP.{wname}', text=label)
                continue
            rname = wname.replace('_lmp_write', '_lmp_read', 1)
            rfn = bsp.methods('BSP').get(rname)
            reader_folds = rfn is not None and any(isinstance(sub, ast.Subscript) and any(isinstance(k, ast.Call) and isinstance(k.func, ast.Attribute) and k.func.attr == fo for k in ast.walk(sub.slice))
                                                   for sub in ast.walk(rfn))
            ctx.check('C11.L19', reader_folds, bsp, c, f'BSP.{wname} shares one slot of `{U(c.args[0])}` between all entries with the same `{U(keyf)}`, but {rname} hands the stored names out as written: two names that differ '
                      'only under that fold come back as the first spelling, and the table loses an entry', func=f'BSP.{wname}', text=label)
    if n19 < 1 or n19h < 15:
        raise AnalysisError(f'L19: de-duplicating writers found: {n19} try/except tables, {n19h} find_or_insert helpers (BSP._lmp_write_texinfo and 20+ helper calls confirmed by hand)')
    # ---- L21: a writer serialises the value it is given, it does not edit it --------------------------------------------------------------
    # The reader returns what is in the lump.  A writer that first "corrects" the value (copies the map version over worldspawn's own
    # `mapversion` key, clamps a coordinate in place) writes something else than it was handed, and changes the caller's object as well.
    ctx.rule('C11.L21', 'lump writers do not store into the value they serialise', floor=15)
    MUT21 = {'append', 'extend', 'insert', 'pop', 'remove', 'clear', 'add', 'discard', 'update', 'setdefault', 'sort', 'reverse', 'popitem', '__setitem__', '__delitem__'}
    for wname, wfn in bsp.methods('BSP').items():
        if not (wname.startswith('_lmp_write') or wname == 'write_ent_data'):
            continue
        is_static = any(dotted(d) == 'staticmethod' for d in wfn.decorator_list)
        vparams = [a.arg for a in (wfn.args.args if is_static else wfn.args.args[1:])]
        if not vparams:
            continue
        vp = vparams[0]
        # locals that alias (parts of) the value: loop variables over it, attributes of it
        alias = {vp}
        for _ in range(3):
            for n in ast.walk(wfn):
                if isinstance(n, ast.For) and any(isinstance(x, ast.Name) and x.id in alias for x in ast.walk(n.iter)):
                    alias |= {x.id for x in ast.walk(n.target) if isinstance(x, ast.Name)}
                if isinstance(n, ast.Assign) and isinstance(n.value, (ast.Attribute, ast.Subscript)) and _root_name(n.value) in alias:
                    alias |= {t.id for t in n.targets if isinstance(t, ast.Name)}
        hits = []
        for n in ast.walk(wfn):
            tg = []
            if isinstance(n, ast.Assign):
                tg = [t for t0 in n.targets for t in (t0.elts if isinstance(t0, (ast.Tuple, ast.List)) else [t0])]
            elif isinstance(n, (ast.AugAssign, ast.AnnAssign)) and getattr(n, 'value', None) is not None:
                tg = [n.target]
            elif isinstance(n, ast.Delete):
                tg = list(n.targets)
            for t in tg:
                if isinstance(t, (ast.Attribute, ast.Subscript)) and _root_name(t) in alias:
                    hits.append(n)
            if isinstance(n, ast.Call) and isinstance(n.func, ast.Attribute) and n.func.attr in MUT21 and isinstance(n.func.value, (ast.Attribute, ast.Subscript, ast.Name)) and _root_name(n.func.value) in alias \
                    and not (isinstance(n.func.value, ast.Name) and n.func.value.id not in vparams):
                hits.append(n)
        # confirmed by reading: the `model` key of a brush entity is not content but the reference to its brush model (`*<index>`), an index
        # that the writer re-numbers exactly as find_or_insert() re-numbers every other cross-lump reference; the reader resolves it back
        if wname == '_lmp_write_bmodels':
            hits = [h for h in hits if not (isinstance(h, ast.Assign) and len(h.targets) == 1 and isinstance(h.targets[0], ast.Subscript) and isinstance(h.targets[0].slice, ast.Constant) and h.targets[0].slice.value == 'model')]
        # confirmed by reading: the output separator is a property of the *file* that the caller may force by argument; Output.as_keyvalue()
        # takes it from the object, so the writer sets it there first (C10.B9 decides which separator save() passes)
        if wname == 'write_ent_data':
            hits = [h for h in hits if not (isinstance(h, ast.Assign) and len(h.targets) == 1 and isinstance(h.targets[0], ast.Attribute) and h.targets[0].attr == 'comma_sep' and isinstance(h.value, ast.Name) and h.value.id in vparams)]
        ctx.check('C11.L21', not hits, bsp, hits[0] if hits else wfn, f'BSP.{wname} changes the value it is asked to write (`{U(hits[0])[:70] if hits else ""}`): what is saved is no longer what the view held, and the caller\'s object '
                  'is edited by a save', func=f'BSP.{wname}', text=f'{wname}: value not modified')

    # ---- L22: a value that does not fit its field is refused, not bent to fit ----------------------------------------------------------------
    # struct.pack raises for an out-of-range integer; that is how a writer refuses what the format cannot hold.  `min(max(v, LOW), HIGH)` in
    # front of the pack turns the refusal into a silent change of the value (the file reads back with other numbers than were assigned).
    ctx.rule('C11.L22', 'lump writers do not saturate values into the range of their field', floor=1)
    n22 = 0
    for wname, wfn in bsp.methods('BSP').items():
        if not wname.startswith(('_lmp_write', '_write_')):
            continue
        for c in ast.walk(wfn):
            if isinstance(c, ast.Call) and dotted(c.func) in ('min', 'max') and len(c.args) == 2:
                inner = [a for a in c.args if isinstance(a, ast.Call) and dotted(a.func) in ('min', 'max') and dotted(a.func) != dotted(c.func) and len(a.args) == 2]
                consts = [a for a in c.args if isinstance(a, (ast.Constant, ast.UnaryOp)) or (isinstance(a, ast.Name) and a.id.isupper())]
                if inner and consts and any(isinstance(a, (ast.Constant, ast.UnaryOp)) or (isinstance(a, ast.Name) and a.id.isupper()) for a in inner[0].args):
                    n22 += 1
                    ctx.check('C11.L22', False, bsp, c, f'BSP.{wname} clamps a value with `{U(c)[:60]}` before writing it: a value outside the field is stored as the nearest bound instead of being refused, '
                              'and comes back changed', func=f'BSP.{wname}', text=f'{wname}: no saturation `{U(c)[:40]}`')
    ctx.check('C11.L22', True, bsp, bsp.tree, f'{n22} saturating clamps found in lump writers', func='BSP', text='lump writers examined for saturating clamps')

    # ---- L25: find_or_insert answers with the position the item really has ------------------------------------------------------------------
    # the index handed back for a new item is its position in the list: `len(item_list)` taken just before the append.  The size of the key
    # map is a different number as soon as two entries of the list share a key (the same plane listed twice, two spellings of one material).
    ctx.rule('C11.L25', 'find_or_insert returns len(<list>) for a newly appended item', floor=1)
    bf = prog.module('binformat')
    foi = bf.func('find_or_insert')
    lst_p = foi.args.args[0].arg
    inner = [n for n in foi.body if isinstance(n, ast.FunctionDef)]
    ctx.shape('C11.L25', len(inner) == 1, bf, foi, 'find_or_insert defines one inner finder function', func='find_or_insert', text='finder closure')
    for fnd in inner:
        appends = [c for c in ast.walk(fnd) if isinstance(c, ast.Call) and isinstance(c.func, ast.Attribute) and c.func.attr == 'append' and dotted(c.func.value) == lst_p]
        new_idx = [a for a in ast.walk(fnd) if isinstance(a, ast.Assign) and any(isinstance(t, ast.Subscript) for t in a.targets) and any(isinstance(t, ast.Name) for t in a.targets)]
        if not new_idx:
            # the chained assignment written as two: `new_ind = len(lst)` / `table[key] = new_ind`
            stores_ = [a for a in ast.walk(fnd) if isinstance(a, ast.Assign) and len(a.targets) == 1 and isinstance(a.targets[0], ast.Subscript) and isinstance(a.value, ast.Name)]
            for st_ in stores_:
                defs_ = [a for a in ast.walk(fnd) if isinstance(a, ast.Assign) and len(a.targets) == 1 and isinstance(a.targets[0], ast.Name) and a.targets[0].id == st_.value.id]
                if len(defs_) == 1:
                    new_idx.append(defs_[0])
        if len(appends) != 1 or len(new_idx) != 1:
            ctx.shape('C11.L25', False, bf, fnd, f'finder: {len(appends)} appends to the list and {len(new_idx)} index assignments (1 and 1 expected)', func='find_or_insert', text='new index = len(list)')
            continue
        v_ = new_idx[0].value
        is_len = isinstance(v_, ast.Call) and dotted(v_.func) == 'len' and len(v_.args) == 1
        before = new_idx[0].lineno < appends[0].lineno
        if is_len:
            ctx.check('C11.L25', dotted(v_.args[0]) == lst_p and before, bf, new_idx[0], f'find_or_insert numbers a new item with `{U(v_)}`' + (' after the append' if not before else '') + f': its position in `{lst_p}` is len({lst_p}) before '
                      'the append - the key map is smaller than the list whenever two entries share a key, so the index points at an earlier, different entry', func='find_or_insert', text='new index = len(list)')
        else:
            ctx.shape('C11.L25', False, bf, new_idx[0], f'new index computed as `{U(v_)[:40]}`', func='find_or_insert', text='new index = len(list)')

    # ---- L23: what a reader takes from a shared table is that table's own object ------------------------------------------------------------
    # cross-lump references are rebuilt by the writers with `find_or_insert(self.<table>)`, whose default key is the object's identity.  A
    # reader that hands out a *copy* of the table entry (`verts[a].copy()`) breaks the link: on save the copy is not found, is appended as a
    # new entry, and the table grows with every read/save cycle.
    ctx.rule('C11.L23', 'readers hand out the entries of identity-keyed shared tables themselves, not copies', floor=3)
    by_identity: Set[str] = set()
    for wname, wfn in bsp.methods('BSP').items():
        for c in ast.walk(wfn):
            if isinstance(c, ast.Call) and (dotted(c.func) or '').split('.')[-1] in ('find_or_insert', 'find_or_extend') and c.args and (dotted(c.args[0]) or '').startswith('self.'):
                keyf = c.args[1] if len(c.args) > 1 else next((k.value for k in c.keywords if k.arg == 'key_func'), None)
                if keyf is None or dotted(keyf) == 'id':
                    by_identity.add(dotted(c.args[0]).split('.', 1)[1])
    ctx.shape('C11.L23', len(by_identity) >= 5, bsp, bsp.tree, f'identity-keyed shared tables: {sorted(by_identity)}', func='BSP', text='identity-keyed tables found')
    for rname, rfn in bsp.methods('BSP').items():
        if not rname.startswith('_lmp_read'):
            continue
        alias23 = {t.id: dotted(a.value).split('.', 1)[1] for a in ast.walk(rfn) if isinstance(a, (ast.Assign, ast.AnnAssign)) and a.value is not None and (dotted(a.value) or '').startswith('self.') and dotted(a.value).split('.', 1)[1] in by_identity
                   for t in (a.targets if isinstance(a, ast.Assign) else [a.target]) if isinstance(t, ast.Name)}
        for sub in ast.walk(rfn):
            if not (isinstance(sub, ast.Subscript) and isinstance(sub.ctx, ast.Load)):
                continue
            tbl = alias23.get(sub.value.id) if isinstance(sub.value, ast.Name) else ((dotted(sub.value) or '').split('.', 1)[1] if (dotted(sub.value) or '').startswith('self.') and (dotted(sub.value) or '').split('.', 1)[1] in by_identity else None)
            if tbl is None or isinstance(sub.slice, ast.Slice):
                continue
            par = bsp.parents.get(sub)
            copied = (isinstance(par, ast.Attribute) and par.attr in ('copy', 'thaw', 'freeze') and isinstance(bsp.parents.get(par), ast.Call)) or (isinstance(par, ast.Call) and dotted(par.func) in ('copy.copy', 'copy.deepcopy', 'copy', 'deepcopy', 'Vec', 'FrozenVec'))
            ctx.check('C11.L23', not copied, bsp, sub, f'BSP.{rname} hands out `{U(par)[:50]}`, a copy of an entry of self.{tbl}: the writers find entries of that table by identity (find_or_insert), so on save the copy is appended as a '
                      'new entry instead of being found - the table grows and the references move to the duplicates', func=f'BSP.{rname}', text=f'{rname}: entry of {tbl} handed out itself')

    # ---- L24: bit fields are put together with `|` --------------------------------------------------------------------------------------------
    # `a or b` is one of its operands, not their union: where the reader splits one stored word into two fields of the record (`bool(w & 1)`,
    # `w & ~1`) the writer has to join them bitwise.
    ctx.rule('C11.L24', 'a packed word built from two fields of one record joins them with |, not with `or`', floor=1)
    n24 = 0
    for wname, wfn in bsp.methods('BSP').items():
        if not wname.startswith(('_lmp_write', '_write_')):
            continue
        for c in ast.walk(wfn):
            if isinstance(c, ast.Call) and (dotted(c.func) or '').endswith('pack'):
                for a in c.args:
                    for b in ast.walk(a):
                        if isinstance(b, ast.BoolOp) and isinstance(b.op, ast.Or) and len(b.values) == 2 and all(isinstance(v, ast.Attribute) and isinstance(v.value, ast.Name) for v in b.values) \
                                and b.values[0].value.id == b.values[1].value.id:
                            n24 += 1
                            ctx.check('C11.L24', False, bsp, b, f'BSP.{wname} packs `{U(b)}`: `or` yields the first field when it is truthy and drops the second, where the two fields are parts of one stored word and have to be '
                                      'combined with `|`', func=f'BSP.{wname}', text=f'{wname}: `{U(b)[:40]}` joined bitwise')
    ctx.check('C11.L24', True, bsp, bsp.tree, f'{n24} logical-or joins of two record fields inside pack() calls', func='BSP', text='pack arguments examined for logical or')

    # ---- L20: formats that come from the per-game layout table are consulted alike on both sides -----------------------------------------
    # `self.lump_layout[KEY]` is how the record width follows the BSP flavour (Chaos v25 widens indexes).  A side that takes the table entry
    # only under a further condition (`layout[K] if vers >= 12 else '<H'`) while the other side always takes it disagrees for the flavours
    # in between.
    # ---- L27: what a reader took from the file is what reaches the record ---------------------------------------------------------------------
    # a local that holds values unpacked from the lump (directly, or built from them: `lighting_origin = Vec(lx, ly, lz)`) is not re-bound
    # later to something that has nothing to do with it - a "default" filled in when some flag is clear throws the stored value away, and the
    # writer, which stores the field unconditionally, is no longer the inverse
    ctx.rule('C11.L27', 'lump readers do not replace a value taken from the file by an unrelated one', floor=1)
    n27 = 0
    for rname, rfn in sorted(ms.items()):
        if not rname.startswith('_lmp_read_') and rname not in INLINE:
            continue
        if 'write' in rname:
            continue
        slot_names: Set[str] = set()
        for a in walk_no_nested(rfn):
            if isinstance(a, ast.Assign) and any(isinstance(c, ast.Call) and (dotted(c.func) or '').split('.')[-1] in ('struct_read', 'unpack', 'unpack_from', 'iter_unpack') for c in ast.walk(a.value)):
                slot_names |= {x.id for t in a.targets for x in ast.walk(t) if isinstance(x, ast.Name)}
            if isinstance(a, ast.For) and any(isinstance(c, ast.Call) and (dotted(c.func) or '').split('.')[-1] in ('iter_unpack',) for c in ast.walk(a.iter)):
                slot_names |= {x.id for x in ast.walk(a.target) if isinstance(x, ast.Name)}
        if not slot_names:
            continue
        derived: Dict[str, int] = {}
        assigns = sorted([a for a in walk_no_nested(rfn) if isinstance(a, ast.Assign) and len(a.targets) == 1 and isinstance(a.targets[0], ast.Name)], key=lambda a: a.lineno)
        for a in assigns:
            nm = a.targets[0].id
            uses = {x.id for x in ast.walk(a.value) if isinstance(x, ast.Name)}
            if uses & (slot_names | set(derived)) and nm not in slot_names:
                derived.setdefault(nm, a.lineno)
        READS = ('struct_read', 'unpack', 'unpack_from', 'iter_unpack', 'read_array', 'read')
        from_file = slot_names | set(derived)
        for a in assigns:
            nm = a.targets[0].id
            earlier_read = [b for b in assigns if b.targets[0].id == nm and b.lineno < a.lineno and (nm in slot_names or any(isinstance(c, ast.Call) and (dotted(c.func) or '').split('.')[-1] in READS for c in ast.walk(b.value))
                                                                                              or {x.id for x in ast.walk(b.value) if isinstance(x, ast.Name)} & slot_names)]
            if not earlier_read and nm not in slot_names:
                continue
            if any(isinstance(c, ast.Call) and (dotted(c.func) or '').split('.')[-1] in READS for c in ast.walk(a.value)):
                continue          # another read from the file
            uses = {x.id for x in ast.walk(a.value) if isinstance(x, ast.Name)}
            if nm in uses:
                continue          # a conversion of the value itself
            guard = next((g.test for g in _anc11(bsp, a, rfn) if isinstance(g, ast.If)), None)
            if guard is None:
                continue
            # only what is read per record counts: names bound inside the loop that also holds this assignment (the lump version, the record
            # size and the like are fixed for the whole lump and are configuration, not content)
            loop_ = next((g for g in _anc11(bsp, a, rfn) if isinstance(g, (ast.For, ast.While))), None)
            if loop_ is None:
                continue
            in_loop = {t.id for b in ast.walk(loop_) if isinstance(b, ast.Assign) for tt in b.targets for t in ast.walk(tt) if isinstance(t, ast.Name)}
            data_dep = {x.id for x in ast.walk(guard) if isinstance(x, ast.Name)} & (from_file - {nm}) & in_loop
            n27 += 1
            ctx.check('C11.L27', not data_dep, bsp, a, f'BSP.{rname} replaces `{nm}`, which was taken from the lump, by `{U(a.value)[:50]}` when `{U(guard)[:60]}` - a condition on {sorted(data_dep)}, i.e. on the content '
                      'of the same record: the stored value never reaches the record although the writer stores the field whatever that content is', func=f'BSP.{rname}', text=f'{rname}: `{nm}` keeps what was read')
    ctx.check('C11.L27', True, bsp, bsp.tree, f'{n27} later re-bindings of file-derived locals examined', func='BSP', text='re-bindings of file-derived locals examined')

    # ---- L26: a side lump filled by a writer that serves several lumps keeps what the previous call stored, unless this call has something -----
    # `_write_faces_common` is the body of three `_lmp_write_*` methods and also stores the FACEIDS lump, which belongs to all of them.  The
    # rebuilds run one after another, so the last one wins: a call whose own list is empty (an LDR-only map's HDR faces) has to leave the lump
    # alone.  The store is therefore under a test that is false when the list written is empty - the list itself, its length, or the sequence
    # whose loop appends one entry per item.
    ctx.rule('C11.L26', 'a writer shared by several lumps replaces a side lump only when it has entries for it', floor=1)
    n26 = 0
    for q26, fl26 in bsp.all_funcs().items():
        for f26 in fl26:
            callers26 = {cq for cq, cfl in bsp.all_funcs().items() if cq.startswith('BSP._lmp_write_') for cf in cfl for c in ast.walk(cf)
                         if isinstance(c, ast.Call) and isinstance(c.func, ast.Attribute) and 'BSP.' + c.func.attr == q26}
            if len(callers26) < 2:
                continue
            for st26 in walk_no_nested(f26):
                if not (isinstance(st26, ast.Assign) and len(st26.targets) == 1 and isinstance(st26.targets[0], ast.Attribute) and st26.targets[0].attr == 'data'
                        and isinstance(st26.targets[0].value, ast.Subscript) and dotted(st26.targets[0].value.value) == 'self.lumps'):
                    continue
                written = [a for a in ast.walk(st26.value) if isinstance(a, ast.Name)]
                lists26 = {a.id for a in written if any(isinstance(x, ast.Assign) and any(dotted(t) == a.id for t in x.targets) and isinstance(x.value, (ast.List, ast.ListComp)) for x in walk_no_nested(f26))}
                if not lists26:
                    ctx.shape('C11.L26', False, bsp, st26, f'{q26}: what `{U(st26)[:60]}` writes is not a local list', func=q26, text=f'{q26}: side lump {U(st26.targets[0].value.slice)}')
                    continue
                # sequences whose loop feeds the list one entry per item
                feeders = set(lists26)
                for lp in walk_no_nested(f26):
                    if isinstance(lp, ast.For) and isinstance(lp.iter, ast.Name) and any(isinstance(c, ast.Call) and isinstance(c.func, ast.Attribute) and c.func.attr == 'append' and dotted(c.func.value) in lists26 for b in lp.body for c in ast.walk(b)):
                        feeders.add(lp.iter.id)
                guards26 = [a.test for a in _anc11(bsp, st26, f26) if isinstance(a, ast.If) and any(st26 is x for b in a.body for x in ast.walk(b))]
                n26 += 1
                ok26 = any((isinstance(g, ast.Name) and g.id in feeders) or (isinstance(g, ast.Call) and dotted(g.func) == 'len' and g.args and dotted(g.args[0]) in feeders)
                           or (isinstance(g, ast.Compare) and isinstance(g.left, ast.Call) and dotted(g.left.func) == 'len' and dotted(g.left.args[0]) in feeders) for g in guards26)
                mentions = any(isinstance(x, ast.Name) and x.id in feeders for g in guards26 for x in ast.walk(g))
                if not ok26 and mentions:
                    ctx.shape('C11.L26', False, bsp, st26, f'{q26}: guard `{U(guards26[0])[:50]}` on the side-lump store mentions the list but is not an enumerated emptiness test', func=q26, text=f'{q26}: side lump {U(st26.targets[0].value.slice)}')
                    continue
                ctx.check('C11.L26', ok26, bsp, st26, f'{q26} serves {sorted(callers26)} and stores `{U(st26.targets[0])}` ' + (f'under `{U(guards26[0])[:50]}`' if guards26 else 'unconditionally')
                          + f', which does not depend on whether {sorted(lists26)} has entries: the rebuild that runs last replaces the lump even with an empty array (an LDR-only map\'s HDR face list wipes the ids just '
                          'written for the LDR faces)', func=q26, text=f'{q26}: side lump {U(st26.targets[0].value.slice)}')
    ctx.shape('C11.L26', n26 >= 1, bsp, bsp.tree, f'{n26} side-lump stores in shared writers found (FACEIDS in _write_faces_common confirmed by hand)', text='side-lump stores')
    ctx.rule('C11.L20', 'reader and writer take a record format from the layout table under the same conditions', floor=10)
    lay: Dict[str, Dict[str, Set[Tuple[str, ...]]]] = {}
    lay_node: Dict[Tuple[str, str], ast.AST] = {}
    for mname, mfn in bsp.methods('BSP').items():
        side = 'w' if '_write' in mname or mname == 'save' else 'r'
        for sub in ast.walk(mfn):
            if isinstance(sub, ast.Subscript) and dotted(sub.value) == 'self.lump_layout' and isinstance(sub.slice, ast.Constant) and isinstance(sub.slice.value, str):
                conds: List[str] = []
                ch, par = sub, bsp.parents.get(sub)
                stmt_ = None
                while par is not None and par is not mfn:
                    if isinstance(par, ast.IfExp) and ch is not par.test:
                        conds.append(('' if ch is par.body else 'not ') + U(par.test))
                    if isinstance(par, ast.stmt) and stmt_ is None:
                        stmt_ = par
                    ch, par = par, bsp.parents.get(par)
                # `x = layout[K]` as one branch of an if/else that gives the same local another format
                if isinstance(stmt_, ast.Assign) and len(stmt_.targets) == 1 and isinstance(stmt_.targets[0], ast.Name):
                    holder = bsp.parents.get(stmt_)
                    if isinstance(holder, ast.If):
                        other = holder.orelse if stmt_ in holder.body else holder.body
                        def is_fmt(v: ast.AST) -> bool:
                            return (isinstance(v, ast.Constant) and isinstance(v.value, str)) or (isinstance(v, ast.Call) and (dotted(v.func) or '').endswith('Struct'))
                        if stmt_.value is sub and any(isinstance(o, ast.Assign) and is_fmt(o.value) and any(isinstance(t, ast.Name) and t.id == stmt_.targets[0].id for t in o.targets) for o in other):
                            conds.append(('' if stmt_ in holder.body else 'not ') + U(holder.test))
                lay.setdefault(sub.slice.value, {}).setdefault(side, set()).add(tuple(conds))
                lay_node.setdefault((sub.slice.value, side), sub)
    for key_, sides in sorted(lay.items()):
        if 'r' in sides and 'w' in sides:
            r_c, w_c = sides['r'], sides['w']
            diff = sorted(r_c ^ w_c)
            ctx.check('C11.L20', not diff, bsp, lay_node[(key_, 'w')], f"the layout entry '{key_}' is taken by the readers under {sorted(r_c)} and by the writers under {sorted(w_c)}: for the BSP flavours where that condition "
                      'decides, one side uses the table width and the other does not, so the records written are not the records read', func='BSP', text=f"layout['{key_}'] consulted alike")
        else:
            ctx.shape('C11.L20', False, bsp, lay_node[(key_, 'r' if 'r' in sides else 'w')], f"layout entry '{key_}' is used by only one side", func='BSP', text=f"layout['{key_}'] has both sides")

    # ---- L1 / L2 -------------------------------------------------------------------------------------------
    for v in views:
        if v in NO_WIRE:
            continue
        rd, wr = ms['_lmp_read_' + v.lstrip('_')], ms['_lmp_write_' + v.lstrip('_')]
        for cname, (vals, layout) in BSP_CONFIGS.items():
            ri = Extractor(bsp, fold, Config(dict(vals), layout), 'BSP', inline).extract(rd)
            wi = Extractor(bsp, fold, Config(dict(vals), layout), 'BSP', inline).extract(wr)
            rtags, wtags = tags(ri), tags(wi)
            for t in sorted(rtags | wtags, key=lambda t_: (not (t_ == '?' or t_.startswith('var:')), t_)):      # undetermined destinations first: no partial verdict
                if t == '?' or t.startswith('var:'):
                    raise AnalysisError(f'{v} [{cname}]: cannot determine which lump a format belongs to (tag {t}); reader tags {sorted(rtags)}, writer tags {sorted(wtags)}')
                rs = simplify(flatten(by_tag(ri, t)))
                ws = simplify(flatten(by_tag(wi, t)))
                if v == 'bmodels' and t == 'PHYSCOLLIDE':
                    ws = strip_sentinel(ws)
                ok = rs == ws
                how = 'exact'
                if not ok and v in UNORDERED_OK:
                    ok = sorted(groups(rs)) == sorted(groups(ws))
                    how = 'record multiset'
                # props are compared per static-prop version below (L4); here only the common prefix matters
                if v == 'props':
                    continue
                # a lump the view does not own (not blanked on parse) may be left untouched by the writer
                owned = {a.split('.')[-1] for a in views[v]} | {'main'}
                if t not in owned and ws == '':
                    ctx.note(f'{v} [{cname}]: reader consults {t} ({rs}) which the view does not own; the writer leaves it untouched')
                    continue
                ctx.check('C11.L1', ok, bsp, wr, f'view `{v}`, layout {cname}, lump {t}: the reader consumes `{rs}` but the writer produces `{ws}` ({how} comparison)',
                          func=f'BSP._lmp_write_{v}', text=f'{v} [{cname}] {t}')
        # L3: field linkage under the standard configuration (records whose slot signature is unique on both sides)
        if v != 'props':
            vals, layout = BSP_CONFIGS['standard-v20']
            ri = Extractor(bsp, fold, Config(dict(vals), layout), 'BSP', inline).extract(rd)
            wi = Extractor(bsp, fold, Config(dict(vals), layout), 'BSP', inline).extract(wr)
            rfns = [rd] + [inline[k] for k in inline if k in U(rd)]
            link_records(ctx, 'C11.L3', bsp, v, records(ri), records(wi), rfns, wr, f'BSP._lmp_write_{v}')
            # ... and under every other layout whose records differ from the standard ones (a branch on the layout that packs another expression)
            std_sigs = ([sig(r) for r in records(ri)], [U(s_.expr) if s_.expr is not None else None for r in records(wi) for s_ in r], [s_.name for r in records(ri) for s_ in r])
            for cname2, (vals2, layout2) in BSP_CONFIGS.items():
                if cname2 == 'standard-v20':
                    continue
                try:
                    ri2 = Extractor(bsp, fold, Config(dict(vals2), layout2), 'BSP', inline).extract(rd)
                    wi2 = Extractor(bsp, fold, Config(dict(vals2), layout2), 'BSP', inline).extract(wr)
                    sigs2 = ([sig(r) for r in records(ri2)], [U(s_.expr) if s_.expr is not None else None for r in records(wi2) for s_ in r], [s_.name for r in records(ri2) for s_ in r])
                except AnalysisError:
                    continue            # L1 reports what cannot be extracted under this layout
                if sigs2 != std_sigs:
                    link_records(ctx, 'C11.L3', bsp, f'{v} [{cname2}]', records(ri2), records(wi2), rfns, wr, f'BSP._lmp_write_{v}')
        # L2: arity (configuration independent: check against every variant the atom may use)
        for kind, fn in (('read', rd), ('write', wr)):
            items = Extractor(bsp, fold, Config({}, None), 'BSP', inline).extract(fn)
            for a in atoms(items):
                if a.names is None or a.star and a.dir == 'w':
                    continue
                if a.dir == 'w' and any(n.startswith('*') for n in a.names):
                    continue            # starred arguments: length not syntactic
                counts = {value_count(f) for f in a.fmts}
                n = len(a.names)
                if a.dir == 'r' and a.ident and a.ident.startswith('layout:') and len(counts) > 1:
                    ok = n in counts     # the matching variant is selected by a layout gate
                else:
                    ok = counts == {n} or (len(counts) > 1 and n in counts)
                ctx.check('C11.L2', ok, bsp, a.node, f'{"unpack targets" if a.dir == "r" else "pack arguments"}: {n} but the format {a.fmts} has {sorted(counts)} value slots',
                          func=f'BSP._lmp_{kind}_{v}', text=f'{v} {kind} arity {n} for {a.fmts[0] if a.fmts else "?"}')
    # ---- L4 static props -------------------------------------------------------------------------------------
    spv = fold.enum_table('StaticPropVersion')
    mprops = member_props_for(fold, bsp, 'StaticPropVersion')
    rd, wr = ms['_lmp_read_props'], ms['_lmp_write_props']
    seen_members = []
    acc_table = accessor_table(bsp)
    for m in spv:
        if m in seen_members or m.name in ('UNKNOWN',):
            continue
        seen_members.append(m)
        vals = {'self.is_vitamin': False, 'is_vitamin': False, 'self.version': 20, 'self.static_prop_version': m, 'version': m,
                'vers_num': mprops['version'](m)}
        exr = Extractor(bsp, fold, Config(dict(vals), 'LUMP_LAYOUT_CHAOS' if 'CHAOS' in m.name else 'LUMP_LAYOUT_STANDARD'), 'BSP', inline, mprops)
        exw = Extractor(bsp, fold, Config(dict(vals), 'LUMP_LAYOUT_CHAOS' if 'CHAOS' in m.name else 'LUMP_LAYOUT_STANDARD'), 'BSP', inline, mprops)
        exr_items, exw_items = exr.extract(rd), exw.extract(wr)
        rs = simplify(flatten(exr_items))
        ws = simplify(flatten(exw_items))
        if '[' in rs or '[' in ws:
            # a gate the configuration does not decide: the token strings are not comparable, no verdict
            ctx.shape('C11.L4', False, bsp, wr, f'static props {m.name}: reader `{rs}` vs writer `{ws}`' + (' (undecided version gate)' if '[' in rs + ws else ''),
                      func='BSP._lmp_write_props', text=f'static props {m.name} slots')
        else:
            ctx.check('C11.L4', rs == ws, bsp, wr, f'static props {m.name}: reader `{rs}` vs writer `{ws}`' + (' (undecided version gate)' if '[' in rs + ws else ''),
                      func='BSP._lmp_write_props', text=f'static props {m.name} slots')
        rec = groups(rs)[-1] if groups(rs) else ''
        size = sum(int(x) for x in re.findall(r's(\d+);', rec))
        plain = re.sub(r's\d+;', '', rec).strip('()*')
        size += byte_size('<' + plain) if plain else 0
        want = mprops['size'](m)
        rrecs, wrecs = records(exr_items), records(exw_items)
        if rrecs and wrecs and sig(rrecs[-1]) == sig(wrecs[-1]):
            link_records(ctx, 'C11.L3', bsp, f'props {m.name}', [rrecs[-1]], [wrecs[-1]], [rd], wr, 'BSP._lmp_write_props')
            loops = [n for n in walk_no_nested(rd) if isinstance(n, ast.For) and any(isinstance(c, ast.Call) and dotted(c.func) == 'StaticProp' for c in ast.walk(n))]
            if len(loops) != 1:
                raise AnalysisError('_lmp_read_props: per-prop loop not found')
            # the local that becomes StaticProp.flags: the constructor argument at the position (or keyword) of that field
            sp_fields = class_fields(bsp, 'StaticProp')
            sp_ctor = [c for c in ast.walk(loops[0]) if isinstance(c, ast.Call) and dotted(c.func) == 'StaticProp']
            flags_var = 'flags'
            if len(sp_ctor) == 1 and 'flags' in sp_fields:
                kw_ = next((k.value for k in sp_ctor[0].keywords if k.arg == 'flags'), None)
                pos_ = sp_fields.index('flags')
                cand_ = kw_ if kw_ is not None else (sp_ctor[0].args[pos_] if pos_ < len(sp_ctor[0].args) else None)
                if isinstance(cand_, ast.Name):
                    flags_var = cand_.id
            split_field_check(ctx, 'C11.L10', bsp, f'props {m.name}', exr, exw, rrecs[-1], wrecs[-1], loops[0].body, flags_var, 'flags', acc_table, wr)
        ctx.check('C11.L4', size == want, bsp, rd, f'static props {m.name}: the record read is {size} bytes but the version declares {want}', func='BSP._lmp_read_props', text=f'static props {m.name} size')
    # ---- L5 --------------------------------------------------------------------------------------------------
    n_chains = 0
    for qual, fns in bsp.all_funcs().items():
        for fn in fns:
            for n in walk_no_nested(fn):
                if not isinstance(n, ast.If) or isinstance(bsp.parents.get(n), ast.If) and n in bsp.parents.get(n).orelse:
                    continue
                chain = []
                cur: Optional[ast.If] = n
                while cur is not None:
                    t = cur.test
                    if isinstance(t, ast.Call) and dotted(t.func) == 'isinstance' and len(t.args) == 2 and isinstance(t.args[1], ast.Name):
                        chain.append((dotted(t.args[0]), t.args[1].id, cur))
                    else:
                        break
                    cur = cur.orelse[0] if len(cur.orelse) == 1 and isinstance(cur.orelse[0], ast.If) else None
                if len(chain) < 2:
                    continue
                n_chains += 1
                for i, (var, cls, node) in enumerate(chain):
                    for var0, cls0, _ in chain[:i]:
                        if var0 == var and bsp.has_class(cls) and cls0 in mro(bsp, cls)[1:]:
                            ctx.check('C11.L5', False, bsp, node, f'`isinstance({var}, {cls})` is tested after its base class {cls0}: the branch is unreachable, every {cls} is handled as a {cls0}',
                                      func=qual, text=f'{cls} after base {cls0}')
    ctx.check('C11.L5', n_chains > 0, bsp, bsp.tree, f'{n_chains} isinstance chains examined', func='<module>', text='isinstance chains examined')
    # ---- L6 --------------------------------------------------------------------------------------------------
    for v in views:
        if v in NO_WIRE:
            continue
        wr = ms['_lmp_write_' + v.lstrip('_')]
        for c in walk_no_nested(wr):
            if isinstance(c, ast.Call) and dotted(c.func) == 'struct.pack' and c.args and isinstance(c.args[0], ast.Constant):
                m = re.search(r'(\d+)s', str(c.args[0].value))
                if not m:
                    continue
                width = int(m.group(1))
                enc = [a for a in c.args[1:] if isinstance(a, ast.Call) and isinstance(a.func, ast.Attribute) and a.func.attr == 'encode']
                if not enc:
                    continue
                src = dotted(enc[0].func.value)
                guarded = False
                for g in walk_no_nested(wr):
                    if isinstance(g, ast.If) and any(isinstance(x, ast.Raise) for x in g.body):
                        t = U(g.test)
                        if src and f'len({src})' in t and str(width) in t:
                            guarded = True
                        # length test on the encoded bytes
                        if src and re.search(r'len\(.*' + re.escape(src) + r'.*\)', t) and str(width) in t:
                            guarded = True
                ctx.check('C11.L6', guarded, bsp, c, f'`{U(c)[:70]}` packs `{src}` into a {width}-byte field without a raising length check: struct silently truncates longer values',
                          func=f'BSP._lmp_write_{v}', text=f'{v}: {width}s from {src}')
    tw = ms['_lmp_write_textures']
    # the reader looks for the terminator within 128 bytes of the offset: name + NUL must fit, i.e. len(name) <= 127
    rd_tex = ms['_lmp_read_textures']
    rlim = [fold_int(fold, a) for c in ast.walk(rd_tex) if isinstance(c, ast.Call) and isinstance(c.func, ast.Attribute) and c.func.attr == 'index' and len(c.args) == 3
            for a in [c.args[2].right if isinstance(c.args[2], ast.BinOp) else c.args[2]]]
    guards_t = [g for g in walk_no_nested(tw) if isinstance(g, ast.If) and any(isinstance(x, ast.Raise) for x in g.body) and isinstance(g.test, ast.Compare) and U(g.test.left) == 'len(tex)']
    if not guards_t:
        ctx.check('C11.L6', False, bsp, tw, 'texture names are written without any length check: the reader only searches 128 bytes for the terminator', func='BSP._lmp_write_textures', text='texture name length check')
    elif len(guards_t) != 1 or len(rlim) != 1 or rlim[0] is None or fold_int(fold, guards_t[0].test.comparators[0]) is None:
        ctx.shape('C11.L6', False, bsp, tw, 'texture name limit not recognised', func='BSP._lmp_write_textures', text='texture name length check')
    else:
        lim = fold_int(fold, guards_t[0].test.comparators[0])
        op = guards_t[0].test.ops[0]
        max_ok = lim - 1 if isinstance(op, ast.GtE) else (lim if isinstance(op, ast.Gt) else None)
        if max_ok is None:
            ctx.shape('C11.L6', False, bsp, guards_t[0], 'comparison operator of the limit not recognised', func='BSP._lmp_write_textures', text='texture name length check')
        else:
            ctx.check('C11.L6', max_ok + 1 <= rlim[0], bsp, guards_t[0], f'names of up to {max_ok} characters are accepted (`{U(guards_t[0].test)}`), i.e. {max_ok + 1} bytes with the terminator, but the reader searches only '
                      f'{rlim[0]} bytes for it', func='BSP._lmp_write_textures', text='texture name length check')
    # ---- L11 -------------------------------------------------------------------------------------------------
    n_pool = string_pool_check(ctx, 'C11.L11', bsp, tw, 'BSP._lmp_write_textures', b'\0')
    if n_pool == 0:
        raise AnalysisError('_lmp_write_textures: the string pool search/append pair was not found')
    rt_ = ms['_lmp_read_textures']
    ok = any(isinstance(c, ast.Call) and isinstance(c.func, ast.Attribute) and c.func.attr == 'index' and c.args and isinstance(c.args[0], ast.Constant) and c.args[0].value == b'\0' for c in walk_no_nested(rt_))
    ctx.shape('C11.L11', ok, bsp, rt_, 'the texture name reader cuts each name at the NUL terminator', func='BSP._lmp_read_textures', text='reader cuts at terminator')
    # ---- L14: skipped records -----------------------------------------------------------------------------------------
    # `continue` in a record loop of a writer: the reader rebuilds the skipped element from defaults, so the path condition of the skip
    # must mention every attribute of the element that the rest of the iteration would have written (directly or through a local).
    n_skip = 0
    for qn, fn in ms.items():
        if not qn.startswith('_lmp_write_'):
            continue
        for lp in [l for l in walk_no_nested(fn) if isinstance(l, ast.For)]:
            elems = {e.id for e in ast.walk(lp.target) if isinstance(e, ast.Name)}
            for cont in [c for c in ast.walk(lp) if isinstance(c, ast.Continue)]:
                # innermost loop of the continue must be lp
                anc = bsp.parents.get(cont)
                inner_loop = None
                path_tests: List[ast.AST] = []
                child: ast.AST = cont
                top_stmt: Optional[ast.AST] = None
                while anc is not None and anc is not fn:
                    if isinstance(anc, (ast.For, ast.While)) and inner_loop is None:
                        inner_loop = anc
                        top_stmt = child
                    if isinstance(anc, ast.If) and inner_loop is None:
                        path_tests.append(anc.test)
                    child, anc = anc, bsp.parents.get(anc)
                if inner_loop is not lp or top_stmt is None:
                    continue
                # `if layout_b: <write the record in the other layout>; continue` is an alternative record, not a skipped one (L1 compares both)
                holder_ = bsp.parents.get(cont)
                blk_ = next((getattr(holder_, f_) for f_ in ('body', 'orelse') if isinstance(getattr(holder_, f_, None), list) and cont in getattr(holder_, f_)), [])
                writes_before = any(isinstance(x, (ast.Yield, ast.YieldFrom)) or (isinstance(x, ast.Call) and isinstance(x.func, ast.Attribute) and x.func.attr in ('pack', 'pack_into', 'write'))
                                    for st_ in blk_[:blk_.index(cont)] for x in ast.walk(st_)) if cont in blk_ else False
                if writes_before:
                    continue
                n_skip += 1
                idx = lp.body.index(top_stmt) if top_stmt in lp.body else None
                if idx is None:
                    ctx.shape('C11.L14', False, bsp, cont, 'position of the skip inside the record loop not recognised', func=f'BSP.{qn}', text=f'{qn}: record skip')
                    continue
                def elem_attrs(nodes: Sequence[ast.AST]) -> Set[str]:
                    return {a.attr for nd in nodes for a in ast.walk(nd) if isinstance(a, ast.Attribute) and isinstance(a.value, ast.Name) and a.value.id in elems}
                # locals defined from element attributes before / in the skipping statement
                local_src: Dict[str, Set[str]] = {}
                for st in lp.body[:idx + 1]:
                    for a in ast.walk(st):
                        if isinstance(a, ast.Assign) and isinstance(a.targets[0], ast.Name):
                            local_src.setdefault(a.targets[0].id, set()).update(elem_attrs([a.value]))
                after = lp.body[idx + 1:]
                carried = elem_attrs(after)
                for nd in after:
                    for x in ast.walk(nd):
                        if isinstance(x, ast.Name) and x.id in local_src:
                            carried |= local_src[x.id]
                tested = elem_attrs(path_tests)
                missing = sorted(carried - tested)
                ctx.check('C11.L14', not missing, bsp, cont, f'BSP.{qn} skips the rest of the record when `{" and ".join(U(t)[:40] for t in reversed(path_tests))}`, but the skipped part also writes '
                          f'{missing}: an element whose {(missing or ["?"])[0]} is set loses it (the reader rebuilds skipped records from defaults)', func=f'BSP.{qn}', text=f'{qn}: record skip covers every carried field')
    if n_skip < 1:
        # (a vanished anchor: no verdict for L14, but the rules below still report what they find)
        ctx.shape('C11.L14', False, bsp, ms['_lmp_write_bmodels'], 'no record-skipping `continue` found in the lump writers (one confirmed by hand: _lmp_write_bmodels)', func='BSP._lmp_write_bmodels', text='bmodels: record skip')
    # ---- L28: owner index of side records -------------------------------------------------------------------------------
    # The reader builds its element list from the primary records and attaches each side record with `lst[k]`, k read from the side record.
    # The writer must therefore write, in that slot, the element's position in the array of primary records: the counter of an
    # enumerate() over the very list whose elements become the primary records (or list.index of it) - never a rank in a filtered list.
    def _fmt_lit(c: ast.AST) -> Optional[str]:
        return c.args[0].value if isinstance(c, ast.Call) and c.args and isinstance(c.args[0], ast.Constant) and isinstance(c.args[0].value, str) else None
    n_owner = 0
    for qn, fn in ms.items():
        if not qn.startswith('_lmp_read_') or ('_lmp_write_' + qn[len('_lmp_read_'):]) not in ms:
            continue
        wfn = ms['_lmp_write_' + qn[len('_lmp_read_'):]]
        # element lists of the reader: appended to inside a loop over iter_unpack(<primary fmt>, data)
        prim: Dict[str, str] = {}
        for lp in [l for l in walk_no_nested(fn) if isinstance(l, ast.For)]:
            it_ = lp.iter
            if isinstance(it_, ast.Call) and dotted(it_.func) in ('struct.iter_unpack', 'iter_unpack') and _fmt_lit(it_):
                for c in ast.walk(lp):
                    if isinstance(c, ast.Call) and isinstance(c.func, ast.Attribute) and c.func.attr == 'append' and isinstance(c.func.value, ast.Name):
                        prim[c.func.value.id] = _fmt_lit(it_) or ''
        # ... or built by a comprehension over it: `lst = [Rec(...) for (...) in struct.iter_unpack(<fmt>, data)]`
        for a_ in walk_no_nested(fn):
            if isinstance(a_, ast.Assign) and len(a_.targets) == 1 and isinstance(a_.targets[0], ast.Name) and isinstance(a_.value, ast.ListComp) and len(a_.value.generators) == 1:
                it_ = a_.value.generators[0].iter
                if isinstance(it_, ast.Call) and dotted(it_.func) in ('struct.iter_unpack', 'iter_unpack') and _fmt_lit(it_) and not a_.value.generators[0].ifs:
                    prim[a_.targets[0].id] = _fmt_lit(it_) or ''
        if not prim:
            continue
        for asg in [a for a in ast.walk(fn) if isinstance(a, ast.Assign) and isinstance(a.targets[0], ast.Tuple) and isinstance(a.value, ast.Call)
                    and dotted(a.value.func) in ('struct_read', 'struct.unpack', 'struct.unpack_from') and _fmt_lit(a.value)]:
            names_ = [e.id if isinstance(e, ast.Name) else None for e in asg.targets[0].elts]
            for sub in [x for x in ast.walk(fn) if isinstance(x, ast.Subscript) and isinstance(x.value, ast.Name) and x.value.id in prim and isinstance(x.slice, ast.Name) and x.slice.id in names_
                        and isinstance(bsp.parents.get(x), ast.Assign)]:
                side_fmt, slot, prim_fmt = _fmt_lit(asg.value), names_.index(sub.slice.id), prim[sub.value.id]
                # the writer's primary loop(s): the list whose elements are packed with prim_fmt
                prim_lists = set()
                for lp in [l for l in ast.walk(wfn) if isinstance(l, ast.For)]:
                    if any(isinstance(c, ast.Call) and (dotted(c.func) or '').endswith('pack') and _fmt_lit(c) == prim_fmt for c in ast.walk(lp)):
                        it_ = lp.iter
                        if isinstance(it_, ast.Call) and dotted(it_.func) == 'enumerate' and it_.args:
                            it_ = it_.args[0]
                        if isinstance(it_, ast.Name):
                            prim_lists.add(it_.id)
                ctx.shape('C11.L28', bool(prim_lists), bsp, wfn, f'no loop of BSP._lmp_write_{qn[10:]} packs the primary record {prim_fmt!r} from a named list', func=f'BSP._lmp_write_{qn[10:]}', text=f'{qn[10:]}: owner index of {side_fmt}')
                packs = [c for c in ast.walk(wfn) if isinstance(c, ast.Call) and (dotted(c.func) or '').endswith('pack') and _fmt_lit(c) == side_fmt and len(c.args) > slot + 1
                         and not (isinstance(c.args[slot + 1], ast.Constant) or (isinstance(c.args[slot + 1], ast.UnaryOp) and isinstance(c.args[slot + 1].operand, ast.Constant)))]
                # the side record may be packed by a private helper the writer calls: the slot is then the helper's parameter, i.e. the call's argument
                sites28 = [(pk, pk.args[slot + 1], pk) for pk in packs]
                for hc in [c for c in ast.walk(wfn) if isinstance(c, ast.Call) and ((isinstance(c.func, ast.Name) and c.func.id in inline) or (isinstance(c.func, ast.Attribute) and dotted(c.func.value) == 'self' and c.func.attr in inline))]:
                    hfn = inline[hc.func.id if isinstance(hc.func, ast.Name) else hc.func.attr]
                    hps = [a.arg for a in hfn.args.args]
                    if isinstance(hc.func, ast.Attribute) and hps and hps[0] in ('self', 'cls'):
                        hps = hps[1:]
                    for pk in [c for c in ast.walk(hfn) if isinstance(c, ast.Call) and (dotted(c.func) or '').endswith('pack') and _fmt_lit(c) == side_fmt and len(c.args) > slot + 1]:
                        se = pk.args[slot + 1]
                        if isinstance(se, ast.Name) and se.id in hps and hps.index(se.id) < len(hc.args):
                            sites28.append((hc, hc.args[hps.index(se.id)], hc))
                packs = [t[0] for t in sites28]
                ctx.shape('C11.L28', bool(packs), bsp, wfn, f'no pack of the side record {side_fmt!r} with a computed owner index found', func=f'BSP._lmp_write_{qn[10:]}', text=f'{qn[10:]}: owner index of {side_fmt}')
                for pk, e_, _site in sites28:
                    n_owner += 1
                    verdict: Optional[bool] = None
                    why = ''
                    if isinstance(e_, ast.Call) and isinstance(e_.func, ast.Attribute) and e_.func.attr == 'index' and isinstance(e_.func.value, ast.Name):
                        verdict = e_.func.value.id in prim_lists
                        why = f'it is the position in `{e_.func.value.id}`, not in the written list'
                    elif isinstance(e_, ast.Name):
                        anc = bsp.parents.get(pk)
                        while anc is not None and anc is not wfn:
                            if isinstance(anc, ast.For) and isinstance(anc.target, ast.Tuple) and anc.target.elts and isinstance(anc.target.elts[0], ast.Name) and anc.target.elts[0].id == e_.id \
                                    and isinstance(anc.iter, ast.Call) and dotted(anc.iter.func) == 'enumerate':
                                a0 = anc.iter.args[0] if anc.iter.args else None
                                started = len(anc.iter.args) > 1 or bool(anc.iter.keywords)
                                verdict = isinstance(a0, ast.Name) and a0.id in prim_lists and not started
                                why = f'`{e_.id}` counts `{U(anc.iter)[:60]}`, not positions in the written list `{"/".join(sorted(prim_lists))}`'
                                # a rebinding of the counter inside the loop
                                if any(isinstance(x, ast.Name) and x.id == e_.id and isinstance(x.ctx, ast.Store) for st_ in anc.body for x in ast.walk(st_)):
                                    verdict = None
                                break
                            anc = bsp.parents.get(anc)
                    ctx.shape('C11.L28', verdict is not None, bsp, pk, f'owner index `{U(e_)[:40]}` is neither an enumerate() counter nor list.index()', func=f'BSP._lmp_write_{qn[10:]}', text=f'{qn[10:]}: owner index of {side_fmt}')
                    if verdict is not None:
                        ctx.check('C11.L28', verdict, bsp, pk, f'BSP.{qn} attaches each {side_fmt!r} record to `{sub.value.id}[{sub.slice.id}]`, the element built from the {sub.slice.id}-th {prim_fmt!r} record, but the writer stores '
                                  f'`{U(e_)[:30]}`: {why} - the record is attached to another element when read back', func=f'BSP._lmp_write_{qn[10:]}', text=f'{qn[10:]}: owner index of {side_fmt}')
    if n_owner < 1:
        raise AnalysisError('L28: no side record with an owner index found (one confirmed by hand: the physics blocks of _lmp_write_bmodels)')
    # ---- L29: per-record mutable values ---------------------------------------------------------------------------------
    # A Vec/Angle/list made before the record loop and then stored in (or aliased into) every record is one object shared by all of them:
    # the first in-place change (`[scaling.x, ...] = struct_read(...)`, or the user's own edit) shows in every record.  Inside a record loop a
    # name bound outside it to a mutable construction may only be used as an accumulator (receiver of append/add/extend/update, subscript
    # store/load, len()/iteration), never as a value.
    MUT_CTORS = {'Vec', 'Angle', 'Matrix', 'list', 'dict', 'set', 'bytearray', 'defaultdict', 'OrderedDict', 'Counter', 'deque'}
    def _mutable_ctor(e: ast.AST) -> bool:
        if isinstance(e, (ast.List, ast.Dict, ast.Set, ast.ListComp, ast.DictComp, ast.SetComp)):
            return True
        if isinstance(e, ast.BinOp) and isinstance(e.op, ast.Mult):
            return _mutable_ctor(e.left) or _mutable_ctor(e.right)
        return isinstance(e, ast.Call) and (dotted(e.func) or '').split('.')[-1] in MUT_CTORS
    n_hoist = 0
    for qn, fn in ms.items():
        if not qn.startswith('_lmp_read_') and not qn.startswith('_read_'):
            continue
        outer: Dict[str, ast.AST] = {}
        for st in walk_no_nested(fn):
            if isinstance(st, ast.Assign) and len(st.targets) == 1 and isinstance(st.targets[0], ast.Name) and _mutable_ctor(st.value):
                # bound outside every loop?
                a_ = bsp.parents.get(st)
                in_loop = False
                while a_ is not None and a_ is not fn:
                    if isinstance(a_, (ast.For, ast.While, ast.ListComp, ast.GeneratorExp)):
                        in_loop = True
                    a_ = bsp.parents.get(a_)
                if not in_loop:
                    outer[st.targets[0].id] = st
        # rebound anywhere else (a loop that also rebinds it per record is fine: not followed)
        for st in walk_no_nested(fn):
            if isinstance(st, (ast.Assign, ast.AnnAssign, ast.AugAssign)):
                for t_ in (st.targets if isinstance(st, ast.Assign) else [st.target]):
                    for x in ast.walk(t_):
                        if isinstance(x, ast.Name) and isinstance(x.ctx, ast.Store) and x.id in outer and outer[x.id] is not st:
                            del outer[x.id]
        for lp in [l for l in walk_no_nested(fn) if isinstance(l, (ast.For, ast.While))]:
            if any(isinstance(bsp.parents.get(lp), (ast.For, ast.While)) for _ in (0,)):
                pass
            for nm, st in list(outer.items()):
                uses = [x for b_ in lp.body for x in ast.walk(b_) if isinstance(x, ast.Name) and x.id == nm and isinstance(x.ctx, ast.Load)]
                if not uses:
                    continue
                bad = None
                for u in uses:
                    par = bsp.parents.get(u)
                    if isinstance(par, ast.Attribute) and par.value is u:
                        gp = bsp.parents.get(par)
                        if isinstance(gp, ast.Call) and gp.func is par:
                            continue            # receiver of a method call: accumulator (or a read such as .copy())
                        if isinstance(par.ctx, ast.Load):
                            continue            # reading a component
                        bad = bad or u          # storing a component of the shared object per record
                        continue
                    if isinstance(par, ast.Subscript) and par.value is u:
                        continue
                    if isinstance(par, ast.Call) and u in par.args and (dotted(par.func) or '') in ('len', 'enumerate', 'iter', 'sorted', 'reversed', 'zip', 'sum', 'min', 'max', 'tuple', 'list', 'set', 'frozenset', 'bytes', 'any', 'all'):
                        continue
                    if isinstance(par, (ast.For, ast.comprehension)) and par.iter is u:
                        continue
                    if isinstance(par, ast.Compare) or isinstance(par, (ast.BoolOp, ast.UnaryOp)) or (isinstance(par, (ast.If, ast.While, ast.IfExp)) and par.test is u):
                        continue
                    if isinstance(par, ast.Starred):
                        continue            # unpacked into separate values
                    if isinstance(par, ast.Call) and u in par.args and (dotted(par.func) or '').split('.')[-1] in MUT_CTORS | {'FrozenVec', 'FrozenAngle', 'FrozenMatrix', 'str', 'repr', 'bool', 'int', 'float'}:
                        continue            # `Vec(shared)`: a copy is made per record
                    bad = bad or u
                n_hoist += 1
                ctx.check('C11.L29', bad is None, bsp, bad or lp, f'BSP.{qn} makes `{nm} = {U(st.value)[:40]}` once, before the record loop, and then uses it as a value for every record '
                          f'(`{U(bsp.parents.get(bad))[:60] if bad is not None else ""}`): all records share that one object, an in-place change to one shows in all', func=f'BSP.{qn}',
                          text=f'{qn}: `{nm}` made before the record loop is only accumulated into')
    if n_hoist < 10:
        raise AnalysisError(f'L29: only {n_hoist} accumulators found in the readers\' record loops (expected at least 10)')
    # ---- L30: a slot is written merged exactly where it is read split ------------------------------------------------------------------------
    # `leaf.area << K | leaf.flags.value` puts two fields into one slot; the reader takes it apart with `>> K` and `& mask`.  Both sit under
    # tests on the layout (VitaminSource stores the two fields separately).  For every layout the merge must be what is packed iff the split
    # is what the reader does - a merged value packed for a layout whose reader takes the slot whole ends up in one field.
    ctx.rule('C11.L30', 'a slot is packed as `a << K | b` under exactly the layouts for which the reader splits it with `>> K`', floor=5)

    def _layout_test(t_: ast.AST) -> bool:
        return bool(re.search(r'\bversion\b|VERSIONS|game_ver|is_vitamin|lump_layout|has_ambient', U(t_)))

    def _active(node: ast.AST, fn_: ast.AST, ex_: Extractor) -> Optional[bool]:
        ch_: ast.AST = node
        an_ = bsp.parents.get(ch_)
        while an_ is not None and an_ is not fn_:
            if isinstance(an_, ast.If):
                in_test = any(ch_ is x for x in ast.walk(an_.test))
                if not in_test:
                    t_ = ex_.ev(an_.test)
                    if t_ is UNKNOWN_:
                        if _layout_test(an_.test):
                            return None
                        ch_, an_ = an_, bsp.parents.get(an_)
                        continue            # a test on the data: both arms are possible under every layout
                    in_body = any(ch_ is b for b in an_.body)
                    if bool(t_) != in_body:
                        return False
            # a guard clause in front of it (`if is_vitamin: <other record>; continue`) makes the rest of the block its else branch
            for fld_ in ('body', 'orelse', 'finalbody'):
                blk_ = getattr(an_, fld_, None)
                if isinstance(blk_, list) and ch_ in blk_:
                    for st_ in blk_[:blk_.index(ch_)]:
                        if isinstance(st_, ast.If) and st_.body and isinstance(st_.body[-1], (ast.Continue, ast.Return, ast.Raise, ast.Break)):
                            t_ = ex_.ev(st_.test)
                            if t_ is UNKNOWN_:
                                if _layout_test(st_.test):
                                    return None
                                continue
                            if t_:
                                return False
                        elif isinstance(st_, ast.If) and st_.orelse and isinstance(st_.orelse[-1], (ast.Continue, ast.Return, ast.Raise, ast.Break)):
                            t_ = ex_.ev(st_.test)
                            if t_ is UNKNOWN_:
                                if _layout_test(st_.test):
                                    return None
                                continue
                            if not t_:
                                return False
            ch_, an_ = an_, bsp.parents.get(an_)
        return True
    n30 = 0
    for qn, wfn in ms.items():
        if not qn.startswith('_lmp_write_') or ('_lmp_read_' + qn[len('_lmp_write_'):]) not in ms:
            continue
        rfn = ms['_lmp_read_' + qn[len('_lmp_write_'):]]
        merges = [b for b in ast.walk(wfn) if isinstance(b, ast.BinOp) and isinstance(b.op, ast.BitOr) and isinstance(b.left, ast.BinOp) and isinstance(b.left.op, ast.LShift)
                  and isinstance(b.left.left, ast.Attribute) and isinstance(b.left.left.value, ast.Name)]
        splits = [a for a in ast.walk(rfn) if isinstance(a, ast.Assign) and isinstance(a.value, ast.BinOp) and isinstance(a.value.op, ast.RShift) and isinstance(a.value.left, ast.Name)]
        if not merges:
            continue
        ctx.shape('C11.L30', len(merges) == 1 and len(splits) == 1, bsp, merges[0], f'BSP.{qn}: {len(merges)} merged slot(s) but {len(splits)} split(s) with `>>` in the reader', func=f'BSP.{qn}', text=f'{qn[11:]}: merged slot')
        if len(merges) != 1 or len(splits) != 1:
            continue
        # where the merged value is *packed*: the pack call / the statement that uses it (through a list or tuple local it is an element of)
        use_nodes: List[ast.AST] = [merges[0]]
        holder = bsp.parents.get(merges[0])
        while holder is not None and not isinstance(holder, ast.stmt):
            holder = bsp.parents.get(holder)
        if isinstance(holder, (ast.Assign, ast.AnnAssign)):
            tg = holder.targets[0] if isinstance(holder, ast.Assign) else holder.target
            if isinstance(tg, ast.Name):
                use_nodes = [c for c in ast.walk(wfn) if isinstance(c, ast.Call) and (dotted(c.func) or '').endswith('pack') and any(isinstance(x, ast.Name) and x.id == tg.id for a_ in c.args for x in ast.walk(a_))] or use_nodes
        for cname3, (vals3, layout3) in BSP_CONFIGS.items():
            ex3 = Extractor(bsp, fold, Config(dict(vals3), layout3), 'BSP', inline)
            ex3.extract(wfn)
            w_act = [(_active(u, wfn, ex3) and _active(merges[0], wfn, ex3)) for u in use_nodes]
            ex4 = Extractor(bsp, fold, Config(dict(vals3), layout3), 'BSP', inline)
            ex4.extract(rfn)
            r_act = _active(splits[0], rfn, ex4)
            if r_act is None or any(a is None for a in w_act):
                ctx.shape('C11.L30', False, bsp, merges[0], f'BSP.{qn} [{cname3}]: a test around the merged slot or its split is not decided by the layout', func=f'BSP.{qn}', text=f'{qn[11:]} [{cname3}]: merged iff split')
                continue
            n30 += 1
            ctx.check('C11.L30', any(w_act) == r_act, bsp, merges[0], f'layout {cname3}: BSP.{qn} {"packs" if any(w_act) else "does not pack"} `{U(merges[0])[:50]}` while the reader {"splits" if r_act else "does not split"} that slot '
                      f'(`{U(splits[0])[:40]}`): the slot holds both fields merged but is read back as one of them' if any(w_act) else 'the slot is read split although it was written plain', func=f'BSP.{qn}',
                      text=f'{qn[11:]} [{cname3}]: merged iff split')
    if n30 < 5:
        raise AnalysisError(f'L30: {n30} layout instances of a merged slot found (the area/flags slot of the leaf lump under 5 layouts confirmed by hand)')
    # ---- L31: float coordinates go into integer slots through a quantiser that is the identity on integers ------------------------------------
    # The reader hands integer slots back as they are (`Vec(x, y, z)` of ints): a look-and-save cycle must write the same integers.
    # `round(v)` does; `int(v + 0.5)` truncates towards zero, so every negative integer n is written as n + 1.
    ctx.rule('C11.L31', 'lump writers quantise with round(), never with int(v + 0.5) / int(v - 0.5)', floor=1)
    n31 = 0
    for qn, wfn in ms.items():
        if not qn.startswith('_lmp_write_'):
            continue
        for c in ast.walk(wfn):
            if isinstance(c, ast.Call) and dotted(c.func) == 'round' and len(c.args) == 1:
                n31 += 1
            if isinstance(c, ast.Call) and dotted(c.func) in ('int', 'math.trunc') and len(c.args) == 1 and isinstance(c.args[0], ast.BinOp) and isinstance(c.args[0].op, (ast.Add, ast.Sub)) \
                    and isinstance(c.args[0].right, ast.Constant) and c.args[0].right.value == 0.5:
                n31 += 1
                ctx.check('C11.L31', False, bsp, c, f'BSP.{qn} quantises with `{U(c)[:40]}`: int() truncates towards zero, so a negative whole coordinate n is written as n + 1 (-128 becomes -127) and every look-and-save '
                          'cycle moves it further', func=f'BSP.{qn}', text=f'{qn[11:]}: `{U(c)[:30]}` is the identity on integers')
    ctx.check('C11.L31', n31 >= 1, bsp, bsp.tree, 'quantising calls of the lump writers examined', text='writers quantise with round()')
    # ---- L32: a type code decoded into a boolean field is the code written for it --------------------------------------------------------------
    # `DetailPropShape(..., detail_type == 3, ...)`: the reader turns code 3 into is_cross = True; the writer must write 3 exactly when
    # is_cross is set (`3 if prop.is_cross else 2`).  The two sites are far apart and each looks plausible alone.
    ctx.rule('C11.L32', 'a code the reader compares with a constant to set a boolean field is the constant the writer writes when the field is set', floor=1)
    n32 = 0
    for qn, rfn in ms.items():
        if not qn.startswith('_lmp_read_') or ('_lmp_write_' + qn[len('_lmp_read_'):]) not in ms:
            continue
        wfn = ms['_lmp_write_' + qn[len('_lmp_read_'):]]
        for ctor in [c for c in ast.walk(rfn) if isinstance(c, ast.Call) and isinstance(c.func, ast.Name) and bsp.has_class(c.func.id)]:
            try:
                flds = [f_ for b_ in reversed(mro(bsp, ctor.func.id)) if bsp.has_class(b_) for f_ in class_fields(bsp, b_)]
            except AnalysisError:
                continue
            pairs32 = [(flds[i], a) for i, a in enumerate(ctor.args) if i < len(flds)] + [(k.arg, k.value) for k in ctor.keywords if k.arg]
            for fld, a in pairs32:
                if not (isinstance(a, ast.Compare) and len(a.ops) == 1 and isinstance(a.ops[0], (ast.Eq, ast.NotEq)) and isinstance(a.left, ast.Name) and isinstance(a.comparators[0], ast.Constant)
                        and isinstance(a.comparators[0].value, int)):
                    continue
                code, pos = a.comparators[0].value, isinstance(a.ops[0], ast.Eq)
                wies = [ie for ie in ast.walk(wfn) if isinstance(ie, ast.IfExp) and isinstance(ie.body, ast.Constant) and isinstance(ie.orelse, ast.Constant)
                        and ((isinstance(ie.test, ast.Attribute) and ie.test.attr == fld) or (isinstance(ie.test, ast.UnaryOp) and isinstance(ie.test.op, ast.Not) and isinstance(ie.test.operand, ast.Attribute) and ie.test.operand.attr == fld))]
                if len(wies) != 1:
                    ctx.shape('C11.L32', False, bsp, a, f'BSP.{qn} decodes `{U(a)}` into {ctor.func.id}.{fld}; how the writer chooses the code for that field was not recognised', func=f'BSP.{qn}', text=f'{qn[10:]}: code of {fld}')
                    continue
                ie = wies[0]
                neg = isinstance(ie.test, ast.UnaryOp)
                when_set = ie.orelse.value if neg else ie.body.value
                when_clear = ie.body.value if neg else ie.orelse.value
                n32 += 1
                ok32 = (when_set == code and when_clear != code) if pos else (when_clear == code and when_set != code)
                ctx.check('C11.L32', ok32, bsp, ie, f'BSP.{qn} sets {ctor.func.id}.{fld} from `{U(a)}`, but BSP._lmp_write_{qn[10:]} writes `{U(ie)[:40]}`: code {when_set} when the field is set and {when_clear} when it is not - '
                          f'the field comes back inverted', func=f'BSP._lmp_write_{qn[10:]}', text=f'{qn[10:]}: code of {fld}')
    if n32 < 1:
        raise AnalysisError('L32: no decoded boolean code found (DetailPropShape.is_cross confirmed by hand)')
    # ---- L15: auxiliary lumps -----------------------------------------------------------------------------------------------
    n_aux = 0
    for qn, fn in ms.items():
        if not qn.startswith('_lmp_write_'):
            continue
        for st in ast.walk(fn):
            if not (isinstance(st, ast.Assign) and isinstance(st.targets[0], ast.Attribute) and st.targets[0].attr == 'data' and isinstance(st.targets[0].value, ast.Subscript)
                    and dotted(st.targets[0].value.value) == 'self.lumps'):
                continue
            lump = U(st.targets[0].value.slice)
            n_aux += 1
            conds = []
            anc = bsp.parents.get(st)
            while anc is not None and anc is not fn:
                if isinstance(anc, ast.If) and re.search(r'\bversion\b|VERSIONS|game_ver|is_vitamin', U(anc.test)):
                    conds.append(anc.test)
                anc = bsp.parents.get(anc)
            if not conds:
                ctx.check('C11.L15', True, bsp, st, 'stored whatever the map version', func=f'BSP.{qn}', text=f'{qn}: {lump} stored')
                continue
            rd = ms.get(qn.replace('_lmp_write_', '_lmp_read_'))
            mirrored = False
            if rd is not None:
                for acc in ast.walk(rd):
                    if isinstance(acc, ast.Subscript) and dotted(acc.value) == 'self.lumps' and U(acc.slice) == lump:
                        a2 = bsp.parents.get(acc)
                        while a2 is not None and a2 is not rd:
                            if isinstance(a2, ast.If) and any(U(a2.test) == U(c) for c in conds):
                                mirrored = True
                            a2 = bsp.parents.get(a2)
            ctx.check('C11.L15', mirrored, bsp, st, f'BSP.{qn} stores the rebuilt {lump} lump only when `{U(conds[0])[:60]}`, but the reader takes its values from that lump for every version: '
                      'for other versions the values the view holds are silently replaced by the stale or empty lump', func=f'BSP.{qn}', text=f'{qn}: {lump} stored')
    if n_aux < 10:
        raise AnalysisError(f'L15: only {n_aux} auxiliary lump stores found in the writers')
    # ---- L16: entity lump, output vs keyvalue -----------------------------------------------------------------------------
    re_ = ms['_lmp_read_ents']
    cnt = [c for c in ast.walk(re_) if isinstance(c, ast.Compare) and isinstance(c.left, ast.Call) and isinstance(c.left.func, ast.Attribute) and c.left.func.attr == 'count'
           and c.left.args and isinstance(c.left.args[0], ast.Constant) and c.left.args[0].value == ',']
    if len(cnt) != 1:
        ctx.shape('C11.L16', False, bsp, re_, 'the comma-count test that tells old-style outputs from keyvalues was not found', func='BSP._lmp_read_ents', text='output detection by comma count')
    else:
        c_ = cnt[0]
        exact = len(c_.ops) == 1 and isinstance(c_.ops[0], ast.Eq) and isinstance(c_.comparators[0], ast.Constant) and c_.comparators[0].value == 4
        ctx.check('C11.L16', exact, bsp, c_, f'`{U(c_)}`: an output value is five fields joined by exactly four commas; a wider test also takes ordinary keyvalues with more commas '
                  '(colour lists, point lists) for outputs whenever their last fields happen to be numbers - the key disappears and a bogus output is written back', func='BSP._lmp_read_ents', text='output detection by comma count')
    # ---- L17: negated indexes --------------------------------------------------------------------------------------------
    n_neg = 0
    for qn, fn in ms.items():
        if not qn.startswith('_lmp_write_'):
            continue
        finders = {t.id: dotted(a.value.args[0]) for a in ast.walk(fn) if isinstance(a, ast.Assign) and isinstance(a.value, ast.Call) and dotted(a.value.func) in ('find_or_insert', 'find_or_extend') and a.value.args
                   for t in a.targets if isinstance(t, ast.Name)}
        for u in ast.walk(fn):
            if isinstance(u, ast.UnaryOp) and isinstance(u.op, ast.USub) and isinstance(u.operand, ast.Call) and isinstance(u.operand.func, ast.Name) and u.operand.func.id in finders:
                n_neg += 1
                tbl = finders[u.operand.func.id]
                inits = [a for a in walk_no_nested(fn) if isinstance(a, (ast.Assign, ast.AnnAssign)) and dotted(a.targets[0] if isinstance(a, ast.Assign) else a.target) == tbl]
                reserved = bool(inits) and isinstance(inits[0].value, ast.List) and len(inits[0].value.elts) >= 1 and bsp.parents.get(inits[0]) is fn
                if not reserved and inits and bsp.parents.get(inits[0]) is fn:
                    # `tbl = []` followed by an unconditional top-level append before the loop
                    idx0 = fn.body.index(inits[0])
                    reserved = any(isinstance(st, ast.Expr) and isinstance(st.value, ast.Call) and isinstance(st.value.func, ast.Attribute) and st.value.func.attr == 'append' and dotted(st.value.func.value) == tbl
                                   for st in fn.body[idx0 + 1:] if not isinstance(st, (ast.For, ast.While)))
                ctx.check('C11.L17', reserved, bsp, u, f'BSP.{qn} writes `{U(u)}` for a reversed element: if that element is the first one put into `{tbl}` its index is 0 and -0 is 0, so it reads back as the '
                          f'forward element. `{tbl}` must start with a reserved dummy entry on every path, not only when the first element happens to be reversed', func=f'BSP.{qn}', text=f'{qn}: slot 0 of {tbl} reserved')
    if n_neg < 1:
        raise AnalysisError('L17: no negated table index found in the lump writers (surfedges confirmed by hand)')
    # ---- L13 -------------------------------------------------------------------------------------------------
    bf = prog.module('binformat')
    foe = bf.func('find_or_extend')
    zips = [c for c in ast.walk(foe) if isinstance(c, ast.Call) and dotted(c.func) == 'zip' and any('islice' in U(a) or isinstance(a, ast.Subscript) for a in c.args)]
    eqs = [c for c in ast.walk(foe) if isinstance(c, ast.Compare) and isinstance(c.ops[0], ast.Eq) and any(isinstance(x, ast.Subscript) and isinstance(x.slice, ast.Slice) for x in [c.left] + c.comparators)]
    if not zips and not eqs:
        ctx.shape('C11.L13', False, bf, foe, 'sublist comparison of find_or_extend not found', func='find_or_extend', text='whole sublist must fit')
    elif eqs and not zips:
        ctx.check('C11.L13', True, bf, eqs[0], 'list equality compares lengths as well', func='find_or_extend', text='whole sublist must fit')
    else:
        strict = any(k.arg == 'strict' and isinstance(k.value, ast.Constant) and k.value.value is True for z in zips for k in z.keywords)
        bound = any(isinstance(c, ast.Compare) and 'len(item_list)' in U(c) and 'len(items)' in U(c) for c in ast.walk(foe))
        ctx.check('C11.L13', strict or bound, bf, zips[0], 'the candidate run is compared with zip() against a slice of the list: at the tail the slice is shorter and zip() stops early, so a sublist of which only a prefix is present '
                  'counts as found - the returned (index, count) then covers elements that were never added (edges / primitives / brush sides of the last records)', func='find_or_extend', text='whole sublist must fit')
    # ---- L12 -------------------------------------------------------------------------------------------------
    for v in views:
        if v in NO_WIRE:
            continue
        wr = ms['_lmp_write_' + v.lstrip('_')]
        if len(wr.args.args) < 2:
            continue
        param = wr.args.args[1].arg
        grows = [c for c in walk_no_nested(wr) if isinstance(c, ast.Call) and dotted(c.func) in ('find_or_insert', 'find_or_extend') and c.args and dotted(c.args[0]) == param]
        if not grows:
            continue
        loops = [n for n in walk_no_nested(wr) if isinstance(n, ast.For) and param in {x.id for x in ast.walk(n.iter) if isinstance(x, ast.Name)}]
        if not loops:
            ctx.shape('C11.L12', False, bsp, wr, f'{v}: no loop over `{param}` found', func=f'BSP._lmp_write_{v}', text=f'{v}: live iteration of {param}')
        for lp in loops:
            live = isinstance(lp.iter, ast.Name) or (isinstance(lp.iter, ast.Call) and dotted(lp.iter.func) == 'enumerate' and isinstance(lp.iter.args[0], ast.Name))
            ctx.check('C11.L12', live, bsp, lp, f'`{U(grows[0])}` hands out indexes into `{param}` and appends elements that are not listed yet; the record loop runs over `{U(lp.iter)}`, '
                      'a snapshot, so the appended elements are referenced by index but never written', func=f'BSP._lmp_write_{v}', text=f'{v}: live iteration of {param}')
    # decoder: the search for the next zero marker must not be bounded by the *decoded* size (an isolated zero costs two bytes, so the
    # encoded row can be longer than the decoded one)
    idx_calls = [c for c in ast.walk(bsp.func('runlength_decode')) if isinstance(c, ast.Call) and isinstance(c.func, ast.Attribute) and c.func.attr in ('index', 'find') and dotted(c.func.value) == 'data']
    if len(idx_calls) != 1:
        ctx.shape('C11.L7', False, bsp, bsp.func('runlength_decode'), 'zero marker search not found', text='decode marker search unbounded')
    elif len(idx_calls[0].args) >= 3:
        lim = idx_calls[0].args[2]
        ldefs = [n.value for n in ast.walk(bsp.func('runlength_decode')) if isinstance(n, ast.Assign) and dotted(n.targets[0]) == dotted(lim)]
        src_l = U(lim) + ' ' + ' '.join(U(d) for d in ldefs)
        if 'ret_bytes' in src_l or 'max_clusters' in src_l:
            ctx.check('C11.L7', False, bsp, idx_calls[0], f'`{U(idx_calls[0])}` stops searching for zero markers after the decoded row length: a row with isolated zero bytes is longer encoded than decoded, so its later markers '
                      'are copied as literal data', text='decode marker search unbounded')
        else:
            ctx.shape('C11.L7', U(lim) in ('size', 'len(data)'), bsp, idx_calls[0], 'search bound', text='decode marker search unbounded')
    else:
        ctx.check('C11.L7', True, bsp, idx_calls[0], 'search runs to the end of the data', text='decode marker search unbounded')
    # ---- L7 --------------------------------------------------------------------------------------------------
    enc = bsp.func('runlength_encode')
    dec = bsp.func('runlength_decode')
    esrc, dsrc = U(enc), U(dec)
    inner = [n for n in ast.walk(enc) if isinstance(n, ast.While) and U(n.test) == 'dist > 0']
    caps = [c.args[0].value for n in inner for c in ast.walk(n) if isinstance(c, ast.Call) and dotted(c.func) == 'min' and len(c.args) == 2 and isinstance(c.args[0], ast.Constant) and dotted(c.args[1]) == 'dist']
    decs = [st.value.value for n in inner for st in n.body if isinstance(st, ast.AugAssign) and isinstance(st.op, ast.Sub) and dotted(st.target) == 'dist' and isinstance(st.value, ast.Constant)]
    if len(inner) != 1 or len(caps) != 1 or len(decs) != 1:
        ctx.shape('C11.L7', False, bsp, inner[0] if inner else enc, 'zero-run emission loop (min(cap, dist) / dist -= step) not recognised', text='encode zero-run records')
    else:
        ctx.check('C11.L7', caps[0] == decs[0] == 255, bsp, inner[0], f'runlength_encode emits a count byte of at most {caps[0]} but advances the remaining run by {decs[0]}: both must be 255 (one byte), '
                  'otherwise zeros are lost or duplicated for runs longer than the cap', text='encode zero-run records')
        ctx.shape('C11.L7', [U(s_) for s_ in inner[0].body][:2] == ['result.append(0)', f'result.append(min({caps[0]}, dist))'], bsp, inner[0], 'record is (0x00, count)', text='encode record layout')
    ctx.shape('C11.L7', 'dist = zero_end - zero_ind' in esrc and 'pos = zero_end' in esrc, bsp, enc, 'the encoder must measure the whole zero run and continue after it', text='encode run length and advance')
    ctx.shape('C11.L7', 'while zero_end < size and data[zero_end] == 0' in esrc, bsp, enc, 'the encoder must scan to the end of the zero run without leaving the buffer', text='encode run scan')
    ctx.shape('C11.L7', 'zeros = data[zero_ind + 1]' in dsrc and 'result += bytes(zeros)' in dsrc, bsp, dec, 'the decoder must read the count byte following the zero and emit that many zeros', text='decode count byte')
    ctx.shape('C11.L7', 'pos = zero_ind + 2' in dsrc, bsp, dec, 'the decoder must skip exactly the two-byte record', text='decode advance by 2')
    ctx.shape('C11.L7', 'result += view[pos:zero_ind]' in dsrc and 'result += view[pos:zero_ind]' in esrc, bsp, dec, 'non-zero bytes are copied verbatim on both sides', text='literal bytes copied')
    # ---- L8 --------------------------------------------------------------------------------------------------
    wed = bsp.func('BSP.write_ent_data')
    n_slots = 0
    for c in walk_no_nested(wed):
        if isinstance(c, ast.Call) and isinstance(c.func, ast.Attribute) and c.func.attr == 'write' and c.args:
            arg = c.args[0]
            if isinstance(arg, ast.Call) and isinstance(arg.func, ast.Attribute) and arg.func.attr == 'encode' and isinstance(arg.func.value, ast.JoinedStr):
                from engine.kvtext import Emit, lex_emit
                em = Emit(c, arg.func.value, kv_flatten(arg.func.value))
                lex_emit(em)
                for s in em.slots:
                    if s.quoted:
                        n_slots += 1
                        conv, _ = conversion_of(s.node)
                        ctx.check('C11.L8', conv == 'escape_text', bsp, c, f'`{U(s.node)}` is written into the entity lump inside quotes ({s.position} position) without escape_text(): '
                                  'a quote or backslash in it corrupts the lump for the escape-decoding reader', func='BSP.write_ent_data', text=f'{s.position} slot {U(s.node)}')
    if n_slots < 2:
        raise AnalysisError('write_ent_data: key/value line not found')
    re_ = ms['_lmp_read_ents']
    tks = [c for c in walk_no_nested(re_) if isinstance(c, ast.Call) and dotted(c.func) == 'Tokenizer']
    ok = len(tks) == 1 and any(k.arg == 'allow_escapes' and isinstance(k.value, ast.Constant) and k.value.value is True for k in tks[0].keywords)
    ctx.check('C11.L8', ok, bsp, tks[0] if tks else re_, 'the entity lump reader must tokenise with allow_escapes=True (the writer escapes)', func='BSP._lmp_read_ents', text='reader decodes escapes')
    ok = any(isinstance(c, ast.Call) and dotted(c.func) == 'output.as_keyvalue' for c in walk_no_nested(wed)) and \
        any(isinstance(c, ast.Call) and dotted(c.func) == 'Output.parse' for c in walk_no_nested(re_))
    ctx.shape('C11.L8', ok, bsp, wed, 'outputs must be written with Output.as_keyvalue and read with Output.parse', func='BSP.write_ent_data', text='outputs via as_keyvalue/parse')
    # ---- L9 --------------------------------------------------------------------------------------------------
    rb, wb = ms['_lmp_read_bmodels'], ms['_lmp_write_bmodels']
    wsent = [c for c in walk_no_nested(wb) if isinstance(c, ast.Call) and dotted(c.func) == 'struct.pack' and len(c.args) == 5 and isinstance(c.args[1], ast.UnaryOp)]
    # the terminator: a header-format record packed from constants only
    consts = [c for c in walk_no_nested(wb) if isinstance(c, ast.Call) and dotted(c.func) == 'struct.pack' and len(c.args) == 5 and isinstance(c.args[0], ast.Constant) and c.args[0].value == '<iiii'
              and all(isinstance(a, ast.Constant) or (isinstance(a, ast.UnaryOp) and isinstance(a.operand, ast.Constant)) for a in c.args[1:])]
    if len(consts) != 1:
        ctx.shape('C11.L9', False, bsp, wb, 'constant terminator record not found', func='BSP._lmp_write_bmodels', text='sentinel written')
    else:
        first = ast.literal_eval(consts[0].args[1])
        ctx.check('C11.L9', first == -1, bsp, consts[0], f'the physics lump ends with a header record whose model index is {first}; the reader stops on -1 only', func='BSP._lmp_write_bmodels', text='sentinel written')
    rt = [n for n in walk_no_nested(rb) if isinstance(n, ast.If) and U(n.test) == 'mdl_ind == -1' and any(isinstance(x, ast.Break) for x in n.body)]
    first_field_ok = any(isinstance(n, ast.Assign) and isinstance(n.targets[0], ast.Tuple) and U(n.targets[0].elts[0]) == 'mdl_ind' and 'struct_read' in U(n.value) for n in walk_no_nested(rb))
    ctx.shape('C11.L9', bool(rt) and first_field_ok, bsp, rt[0] if rt else rb, 'the reader must stop on a header whose first field is -1', func='BSP._lmp_read_bmodels', text='sentinel consumed')


MUTANTS = [
    {'id': 'cubemap_origin_truncated', 'file': 'bsp.py', 'find': "                round(cube.origin.x),", 'replace': "                int(cube.origin.x + 0.5),", 'expect': 'C11.L31', 'note': 'round 13'},
    {'id': 'detail_shape_codes_swapped_in_writer', 'file': 'bsp.py', 'find': "                detail_type = 3 if prop.is_cross else 2", 'replace': "                detail_type = 2 if prop.is_cross else 3", 'expect': 'C11.L32', 'note': 'round 13'},
    {'id': 'vitamin_leaf_area_slot_takes_flags', 'file': 'bsp.py', 'find': "                    leaf.contents.value, leaf.cluster_id, leaf.area,\n", 'replace': "                    leaf.contents.value, leaf.cluster_id, leaf.flags.value,\n", 'expect': 'C11.L3', 'note': 'round 12 follow-up: the leaf records are linked now (zip binding + late destructuring)'},
    {'id': 'vitamin_leaf_area_packed_merged', 'file': 'bsp.py', 'find': "                    leaf.contents.value, leaf.cluster_id, leaf.area,\n", 'replace': "                    leaf.contents.value, leaf.cluster_id, (leaf.area << self.lump_layout['LEAF_AREA_OFFSET'] | leaf.flags.value),\n", 'expect': 'C11.L30', 'refuse_ok': True, 'note': 'round 12: a second merge - L30 declines (the seed C10-X is the detected form)'},
    {'id': 'static_prop_scaling_hoisted', 'file': 'bsp.py', 'find': "        for i in range(prop_count):\n            start = static_lump.tell()", 'replace': "        no_scaling = Vec(1.0, 1.0, 1.0)\n        for i in range(prop_count):\n            start = static_lump.tell()", 'extra': [{'file': 'bsp.py', 'find': "            scaling = Vec(1.0, 1.0, 1.0)\n", 'replace': "            scaling = no_scaling\n"}], 'expect': 'C11.L29', 'note': 'round 11: hoisted per-record Vec'},
    {'id': 'bmodel_phys_index_by_rank', 'file': 'bsp.py', 'find': "        for i, model in enumerate(model_list):\n            yield struct.pack(\n                '<9fiii',", 'replace': "        for i, model in enumerate(model_list, 1):\n            yield struct.pack(\n                '<9fiii',", 'expect': 'C11.L28', 'note': 'round 11: owner index of the physics block'},
    {'id': 'prop_lighting_origin_defaulted_by_flag', 'file': 'bsp.py', 'find': "            flags = StaticPropFlags(flags)\n", 'replace': "            flags = StaticPropFlags(flags)\n            if StaticPropFlags.HAS_LIGHTING_ORIGIN not in flags:\n                lighting_origin = origin.copy()\n", 'expect': 'C11.L27'},
    {'id': 'detail_shape_size_never_written', 'file': 'bsp.py', 'find': "                shape_ang = prop.shape_angle\n                shape_size = prop.shape_size\n", 'replace': "                shape_ang = prop.shape_angle\n                shape_size = 1\n", 'expect': 'C11.L3'},
    {'id': 'faceids_rebuilt_by_every_split_faces_writer', 'file': 'bsp.py', 'find': "            if hammer_ids:\n                self.lumps[BSP_LUMPS.FACEIDS].data", 'replace': "            if get_orig_face is not None:\n                self.lumps[BSP_LUMPS.FACEIDS].data", 'expect': 'C11.L26'},
    {'id': 'ok_faceids_guarded_by_faces', 'file': 'bsp.py', 'find': "            if hammer_ids:\n                self.lumps[BSP_LUMPS.FACEIDS].data", 'replace': "            if len(hammer_ids) > 0:\n                self.lumps[BSP_LUMPS.FACEIDS].data", 'expect': None},
    {'id': 'ok_prop_flags_split_into_locals', 'file': 'bsp.py', 'find': "            start = prop_lump.tell()\n", 'replace': "            start = prop_lump.tell()\n            flags_prim = prop.flags.value_prim\n            flags_sec = prop.flags.value_sec\n", 'extra': [{'file': 'bsp.py', 'find': "                0 if version.is_lightmap else prop.flags.value_prim,", 'replace': "                0 if version.is_lightmap else flags_prim,"}, {'file': 'bsp.py', 'find': "                prop_lump.write(struct.pack('<I', prop.flags.value_sec))", 'replace': "                prop_lump.write(struct.pack('<I', flags_sec))"}], 'expect': None, 'note': 'negative control: the two flag halves taken into locals'},
    {'id': 'lightmap_flags_primary_local', 'file': 'bsp.py', 'find': "            start = prop_lump.tell()\n", 'replace': "            start = prop_lump.tell()\n            flags_prim = prop.flags.value_prim\n", 'extra': [{'file': 'bsp.py', 'find': "                    '<IHH',\n                    prop.flags.value,\n", 'replace': "                    '<IHH',\n                    flags_prim,\n"}], 'expect': 'C11.L10'},
    {'id': 'find_or_insert_numbers_by_key_map', 'file': 'binformat.py', 'find': "            ind = by_index[key] = len(item_list)\n", 'replace': "            ind = by_index[key] = len(by_index)\n", 'expect': 'C11.L25'},
    {'id': 'surfedge_reader_copies_vertexes', 'file': 'bsp.py', 'find': "            Edge(verts[a], verts[b])\n", 'replace': "            Edge(verts[a].copy(), verts[b].copy())\n", 'expect': 'C11.L23'},
    {'id': 'brushside_flags_joined_with_or', 'file': 'bsp.py', 'find': "                    side.is_bevel_plane | side._unknown_bevel_bits,", 'replace': "                    side.is_bevel_plane or side._unknown_bevel_bits,", 'expect': 'C11.L24'},
    {'id': 'visleaf_bounds_saturated', 'file': 'bsp.py', 'find': "                    int(leaf.mins.x), int(leaf.mins.y), int(leaf.mins.z),\n                    int(leaf.maxes.x), int(leaf.maxes.y), int(leaf.maxes.z),\n                    face_ind, len(leaf.faces),\n                    brush_ind, len(leaf.brushes),\n                    leaf.water_id)", 'replace': "                    min(max(int(leaf.mins.x), -0x8000), 0x7FFF), int(leaf.mins.y), int(leaf.mins.z),\n                    int(leaf.maxes.x), int(leaf.maxes.y), int(leaf.maxes.z),\n                    face_ind, len(leaf.faces),\n                    brush_ind, len(leaf.brushes),\n                    leaf.water_id)", 'expect': 'C11.L22', 'nth': 0},
    {'id': 'ent_writer_refreshes_mapversion', 'file': 'bsp.py', 'find': "        out = BytesIO()\n        for ent in itertools.chain([vmf.spawn], vmf.entities):", 'replace': "        if 'mapversion' in vmf.spawn:\n            vmf.spawn['mapversion'] = str(vmf.map_ver)\n        out = BytesIO()\n        for ent in itertools.chain([vmf.spawn], vmf.entities):", 'expect': 'C11.L21'},
    {'id': 'texdata_get_form_keyed_by_material', 'file': 'bsp.py', 'find': "            try:\n                ind = texdata_ind[tdat]\n            except KeyError:\n                ind = texdata_ind[tdat] = next_ind", 'replace': "            mat_key = tdat.mat.casefold()\n            ind = texdata_ind.get(mat_key)\n            if ind is None:\n                ind = texdata_ind[mat_key] = next_ind", 'expect': 'C11.L19'},
    {'id': 'ok_texdata_get_form', 'file': 'bsp.py', 'find': "            try:\n                ind = texdata_ind[tdat]\n            except KeyError:\n                ind = texdata_ind[tdat] = next_ind", 'replace': "            ind = texdata_ind.get(tdat)\n            if ind is None:\n                ind = texdata_ind[tdat] = next_ind", 'expect': None},
    {'id': 'prop_leaf_width_by_prop_version', 'file': 'bsp.py', 'find': "        prop_lump.write(write_array(self.lump_layout['STATICPROPLEAF'], leaf_array))", 'replace': "        prop_lump.write(write_array(self.lump_layout['STATICPROPLEAF'] if vers_num >= 12 else '<H', leaf_array))", 'expect': 'C11.L20'},
    {'id': 'prop_model_names_casefolded', 'file': 'bsp.py', 'find': "        add_model = find_or_insert(model_list, identity)\n", 'replace': "        add_model = find_or_insert(model_list, str.casefold)\n", 'expect': 'C11.L19'},
    {'id': 'ok_prop_model_names_lambda_identity', 'file': 'bsp.py', 'find': "        add_model = find_or_insert(model_list, identity)\n", 'replace': "        add_model = find_or_insert(model_list, lambda name: name)\n", 'expect': None},
    {'id': 'texdata_deduplicated_by_material', 'file': 'bsp.py', 'find': "            try:\n                ind = texdata_ind[tdat]\n            except KeyError:\n                ind = texdata_ind[tdat] = next_ind", 'replace': "            mat_key = tdat.mat.casefold()\n            try:\n                ind = texdata_ind[mat_key]\n            except KeyError:\n                ind = texdata_ind[mat_key] = next_ind", 'expect': 'C11.L19'},
    {'id': 'ok_texdata_deduplicated_by_all_fields', 'file': 'bsp.py', 'find': "            try:\n                ind = texdata_ind[tdat]\n            except KeyError:\n                ind = texdata_ind[tdat] = next_ind", 'replace': "            full_key = (tdat.mat, tdat.reflectivity, tdat.width, tdat.height)\n            try:\n                ind = texdata_ind[full_key]\n            except KeyError:\n                ind = texdata_ind[full_key] = next_ind", 'expect': None},
    {'id': 'texdata_index_from_list_length', 'file': 'bsp.py', 'find': "                ind = texdata_ind[tdat] = next_ind\n                next_ind += 1\n", 'replace': "                ind = texdata_ind[tdat] = len(texdata_list) // 2\n", 'expect': 'C11.L18'},
    {'id': 'ents_output_if_four_or_more_commas', 'file': 'bsp.py', 'find': "            elif value.count(',') == 4:", 'replace': "            elif value.count(',') >= 4:", 'expect': 'C11.L16'},
    {'id': 'surfedge_slot0_reserved_conditionally', 'file': 'bsp.py', 'find': "        edges: list[Edge] = [Edge(first_vert, first_vert)]\n", 'replace': "        edges: list[Edge] = []\n        if surf_edges and isinstance(surf_edges[0], RevEdge):\n            edges.append(Edge(first_vert, first_vert))\n", 'expect': 'C11.L17'},
    {'id': 'bmodel_phys_skipped_without_solids', 'file': 'bsp.py', 'find': "            if model.phys_keyvalues is not None:\n                kvs = model.phys_keyvalues.serialise().encode('ascii') + b'\\x00'\n            else:\n                kvs = b'\\x00'\n                if not model._phys_solids:\n                    continue  # No physics info.", 'replace': "            if not model._phys_solids:\n                continue\n            if model.phys_keyvalues is not None:\n                kvs = model.phys_keyvalues.serialise().encode('ascii') + b'\\x00'\n            else:\n                kvs = b'\\x00'", 'expect': 'C11.L14'},
    {'id': 'overlay_levels_only_for_l4d2', 'file': 'bsp.py', 'find': "        self.lumps[BSP_LUMPS.OVERLAY_SYSTEM_LEVELS].data = levels_buf.getvalue()", 'replace': "        if self.version >= VERSIONS.L4D2:\n            self.lumps[BSP_LUMPS.OVERLAY_SYSTEM_LEVELS].data = levels_buf.getvalue()", 'expect': 'C11.L15'},
    {'id': 'find_or_extend_tail_prefix', 'file': 'binformat.py', 'find': "                if i + len(items) <= len(item_list) and all(", 'replace': "                if all(", 'expect': 'C11.L13'},
    {'id': 'nodes_snapshot_loop', 'file': 'bsp.py', 'find': "        for node in nodes:\n", 'replace': "        for node in list(nodes):\n", 'expect': 'C11.L12'},
    {'id': 'rle_decode_bounded_search', 'file': 'bsp.py', 'find': "            zero_ind = data.index(0x00, pos)\n        except ValueError:\n            # No more zeros.\n            result += view[pos:]", 'replace': "            zero_ind = data.index(0x00, pos, start + ret_bytes)\n        except ValueError:\n            # No more zeros.\n            result += view[pos:]", 'expect': 'C11.L7'},
    {'id': 'prop_fades_swapped', 'file': 'bsp.py', 'find': "                prop.min_fade,\n                prop.max_fade,\n", 'replace': "                prop.max_fade,\n                prop.min_fade,\n", 'expect': 'C11.L3'},
    {'id': 'plane_normal_yx', 'file': 'bsp.py', 'find': "                plane.normal.x, plane.normal.y, plane.normal.z,\n                plane.dist,", 'replace': "                plane.normal.y, plane.normal.x, plane.normal.z,\n                plane.dist,", 'expect': 'C11.L3'},
    {'id': 'node_area_from_plane', 'file': 'bsp.py', 'find': "len(node.faces), node.area_ind,", 'replace': "len(node.faces), node.plane.type.value,", 'expect': 'C11.L3'},
    {'id': 'lightmap_flags_primary_only', 'file': 'bsp.py', 'find': "                    '<IHH',\n                    prop.flags.value,\n", 'replace': "                    '<IHH',\n                    prop.flags.value_prim,\n", 'expect': 'C11.L10'},
    {'id': 'secondary_flags_shift', 'file': 'bsp.py', 'find': "                flags |= struct_read('<I', static_lump)[0] << 8", 'replace': "                flags |= struct_read('<I', static_lump)[0] << 16", 'expect': 'C11.L10'},
    {'id': 'value_sec_shift_changed', 'file': 'bsp.py', 'find': "        return self.value >> 8", 'replace': "        return self.value >> 16", 'expect': 'C11.L10'},
    {'id': 'pool_search_unterminated', 'file': 'bsp.py', 'find': "            ind = data.find(string)", 'replace': "            ind = data.find(string[:-1])", 'expect': 'C11.L11'},
    {'id': 'pool_append_augassign', 'file': 'bsp.py', 'find': "                data.extend(string)", 'replace': "                data += string", 'expect': None, 'note': 'negative control: same bytes appended'},
    {'id': 'shape_after_sprite', 'file': 'bsp.py', 'find': "            elif isinstance(prop, DetailPropShape):", 'replace': "            elif isinstance(prop, DetailPropSprite) or isinstance(prop, DetailPropShape):", 'expect': None, 'note': 'unrecognised chain shape is not flagged', 'skip': True},
    {'id': 'model_len_check_removed', 'file': 'bsp.py', 'find': "            if len(name) > 128:\n                raise OverflowError(f'Static prop model", 'replace': "            if False:\n                raise OverflowError(f'Static prop model", 'expect': 'C11.L6'},
    {'id': 'ent_key_unescaped', 'file': 'bsp.py', 'find': "out.write(f'\"{escape_text(key)}\" ", 'replace': "out.write(f'\"{key}\" ", 'expect': 'C11.L8'},
    {'id': 'plane_dist_double', 'file': 'bsp.py', 'find': "            struct.pack(\n                '<ffffi',\n                plane.normal.x,", 'replace': "            struct.pack(\n                '<fffdi',\n                plane.normal.x,", 'expect': 'C11.L1'},
    {'id': 'leaf_chaos_layout', 'file': 'bsp.py', 'find': "    \"LEAFWATERDATA\":    struct.Struct('<ffI'),", 'replace': "    \"LEAFWATERDATA\":    struct.Struct('<ffI'),\n    \"BRUSHSIDE\":        struct.Struct('<IiiH'),", 'expect': None, 'note': 'negative control: layout table changes apply to reader and writer alike'},
    {'id': 'writer_literal_instead_of_layout', 'file': 'bsp.py', 'find': "            yield self.lump_layout['LEAFWATERDATA'].pack(info.surface_z", 'replace': "            yield struct.pack('<ffH2x', info.surface_z", 'expect': 'C11.L1'},
    {'id': 'texdata_view_dims_dropped', 'file': 'bsp.py', 'find': "                if not self.is_vitamin:\n                    texdata_list.append(struct.pack('<2i', tdat.width, tdat.height))", 'replace': "                if self.is_vitamin:\n                    texdata_list.append(struct.pack('<2i', tdat.width, tdat.height))", 'expect': 'C11.L1'},
    {'id': 'overlay_pad_wrong', 'file': 'bsp.py', 'find': "f'<{face_cnt}i {4*(OVERLAY_FACE_COUNT-face_cnt)}x'", 'replace': "f'<{face_cnt}i {2*(OVERLAY_FACE_COUNT-face_cnt)}x'", 'expect': None, 'note': 'idiom no longer recognised -> analysis error, not a verdict', 'skip': True},
    {'id': 'node_arity', 'file': 'bsp.py', 'find': "        for first_side, side_count, contents in struct.iter_unpack('<iii', data):", 'replace': "        for first_side, side_count in struct.iter_unpack('<iii', data):", 'expect': 'C11.L2'},
    {'id': 'staticprop_v9_gate', 'file': 'bsp.py', 'find': "            if vers_num >= 9 and not version.is_lightmap:\n                # The 1-byte bool gets expanded to the full 4-byte size.", 'replace': "            if vers_num >= 10 and not version.is_lightmap:\n                # The 1-byte bool gets expanded to the full 4-byte size.", 'expect': 'C11.L4'},
    {'id': 'staticprop_size_table', 'file': 'bsp.py', 'find': "    V9 = (9, 72)  #: L4D2, adds disableX360.", 'replace': "    V9 = (9, 76)  #: L4D2, adds disableX360.", 'expect': 'C11.L4'},
    {'id': 'rle_count_254', 'file': 'bsp.py', 'find': "            result.append(min(255, dist))\n            dist -= 255", 'replace': "            result.append(min(255, dist))\n            dist -= 256", 'expect': 'C11.L7'},
    {'id': 'ent_value_unescaped', 'file': 'bsp.py', 'find': "\"{escape_text(value, True)}\"\\n'.encode", 'replace': "\"{value}\"\\n'.encode", 'expect': 'C11.L8'},
    {'id': 'ent_reader_no_escapes', 'file': 'bsp.py', 'find': "tok = Tokenizer(ent_data.decode('ascii', 'surrogateescape'), allow_escapes=True)", 'replace': "tok = Tokenizer(ent_data.decode('ascii', 'surrogateescape'), allow_escapes=False)", 'expect': 'C11.L8'},
    {'id': 'phys_sentinel_zero', 'file': 'bsp.py', 'find': "        phys_buf.write(struct.pack('<iiii', -1, 0, 0, 0))", 'replace': "        phys_buf.write(struct.pack('<iiii', 0, 0, 0, 0))", 'expect': 'C11.L9'},
]
MUTANTS = [m for m in MUTANTS if not m.get('skip')]
