"""C12 - atomic file replacement (DESIGN.md C12).

  W1  the destination is touched once: inside AtomicWriter `self.filename` is only the receiver of .parent.mkdir / .with_name
      (pure) and the *argument* of `<temp>.replace(...)`; it is never opened, truncated, unlinked or renamed from.
      Given atomic rename(2) (assumption), the destination holds old or new contents at every kill point.
  W2  commit ordering (CFG path rule): every path of __exit__ that reaches replace() has closed the temp handle first and is on
      the `exc_type is None` side.
  W3  no leak on handled failure (CFG with exceptional edges): on every path through __exit__ on which replace() did not
      complete - including exceptional exits of close and replace themselves - an unlink of the temp file is attempted (paths
      where no temp file was ever created are exempt).
  W4  temp creation: sibling of the destination (`self.filename.with_name(...)`, same directory so the rename cannot cross
      file systems), opened with an exclusive mode in both arms, retry only on FileExistsError; re-entry closes and unlinks
      the previous temp file.
  W5  BSP.save: every write/seek inside the `with AtomicWriter(...)` body targets the handle bound by the with (directly or via
      DeferredWrites(file)); bsp.py opens no other file for writing in save().
"""
from __future__ import annotations

import ast
from typing import Any, Dict, List, Optional, Set, Tuple

from engine.srcmatch import U
from engine.cfg import build_cfg, calls_in_stmt
from engine.model import AnalysisError, Program, dotted, walk_no_nested

LEVEL = 'other'

RAISING = {'__exit__', 'close', 'replace', 'unlink', 'flush', 'rename', 'write'}


def may_raise(node: ast.AST) -> bool:
    for c in calls_in_stmt(node):
        if isinstance(c.func, ast.Attribute) and c.func.attr in RAISING:
            return True
    return False


READ_ONLY_PROBES = {'stat', 'lstat', 'exists', 'is_file', 'isfile', 'getsize', 'getmtime'}


def _anc12(mod: Any, n: ast.AST, stop: Any) -> List[ast.AST]:
    out = []
    p = mod.parents.get(n)
    while p is not None and p is not stop:
        out.append(p)
        p = mod.parents.get(p)
    return out


def run(ctx: Any, prog: Program) -> None:
    core = prog.module('__init__')
    bsp = prog.module('bsp')
    ctx.assumptions += ['os.replace / rename(2) is atomic within one directory', 'exclusive creation (mode "x") fails with FileExistsError when the name is taken']
    ctx.not_decided += ['interleavings of two processes beyond exclusive creation of the temp name', 'fsync / power loss (the property speaks of process kill)',
                        'behaviour of the operating system rename']
    ctx.rule('C12.W1', 'the destination path is only ever the target of the final replace()', floor=3)
    ctx.rule('C12.W2', 'replace() is reached only after the temp handle was closed and only when no exception occurred', floor=2)
    ctx.rule('C12.W3', 'every exit of __exit__ without a completed replace() attempts to unlink the temp file', floor=1)
    ctx.rule('C12.W4', 'temp file: sibling name, exclusive open in both modes, retry only on FileExistsError, re-entry cleans up', floor=5)
    ctx.rule('C12.W5', 'BSP.save writes only through the AtomicWriter handle', floor=5)

    aw = core.methods('AtomicWriter')

    def temp_aliases(fn_: ast.AST) -> Set[str]:
        # locals that hold the temp path: `temp_name = self._temp_name`
        return {t.id for a in walk_no_nested(fn_) if isinstance(a, ast.Assign) and dotted(a.value) == 'self._temp_name' for t in a.targets if isinstance(t, ast.Name)}

    def is_temp_path(e: ast.AST, fn_: ast.AST) -> bool:
        return dotted(e) == 'self._temp_name' or (isinstance(e, ast.Name) and e.id in temp_aliases(fn_))
    # ---- W1 ----------------------------------------------------------------------------------------------
    for name, fn in aw.items():
        for n in walk_no_nested(fn):
            if isinstance(n, ast.Attribute) and n.attr == 'filename' and dotted(n.value) == 'self':
                par = core.parents.get(n)
                ok = False
                how = U(par)[:60] if par is not None else ''
                if isinstance(par, ast.Assign) and n in par.targets and name == '__init__':
                    ok = True
                elif isinstance(par, ast.Attribute) and par.attr in ('parent', 'with_name', 'name', 'stem', 'suffix'):
                    ok = True        # pure path arithmetic / creating the parent directory
                elif isinstance(par, ast.Attribute) and par.attr in READ_ONLY_PROBES:
                    ok = True        # self.filename.stat() etc: reads metadata, cannot change the destination
                elif isinstance(par, ast.Call) and n in par.args and (dotted(par.func) or '').split('.')[-1] in READ_ONLY_PROBES:
                    ok = True        # os.stat(self.filename) etc
                elif isinstance(par, ast.Call) and isinstance(par.func, ast.Attribute) and par.func.attr == 'replace' and n in par.args \
                        and is_temp_path(par.func.value, fn):
                    ok = True
                elif isinstance(par, ast.FormattedValue) or (isinstance(par, ast.Call) and dotted(par.func) in ('repr', 'str')):
                    ok = True
                ctx.check('C12.W1', ok, core, n, f'self.filename used as `{how}`: the destination may only be the argument of the final <temp>.replace(); '
                          'opening/truncating/unlinking it breaks "old or new contents, never a mixture"', func=f'AtomicWriter.{name}', text=f'{name}: filename in {how}')
    # ---- W3 (entry side): once make_tempfile() created the file, __enter__ may not fail without removing it - __exit__ is never
    # called when __enter__ raises.  Every call after it (other than handing out the handle) must sit in a try with a broad handler.
    en = aw.get('__enter__')
    if en is None:
        raise AnalysisError('AtomicWriter.__enter__ not found')
    # a failure of make_tempfile() itself: the name in `_temp_name` is then one whose exclusive creation did NOT succeed (the name is assigned
    # before the open in the scanning loop) - it may be another writer's live temp file, so nothing may unlink it here
    for tr_ in [t for t in ast.walk(en) if isinstance(t, ast.Try) and any(isinstance(c_, ast.Call) and dotted(c_.func) == 'self.make_tempfile' for b_ in t.body for c_ in ast.walk(b_))]:
        for h_ in tr_.handlers:
            ul = [c_ for b_ in h_.body for c_ in ast.walk(b_) if isinstance(c_, ast.Call) and isinstance(c_.func, ast.Attribute) and (c_.func.attr == 'unlink' or (dotted(c_.func.value) == 'self' and c_.func.attr in
                  {m_ for m_, f_ in aw.items() if any(isinstance(x_, ast.Call) and isinstance(x_.func, ast.Attribute) and x_.func.attr == 'unlink' for x_ in ast.walk(f_))}))]
            ctx.check('C12.W4', not ul, core, ul[0] if ul else h_, f'__enter__ unlinks the temp name when make_tempfile() fails (`{U(ul[0])[:40] if ul else ""}`): at that point `_temp_name` is the name whose exclusive open has just failed '
                      '(EMFILE, EACCES ...), i.e. possibly the live temp file of another writer in the same directory, which is then deleted', func='AtomicWriter.__enter__', text='no unlink of a name this writer did not create')
    mk = [i for i, st in enumerate(en.body) if (isinstance(st, ast.Expr) and isinstance(st.value, ast.Call) and dotted(st.value.func) == 'self.make_tempfile')
          or (isinstance(st, ast.Try) and any(isinstance(c_, ast.Call) and dotted(c_.func) == 'self.make_tempfile' for b_ in st.body for c_ in ast.walk(b_)))]
    ctx.shape('C12.W3', len(mk) == 1, core, en, '__enter__ calls self.make_tempfile() once as a top-level statement', func='AtomicWriter.__enter__')
    if len(mk) == 1:
        BROAD = {None, 'BaseException', 'Exception', 'OSError'}
        def broad_try(call: ast.AST) -> bool:
            cur = core.parents.get(call)
            prev = call
            while cur is not None and cur is not en:
                if isinstance(cur, ast.Try) and any(prev is b or any(prev is x for x in ast.walk(b)) for b in cur.body):
                    for h in cur.handlers:
                        names = [None] if h.type is None else [dotted(e) for e in (h.type.elts if isinstance(h.type, ast.Tuple) else [h.type])]
                        if any(nm in BROAD or (nm or '').split('.')[-1] in BROAD for nm in names):
                            return True
                prev, cur = cur, core.parents.get(cur)
            return False
        n_after = 0
        for st in en.body[mk[0] + 1:]:
            if isinstance(st, ast.Assert):
                continue
            for c in ast.walk(st):
                if isinstance(c, ast.Call):
                    if isinstance(st, ast.Return) and c is st.value and isinstance(c.func, ast.Attribute) and c.func.attr == '__enter__' and dotted(c.func.value) == 'self.temp':
                        continue
                    inner = [x for x in ast.walk(c) if isinstance(x, ast.Call) and x is not c]
                    n_after += 1
                    ctx.check('C12.W3', broad_try(c), core, c, f'`{U(c)[:60]}` runs after the temp file exists; if it raises, __enter__ fails, __exit__ is never called and the '
                              'temp file is left behind (only a try with a broad handler protects it)', func='AtomicWriter.__enter__', text=f'call after make_tempfile: {U(c.func)}')
        ctx.check('C12.W3', True, core, en, '__enter__ does nothing fallible between creating the temp file and returning it', func='AtomicWriter.__enter__', text='enter after make_tempfile')
    # ---- W2 / W3 on the CFG of __exit__ ----------------------------------------------------------------------
    ex = aw.get('__exit__')
    if ex is None:
        raise AnalysisError('AtomicWriter.__exit__ not found')
    g = build_cfg(ex, may_raise)

    ex_alias = temp_aliases(ex)
    # private helpers that do the unlinking (`self._discard()`): a call of one counts as the unlink it contains
    unlink_helpers = {m_ for m_, f_ in aw.items() if m_.startswith('_') and not m_.startswith('__') and any(isinstance(c_, ast.Call) and isinstance(c_.func, ast.Attribute) and c_.func.attr == 'unlink' for c_ in ast.walk(f_))}

    def has_call(node: Any, attr: str, recv_contains: Optional[str] = None) -> bool:
        for c in calls_in_stmt(node.stmt):
            if attr == 'unlink' and isinstance(c.func, ast.Attribute) and dotted(c.func.value) == 'self' and c.func.attr in unlink_helpers:
                return True
            if isinstance(c.func, ast.Attribute) and c.func.attr == attr:
                if recv_contains is None or recv_contains in U(c.func.value) or (recv_contains == '_temp_name' and isinstance(c.func.value, ast.Name) and c.func.value.id in ex_alias):
                    return True
        return False
    replace_nodes = [n for n in g.nodes if n.kind in ('stmt', 'return') and has_call(n, 'replace', '_temp_name')]
    unlink_nodes = [n for n in g.nodes if n.kind in ('stmt', 'return') and has_call(n, 'unlink')]
    close_nodes = [n for n in g.nodes if n.kind in ('stmt', 'return') and (has_call(n, '__exit__', 'temp') or has_call(n, 'close', 'temp'))]
    # the commit must be ONE atomic rename.  Anything that can fall back to copying (shutil.move, copyfile, writing the bytes over) fills the
    # destination in place: a fault or kill in the middle leaves neither the old nor the new contents
    for c in ast.walk(ex):
        if isinstance(c, ast.Call) and (dotted(c.func) or '').split('.')[-1] in ('move', 'copy', 'copy2', 'copyfile', 'copyfileobj', 'copytree') and 'shutil' in (dotted(c.func) or '') \
                and any('filename' in U(a) for a in c.args):
            ctx.check('C12.W2', False, core, c, f'`{U(c)[:70]}` commits with {dotted(c.func)}(), which silently falls back to copying over the destination when the rename fails (and moves INTO an existing directory): '
                      'the destination is then rewritten in place instead of being replaced atomically', func='AtomicWriter.__exit__', text='commit is an atomic rename')
    # who may commit: __exit__ with a None exception type is the with-statement saying "the body finished".  A finalizer that gets there
    # (directly or through close()) commits a half-written temp file when an abandoned writer is garbage collected
    aw_calls: Dict[str, Set[str]] = {m_: {c.func.attr for c in ast.walk(f_) if isinstance(c, ast.Call) and isinstance(c.func, ast.Attribute) and dotted(c.func.value) == 'self'} for m_, f_ in aw.items()}
    committers = {m_ for m_, f_ in aw.items() if any(isinstance(c, ast.Call) and dotted(c.func) == 'self.__exit__' and c.args and isinstance(c.args[0], ast.Constant) and c.args[0].value is None for c in ast.walk(f_))}
    reach: Set[str] = set()
    todo = ['__del__'] if '__del__' in aw else []
    while todo:
        m_ = todo.pop()
        if m_ in reach:
            continue
        reach.add(m_)
        todo += [x for x in aw_calls.get(m_, ()) if x in aw]
    bad = sorted(reach & committers)
    ctx.check('C12.W2', not bad, core, aw[bad[0]] if bad else ex, (f'AtomicWriter.__del__ reaches {bad[0]}(), which calls self.__exit__(None, ...): a writer that is dropped while still open (an error before the commit, no `with`) '
              'renames its partial temp file over the destination - an abandoned write must leave the previous contents') if bad else 'no finalizer commits', func='AtomicWriter', text='only a completed with-body commits')
    if len({id(n.stmt) for n in replace_nodes}) != 1:
        raise AnalysisError(f'AtomicWriter.__exit__: expected exactly one replace() statement, found {len(replace_nodes)}')
    # the close must have SUCCEEDED: closing flushes the last buffered data, and an OSError from it means the temp file is incomplete.
    # A handler around the close that does not re-raise lets __exit__ go on to rename the truncated file over the destination.
    for cn in close_nodes:
        cur_ = core.parents.get(cn.stmt)
        child_ = cn.stmt
        while cur_ is not None and cur_ is not ex:
            if isinstance(cur_, ast.Try) and child_ in cur_.body:
                for h in cur_.handlers:
                    names_ = [None] if h.type is None else [(dotted(e) or '').split('.')[-1] for e in (h.type.elts if isinstance(h.type, ast.Tuple) else [h.type])]
                    catches_io = any(nm in (None, 'OSError', 'IOError', 'Exception', 'BaseException', 'EnvironmentError') for nm in names_)
                    reraises = bool(h.body) and isinstance(h.body[-1], ast.Raise)
                    if catches_io:
                        ctx.check('C12.W2', reraises, core, h, f'the error of closing the temp file (its final flush) is caught by `except {U(h.type) if h.type else ""}:` and not re-raised: __exit__ then sees no exception and '
                                  'renames a truncated temp file over the destination (a second close() of an already closed file object is a silent no-op)', func='AtomicWriter.__exit__', text='a failed close is not swallowed')
            child_, cur_ = cur_, core.parents.get(cur_)
    # W2a: on every path to replace, either the `self.temp is not None` test was false or a close node was passed
    temp_tests = [n for n in g.nodes if n.kind == 'test' and 'self.temp is not None' in U(n.stmt)]
    removed = {n.id for n in close_nodes}
    removed_edges = {(t.id, m, lab) for t in temp_tests for m, lab in g.succ[t.id] if lab == 'false'}
    p = g.find_path_flags(g.entry, {n.id for n in replace_nodes}, removed_nodes=removed, removed_edges=removed_edges)
    ctx.check('C12.W2', p is None, core, replace_nodes[0].stmt, 'replace() is reachable while the temp handle may still be open' + (': ' + g.describe(p) if p else ''),
              func='AtomicWriter.__exit__', text='close before replace')
    # W2b: replace only on the exc_type is None side.  Three-valued evaluation of every test that mentions exc_type under the
    # assumption "the body raised" (exc_type is an exception class): edges that are infeasible then are removed.
    def ev3(t: ast.AST) -> Optional[bool]:
        """True / False / None(=maybe) under exc_type != None"""
        if isinstance(t, ast.Compare) and len(t.ops) == 1 and dotted(t.left) == 'exc_type':
            rhs = t.comparators[0]
            is_none = isinstance(rhs, ast.Constant) and rhs.value is None
            if isinstance(t.ops[0], ast.Is):
                return False if is_none else None
            if isinstance(t.ops[0], ast.IsNot):
                return True if is_none else None
            if isinstance(t.ops[0], (ast.Eq, ast.NotEq)):
                return (isinstance(t.ops[0], ast.NotEq)) if is_none else None
        if isinstance(t, ast.UnaryOp) and isinstance(t.op, ast.Not):
            v = ev3(t.operand)
            return None if v is None else (not v)
        if isinstance(t, ast.BoolOp):
            vals = [ev3(v) for v in t.values]
            if isinstance(t.op, ast.And):
                return False if any(v is False for v in vals) else (True if all(v is True for v in vals) else None)
            return True if any(v is True for v in vals) else (False if all(v is False for v in vals) else None)
        if isinstance(t, ast.Name) and t.id == 'exc_type':
            return True
        if isinstance(t, ast.Name) and t.id in exc_alias:
            return ev3(exc_alias[t.id])
        return None
    # a local assigned once from a test of exc_type (`commit = exc_type is None`) stands for that test
    exc_alias: Dict[str, ast.AST] = {}
    stores_: Dict[str, List[ast.AST]] = {}
    for n_ in walk_no_nested(ex):
        if isinstance(n_, ast.Name) and isinstance(n_.ctx, ast.Store):
            stores_.setdefault(n_.id, []).append(n_)
    for n_ in walk_no_nested(ex):
        if isinstance(n_, ast.Assign) and len(n_.targets) == 1 and isinstance(n_.targets[0], ast.Name) and len(stores_.get(n_.targets[0].id, [])) == 1 \
                and any(isinstance(x, ast.Name) and x.id == 'exc_type' for x in ast.walk(n_.value)):
            exc_alias[n_.targets[0].id] = n_.value
    exc_tests = [n for n in g.nodes if n.kind == 'test' and ('exc_type' in U(n.stmt) or any(isinstance(x, ast.Name) and x.id in exc_alias for x in ast.walk(n.stmt)))]
    if not exc_tests:
        raise AnalysisError('AtomicWriter.__exit__: no test of exc_type found')
    bad_edges = set()
    for t in exc_tests:
        v = ev3(t.stmt)
        for m, lab in g.succ[t.id]:
            if v is True and lab == 'false':
                bad_edges.add((t.id, m, lab))
            elif v is False and lab == 'true':
                bad_edges.add((t.id, m, lab))
    p = g.find_path_flags(g.entry, {n.id for n in replace_nodes}, removed_edges=bad_edges)
    ctx.check('C12.W2', p is None, core, replace_nodes[0].stmt, 'replace() is reachable although the body raised (exc_type is not None)' + (': ' + g.describe(p) if p else ''),
              func='AtomicWriter.__exit__', text='replace only on success')
    # W3: remove unlink nodes, the success edge out of replace, and the `_temp_name is None` early exit; nothing else may reach EXIT/RAISE
    none_tests = [n for n in g.nodes if n.kind == 'test' and ('_temp_name is None' in U(n.stmt) or (isinstance(n.stmt, ast.Compare) and isinstance(n.stmt.left, ast.Name) and n.stmt.left.id in ex_alias
                                                                                                      and len(n.stmt.ops) == 1 and isinstance(n.stmt.ops[0], ast.Is) and isinstance(n.stmt.comparators[0], ast.Constant)
                                                                                                      and n.stmt.comparators[0].value is None))]
    removed_edges = set()
    for t in none_tests:
        for m, lab in g.succ[t.id]:
            if lab == 'true':
                removed_edges.add((t.id, m, lab))
    # the same guard written the other way round: `if self._temp_name is not None: <everything>` - its false edge is the exit without enter
    for n in g.nodes:
        if n.kind == 'test' and isinstance(n.stmt, ast.Compare) and len(n.stmt.ops) == 1 and isinstance(n.stmt.ops[0], ast.IsNot) and isinstance(n.stmt.comparators[0], ast.Constant) \
                and n.stmt.comparators[0].value is None and ((dotted(n.stmt.left) or '').endswith('._temp_name') or (isinstance(n.stmt.left, ast.Name) and n.stmt.left.id in ex_alias)):
            for m, lab in g.succ[n.id]:
                if lab == 'false':
                    removed_edges.add((n.id, m, lab))
    for r in replace_nodes:
        for m, lab in g.succ[r.id]:
            if lab != 'exc':
                removed_edges.add((r.id, m, lab))
    p = g.find_path_flags(g.entry, {g.exit.id, g.raise_.id}, removed_nodes={n.id for n in unlink_nodes}, removed_edges=removed_edges)
    ctx.check('C12.W3', p is None, core, ex, 'a path leaves __exit__ without having replaced the destination and without trying to unlink the temp file, so a handled '
              'failure leaves tmp_N behind' + (': ' + g.describe(p) if p else ''), func='AtomicWriter.__exit__', text='unlink on every non-committing exit')
    # the handle is detached from the writer before (or together with) closing it: if the close raises - a final flush on a full disk - the
    # finally branch unlinks the temp name, and a `self.temp` still pointing at the dead handle makes the re-entry branch of make_tempfile unlink
    # that name AGAIN later, when it may already belong to another writer
    for c_ in walk_no_nested(ex):
        if isinstance(c_, ast.Call) and isinstance(c_.func, ast.Attribute) and c_.func.attr in ('__exit__', 'close') and dotted(c_.func.value) == 'self.temp':
            ctx.check('C12.W3', False, core, c_, f'`{U(c_)[:50]}` closes the handle through self.temp and clears the attribute only afterwards: when the close raises, self.temp keeps naming a temp file that the '
                      'cleanup has already unlinked - re-entering the writer unlinks that name a second time (by then possibly another writer\'s file)', func='AtomicWriter.__exit__', text='handle detached before it is closed')
    # W6: once replace() has succeeded the temp name is no longer this writer's: another writer in the same directory may already have created
    # a file under it (the exclusive open succeeds again as soon as the name is free).  No path from a successful replace() may reach an unlink.
    ctx.rule('C12.W6', 'after a successful replace() the temp name is not touched again (no unlink on the committed path)', floor=1)
    for r in replace_nodes:
        exc_out = {(r.id, m, lab) for m, lab in g.succ[r.id] if lab == 'exc'}
        # what the tests guarding the replace statement say about plain flag names holds when it runs (`if commit: replace()`)
        known: Dict[str, bool] = {}
        ch6: ast.AST = r.stmt
        par6 = core.parents.get(ch6)
        while par6 is not None and par6 is not ex:
            if isinstance(par6, ast.If):
                t6, pol = par6.test, ch6 in par6.body
                if isinstance(t6, ast.UnaryOp) and isinstance(t6.op, ast.Not):
                    t6, pol = t6.operand, not pol
                if isinstance(t6, ast.Name):
                    known[t6.id] = pol
            ch6, par6 = par6, core.parents.get(par6)
        p6 = g.find_path_flags(r, {n.id for n in unlink_nodes}, removed_edges=exc_out, start_vals=known)
        ctx.check('C12.W6', p6 is None, core, unlink_nodes[0].stmt if unlink_nodes and p6 else r.stmt, 'the temp name is unlinked on the path on which replace() succeeded' + (': ' + g.describe(p6) if p6 else '') +
                  ' - by then the name may belong to a second writer (its exclusive create succeeds once the rename freed the name), whose half-written file is deleted',
                  func='AtomicWriter.__exit__', text='no unlink after the commit')
    # W7: replace() is the commit point.  Whatever runs after it on the success path must not be able to fail: an exception there reaches the
    # caller as "the write failed" although the destination already holds the new data (a directory fsync, a logging call on a closed stream)
    ctx.rule('C12.W7', 'nothing that can raise runs after the successful replace() inside __exit__', floor=1)
    for r in replace_nodes:
        exc_out = {(r.id, m, lab) for m, lab in g.succ[r.id] if lab == 'exc'}
        callers7 = {n.id for n in g.nodes if n.id != r.id and n.kind in ('stmt', 'return', 'test') and n.stmt is not None and any(isinstance(c, ast.Call) for c in ast.walk(n.stmt))}
        known7: Dict[str, bool] = {}
        ch7: ast.AST = r.stmt
        par7 = core.parents.get(ch7)
        while par7 is not None and par7 is not ex:
            if isinstance(par7, ast.If):
                t7, pol7 = par7.test, ch7 in par7.body
                if isinstance(t7, ast.UnaryOp) and isinstance(t7.op, ast.Not):
                    t7, pol7 = t7.operand, not pol7
                if isinstance(t7, ast.Name):
                    known7[t7.id] = pol7
            ch7, par7 = par7, core.parents.get(par7)
        p7 = g.find_path_flags(r, callers7, removed_edges=exc_out, start_vals=known7)
        ctx.check('C12.W7', p7 is None, core, g.nodes[p7[-1][0]].stmt if p7 else r.stmt, 'a call runs after replace() has succeeded' + (': ' + g.describe(p7) if p7 else '') +
                  ' - if it raises, the caller is told the write failed while the destination has already been replaced (the previous contents are gone)', func='AtomicWriter.__exit__', text='nothing fallible after the commit')
    # ---- W4 ----------------------------------------------------------------------------------------------
    mt = aw.get('make_tempfile')
    if mt is None:
        raise AnalysisError('AtomicWriter.make_tempfile not found')
    assigns = [n for n in walk_no_nested(mt) if isinstance(n, ast.Assign) and any(dotted(t) == 'self._temp_name' for t in n.targets)]
    ok = bool(assigns) and all(isinstance(a.value, ast.Call) and isinstance(a.value.func, ast.Attribute) and a.value.func.attr == 'with_name'
                                and dotted(a.value.func.value) == 'self.filename' for a in assigns)
    ctx.check('C12.W4', ok, core, assigns[0] if assigns else mt, 'the temp path must be self.filename.with_name(...): same directory as the destination, so replace() never crosses file systems',
              func='AtomicWriter.make_tempfile', text='temp is a sibling of the destination')
    # open() calls of make_tempfile and of the AtomicWriter helpers it calls (mode parameters resolved from the call sites)
    def helper_calls(fn: ast.AST, seen: Set[str]) -> List[Tuple[str, ast.AST, ast.Call]]:
        out = []
        for c in walk_no_nested(fn):
            if isinstance(c, ast.Call) and isinstance(c.func, ast.Attribute) and dotted(c.func.value) == 'self' and c.func.attr in aw and c.func.attr not in seen:
                seen.add(c.func.attr)
                out.append((c.func.attr, aw[c.func.attr], c))
                out += helper_calls(aw[c.func.attr], seen)
        return out
    helpers = helper_calls(mt, {'make_tempfile'})
    open_sites: List[Tuple[ast.AST, ast.Call, List[str]]] = []      # (function, open call, resolved modes)

    def resolve_modes(fn: ast.AST, mode: Optional[ast.AST]) -> Optional[List[str]]:
        if isinstance(mode, ast.Constant) and isinstance(mode.value, str):
            return [mode.value]
        if isinstance(mode, ast.BinOp) and isinstance(mode.op, ast.Add):
            l, r = resolve_modes(fn, mode.left), resolve_modes(fn, mode.right)
            return None if l is None or r is None else [a + b for a in l for b in r]
        if isinstance(mode, ast.IfExp):
            l, r = resolve_modes(fn, mode.body), resolve_modes(fn, mode.orelse)
            return None if l is None or r is None else l + r
        if isinstance(mode, ast.Name):
            params = [a.arg for a in fn.args.args]
            if mode.id not in params:
                # a local: every value it is assigned anywhere in the function (which one is taken may depend on the file system)
                defs_ = [a.value for a in ast.walk(fn) if isinstance(a, ast.Assign) and any(isinstance(t, ast.Name) and t.id == mode.id for t in a.targets)]
                # `mode, encoding = 'xb', None`: the element at the name's position
                for a in ast.walk(fn):
                    if isinstance(a, ast.Assign) and len(a.targets) == 1 and isinstance(a.targets[0], ast.Tuple) and isinstance(a.value, ast.Tuple) and len(a.targets[0].elts) == len(a.value.elts):
                        for t_, v_ in zip(a.targets[0].elts, a.value.elts):
                            if isinstance(t_, ast.Name) and t_.id == mode.id:
                                defs_.append(v_)
                if defs_:
                    out_: List[str] = []
                    for d in defs_:
                        r_ = resolve_modes(fn, d) if not (isinstance(d, ast.Name) and d.id == mode.id) else []
                        if r_ is None:
                            return None
                        out_ += r_
                    return out_ or None
            if mode.id in params:
                idx = params.index(mode.id) - 1
                vals: List[str] = []
                for name, hfn, call in helpers:
                    if hfn is fn:
                        pass
                for cfn in [mt] + [h[1] for h in helpers]:
                    for c in walk_no_nested(cfn):
                        if isinstance(c, ast.Call) and isinstance(c.func, ast.Attribute) and dotted(c.func.value) == 'self' and aw.get(c.func.attr) is fn:
                            arg = c.args[idx] if 0 <= idx < len(c.args) else next((k.value for k in c.keywords if k.arg == mode.id), None)
                            r2 = resolve_modes(cfn, arg)
                            if r2 is None:
                                return None
                            vals += r2
                return vals or None
        return None
    for fnx in [mt] + [h[1] for h in helpers]:
        for c in walk_no_nested(fnx):
            is_open = (isinstance(c, ast.Call) and isinstance(c.func, ast.Attribute) and c.func.attr == 'open') or (isinstance(c, ast.Call) and dotted(c.func) == 'open')
            if not is_open:
                continue
            mode = c.args[0] if isinstance(c.func, ast.Attribute) and c.args else (c.args[1] if len(c.args) > 1 else None)
            for k in c.keywords:
                if k.arg == 'mode':
                    mode = k.value
            modes = resolve_modes(fnx, mode)
            if modes is None:
                raise AnalysisError(f'AtomicWriter: cannot resolve the mode of `{U(c)[:60]}`')
            open_sites.append((fnx, c, modes))
    if not open_sites:
        raise AnalysisError('make_tempfile: no open() call found (directly or in a helper)')
    for fnx, c, modes in open_sites:
        bad = [m for m in modes if 'x' not in m or 'w' in m or 'a' in m or '+' in m and 'x' not in m]
        ctx.check('C12.W4', not bad, core, c, f'temp file may be opened with mode(s) {bad or modes}: exclusive creation ("x") is what keeps concurrent writers in one directory '
                  'from clobbering each other\'s temp files (a remembered name may meanwhile belong to another writer)', func=f'AtomicWriter.{getattr(fnx, "name", "?")}',
                  text=f'exclusive open {U(c)[:50]}')
        tgt = dotted(c.func.value) if isinstance(c.func, ast.Attribute) else (dotted(c.args[0]) if c.args else None)
        # aliases of the temp path: `name = self._temp_name = ...` / `name = self._temp_name`
        aliases = {'self._temp_name'}
        for n_ in ast.walk(fnx):
            if isinstance(n_, ast.Assign):
                names_ = [dotted(t) for t in n_.targets]
                if 'self._temp_name' in names_ or dotted(n_.value) == 'self._temp_name':
                    aliases |= {x for x in names_ if x}
        # a helper may take the path as a parameter: what every call site passes for it
        hparams = [a.arg for a in getattr(fnx, 'args', ast.arguments(args=[])).args]
        if tgt in hparams[1:]:
            passed = set()
            for cfn in [mt] + [h[1] for h in helpers]:
                for c2 in walk_no_nested(cfn):
                    if isinstance(c2, ast.Call) and isinstance(c2.func, ast.Attribute) and dotted(c2.func.value) == 'self' and aw.get(c2.func.attr) is fnx:
                        i_ = hparams.index(tgt) - 1
                        a_ = c2.args[i_] if 0 <= i_ < len(c2.args) else next((k.value for k in c2.keywords if k.arg == tgt), None)
                        passed.add(dotted(a_) if a_ is not None else None)
            if len(passed) == 1:
                tgt = next(iter(passed))
        if tgt in aliases:
            ctx.check('C12.W4', True, core, c, 'only the temp path may be opened', func=f'AtomicWriter.{getattr(fnx, "name", "?")}', text='open target is the temp path')
            # a local alias stays the recorded name only as long as every assignment to it also assigns self._temp_name (or copies it)
            if tgt != 'self._temp_name':
                for n_ in ast.walk(fnx):
                    if isinstance(n_, ast.Assign) and any(dotted(t) == tgt for t in n_.targets):
                        together = any(dotted(t) == 'self._temp_name' for t in n_.targets) or dotted(n_.value) == 'self._temp_name'
                        nxt_ = None
                        par_ = core.parents.get(n_)
                        for fld_ in ('body', 'orelse', 'finalbody'):
                            blk_ = getattr(par_, fld_, None)
                            if isinstance(blk_, list) and n_ in blk_ and blk_.index(n_) + 1 < len(blk_):
                                nxt_ = blk_[blk_.index(n_) + 1]
                        synced = isinstance(nxt_, ast.Assign) and any(dotted(t) == 'self._temp_name' for t in nxt_.targets) and dotted(nxt_.value) == tgt
                        ctx.check('C12.W4', together or synced, core, n_, f'`{U(n_)[:70]}` moves the local `{tgt}` - the path that is opened - on to another name without recording it in self._temp_name: after a name '
                                  'collision the writer holds one file open and later renames (or unlinks) a different one, which belongs to another writer or a crashed run',
                                  func=f'AtomicWriter.{getattr(fnx, "name", "?")}', text='the name opened is the name recorded')
        elif tgt in ('self.filename', 'self._filename'):
            ctx.check('C12.W4', False, core, c, f'`{U(c)[:60]}` opens the destination itself: the old content is destroyed before the new one is complete', func=f'AtomicWriter.{getattr(fnx, "name", "?")}', text='open target is the temp path')
        else:
            ctx.shape('C12.W4', False, core, c, f'open target `{tgt}` not recognised', func=f'AtomicWriter.{getattr(fnx, "name", "?")}', text='open target is the temp path')
    # the try statements that contain the open() of the temp file (a read-only probe in its own try is a different matter)
    opening_helpers = {getattr(fnx, 'name', '') for fnx, _c, _m in open_sites if fnx is not mt}
    tries = [n for n in walk_no_nested(mt) if isinstance(n, ast.Try) and any(isinstance(c, ast.Call) and isinstance(c.func, ast.Attribute) and (c.func.attr == 'open' or (dotted(c.func.value) == 'self' and c.func.attr in opening_helpers))
                                                                             for b in n.body for c in ast.walk(b))]
    ok = len(tries) == 1 and len(tries[0].handlers) == 1 and dotted(tries[0].handlers[0].type) == 'FileExistsError'
    ctx.check('C12.W4', ok, core, tries[0] if tries else mt, 'the name search may only continue on FileExistsError (any other error must propagate)', func='AtomicWriter.make_tempfile', text='retry only on FileExistsError')
    first_if = [n for n in mt.body if isinstance(n, ast.If)]
    if first_if and 'self.temp is not None' in U(first_if[0].test):
        rets_ = [r for b_ in first_if[0].body for r in ast.walk(b_) if isinstance(r, ast.Return)]
        ctx.check('C12.W4', not rets_, core, rets_[0] if rets_ else first_if[0], 'make_tempfile returns from its re-entry block and keeps the old handle: a handle that was written to keeps its file position (truncate() does not rewind), '
                  'so the next complete write lands behind a gap of NUL bytes and the committed file is neither the old nor the new contents', func='AtomicWriter.make_tempfile', text='re-entry opens a fresh temp file')
    ok = bool(first_if) and 'self.temp is not None' in U(first_if[0].test) and any(has for has in ['close' in U(first_if[0]) and 'unlink' in U(first_if[0])])
    ctx.shape('C12.W4', ok, core, first_if[0] if first_if else mt, 're-entering the writer must close and unlink the previous temp file', func='AtomicWriter.make_tempfile', text='re-entry cleanup')
    # ---- W5 ----------------------------------------------------------------------------------------------
    save = bsp.func('BSP.save')
    def _candidates(expr):
        # the context manager expression itself, or every value the local it names is assigned in save()
        if isinstance(expr, ast.Name):
            vals = [a.value for a in walk_no_nested(save) if isinstance(a, (ast.Assign, ast.AnnAssign)) and a.value is not None
                    and any(isinstance(t, ast.Name) and t.id == expr.id for t in (a.targets if isinstance(a, ast.Assign) else [a.target]))]
            return vals or [expr]
        return [expr]

    def _is_aw(v):
        return isinstance(v, ast.Call) and dotted(v.func) == 'AtomicWriter'

    def _is_open(v):
        return isinstance(v, ast.Call) and (dotted(v.func) in ('open', 'io.open') or (isinstance(v.func, ast.Attribute) and v.func.attr == 'open'))

    def _expand(v):
        if isinstance(v, ast.IfExp):
            return _expand(v.body) + _expand(v.orelse)
        if isinstance(v, ast.BoolOp):
            return [x for e in v.values for x in _expand(e)]
        return [v]

    withs = []
    for n in walk_no_nested(save):
        if isinstance(n, ast.With):
            for i in n.items:
                cands = [x for c in _candidates(i.context_expr) for x in _expand(c)]
                if any(_is_aw(c) or _is_open(c) for c in cands):
                    withs.append((n, i, cands))
    for wn, wi, wc in withs:
        for c in wc:
            ctx.check('C12.W5', _is_aw(c), bsp, c, f'BSP.save opens an output with `{U(c)[:60]}`; the destination must only be written through AtomicWriter', func='BSP.save', text='output context manager')
    main = [t for t in withs if any(_is_aw(c) for c in t[2])]
    if len(main) != 1:
        raise AnalysisError('BSP.save: expected exactly one `with AtomicWriter(...)` block')
    w, item, cands = main[0]
    cands = [c for t in withs for c in t[2]]
    aw_calls = [c for c in cands if _is_aw(c)]
    handle = item.optional_vars.id if isinstance(item.optional_vars, ast.Name) else None
    # leaving the `with` body normally IS the commit: a `return` in the middle of it - before everything has been written - makes __exit__ see
    # `exc_type is None` and replace the destination with what there is so far (an empty or half-written file).  Abandoning a save has to raise.
    ctx.rule('C12.W8', 'the body of `with AtomicWriter(...)` in BSP.save is left early only by an exception, never by return/break', floor=1)
    early = []
    for r_ in [x for st in w.body for x in ast.walk(st) if isinstance(x, (ast.Return, ast.Break)) and not any(isinstance(a_, (ast.FunctionDef, ast.Lambda, ast.For, ast.While)) and isinstance(x, ast.Break) for a_ in _anc12(bsp, x, w))]:
        if any(isinstance(a_, (ast.FunctionDef, ast.AsyncFunctionDef, ast.Lambda)) for a_ in _anc12(bsp, r_, w)):
            continue
        later_writes = [c for st in w.body for c in ast.walk(st) if isinstance(c, ast.Call) and isinstance(c.func, ast.Attribute) and c.func.attr in ('write', 'writelines') and c.lineno > r_.lineno]
        if later_writes:
            early.append(r_)
    ctx.check('C12.W8', not early, bsp, early[0] if early else w, f'BSP.save leaves the `with AtomicWriter` block by `{U(early[0]) if early else ""}` before the file is complete: that is a clean exit, so the writer commits - '
              'the destination is replaced by the (still empty) temp file instead of being left alone', func='BSP.save', text='with-body left only by completion or exception')
    kw = {k.arg: k.value for k in aw_calls[0].keywords}
    ok = handle is not None and isinstance(kw.get('is_bytes'), ast.Constant) and kw['is_bytes'].value is True
    ctx.check('C12.W5', ok, bsp, w, 'BSP.save must bind the AtomicWriter handle and open it in bytes mode', func='BSP.save', text='with AtomicWriter(..., is_bytes=True) as file')
    wrappers = {handle}
    for n in ast.walk(w):
        if isinstance(n, ast.Assign) and isinstance(n.value, ast.Call) and any(dotted(a) == handle for a in n.value.args) and isinstance(n.targets[0], ast.Name):
            wrappers.add(n.targets[0].id)      # defer = DeferredWrites(file)
    for n in ast.walk(save):
        if isinstance(n, ast.Call) and isinstance(n.func, ast.Attribute) and n.func.attr in ('write', 'seek', 'truncate', 'writelines'):
            recv = dotted(n.func.value)
            inside = any(n is x for x in ast.walk(w))
            buffers = {a.targets[0].id for a in ast.walk(save) if isinstance(a, ast.Assign) and isinstance(a.value, ast.Call) and dotted(a.value.func) == 'BytesIO' and isinstance(a.targets[0], ast.Name)}
            ok = (inside and recv in wrappers) or recv in buffers
            ctx.check('C12.W5', ok, bsp, n, f'`{U(n)[:60]}` writes to `{recv}`, which is not the AtomicWriter handle (or an in-memory buffer)', func='BSP.save', text=f'write via {recv}')
        if isinstance(n, ast.Call) and _is_open(n) and not any(n is c for c in cands):
            ctx.check('C12.W5', False, bsp, n, 'BSP.save opens a file itself; all output must go through AtomicWriter', func='BSP.save', text='open in save')
    # BSP.save touches the file system through the writer only: a rename / removal of the destination (a backup "moved aside first") empties the
    # destination path before the new contents exist - from then until the writer's final replace() it holds neither old nor new data
    for n in ast.walk(save):
        if isinstance(n, ast.Call) and isinstance(n.func, ast.Attribute) and n.func.attr in ('replace', 'rename', 'renames', 'remove', 'unlink', 'rmtree', 'move', 'truncate', 'rmdir') \
                and (isinstance(n.func.value, ast.Name) and n.func.value.id.lstrip('_') in ('os', 'shutil') or (n.func.attr in ('unlink', 'rename', 'rmdir') and not n.args) or (n.func.attr == 'replace' and len(n.args) == 1 and not isinstance(n.args[0], ast.Constant)
                                                                                                                                                             and isinstance(n.func.value, (ast.Call, ast.Name)) and 'path' in U(n.func.value).lower())):
            ctx.check('C12.W5', False, bsp, n, f'BSP.save calls `{U(n)[:60]}` itself: moving or removing files around the destination outside the atomic writer leaves the destination path without its previous contents '
                      'until (and unless) the new file is committed', func='BSP.save', text='save() renames / removes nothing itself')
    # DeferredWrites writes through the file object it was given
    dw = prog.module('binformat')
    for name, fn in dw.methods('DeferredWrites').items():
        for n in walk_no_nested(fn):
            if isinstance(n, ast.Call) and isinstance(n.func, ast.Attribute) and n.func.attr in ('write', 'seek') and not (dotted(n.func.value) or '').startswith('self.file'):
                ctx.check('C12.W5', False, dw, n, 'DeferredWrites must only write/seek on the file it was constructed with', func=f'DeferredWrites.{name}')
    ctx.check('C12.W5', True, dw, dw.cls('DeferredWrites'), 'DeferredWrites only touches self.file', func='DeferredWrites', text='DeferredWrites target')

    # ---- W9: the writer removes nothing but its own temp file -------------------------------------------------------------------
    # "the previous contents remain" and "concurrent writers to different files in one directory never clobber each other": every
    # destructive file-system call of the class operates on the temp path (the final replace() moves it onto the destination, W1).
    ctx.rule('C12.W9', 'every removing/renaming call of AtomicWriter operates on its own temp file', floor=3)
    DESTRUCTIVE = {'unlink', 'rmtree', 'rmdir', 'remove', 'removedirs', 'rename', 'renames', 'replace', 'move', 'truncate', 'write_bytes', 'write_text', 'copyfile', 'copy', 'copy2'}
    for name, fn in aw.items():
        handles = {t.id for a in walk_no_nested(fn) if isinstance(a, ast.Assign) and any(dotted(e) == 'self.temp' for e in ([a.value] + (list(a.value.elts) if isinstance(a.value, ast.Tuple) else [])))
                   for tt in a.targets for t in ([tt] + (list(tt.elts) if isinstance(tt, ast.Tuple) else [])) if isinstance(t, ast.Name)}
        def _own(e: ast.AST) -> bool:
            if is_temp_path(e, fn):
                return True
            # Path(self.temp.name): the name the open handle was created under
            if isinstance(e, ast.Call) and dotted(e.func) in ('Path', '_os.fspath', 'str') and len(e.args) == 1:
                a0 = e.args[0]
                return _own(a0) or (isinstance(a0, ast.Attribute) and a0.attr == 'name' and (dotted(a0.value) == 'self.temp' or (isinstance(a0.value, ast.Name) and a0.value.id in handles)))
            return False
        for n in walk_no_nested(fn):
            if not (isinstance(n, ast.Call) and isinstance(n.func, ast.Attribute) and n.func.attr in DESTRUCTIVE):
                continue
            recv = n.func.value
            modform = isinstance(recv, ast.Name) and recv.id.lstrip('_') in ('os', 'shutil') or dotted(recv) in ('os.path', '_os.path')
            obj = (n.args[0] if n.args else None) if modform else recv
            if not modform and isinstance(recv, ast.Constant):
                continue
            if not modform and (n.func.attr in ('remove', 'copy', 'move', 'copyfile', 'copy2', 'rmtree', 'removedirs', 'renames') or (n.func.attr == 'replace' and len(n.args) >= 2)):
                continue            # list.remove / dict.copy / str.replace(old, new): not file-system calls (Path.replace takes one argument)
            ctx.check('C12.W9', obj is not None and _own(obj), core, n, f'AtomicWriter.{name} calls `{U(n)[:70]}`: it removes or overwrites `{U(obj)[:40] if obj is not None else "?"}`, which is not the writer\'s own temp file - '
                      'other files (another writer\'s temp file, the previous contents of a folder) are destroyed by a failed or abandoned write', func=f'AtomicWriter.{name}', text=f'{name}: {n.func.attr} on the temp file')
    # ---- W10: the temp file exists only inside the with block -------------------------------------------------------------------
    # __exit__ is the only cleanup.  A temp file created by calling make_tempfile() directly is removed by nobody when something raises
    # before the `with` is entered ("no temporary file is left behind by a handled failure").
    ctx.rule('C12.W10', 'make_tempfile() is called by AtomicWriter.__enter__ only: the temp file exists only while __exit__ is pending', floor=1)
    n_mk = 0
    for mn in prog.module_names():
        m_ = prog.module(mn)
        for n in ast.walk(m_.tree):
            if isinstance(n, ast.Call) and isinstance(n.func, ast.Attribute) and n.func.attr == 'make_tempfile':
                encl = None
                for a_ in _anc12(m_, n, None):
                    if isinstance(a_, (ast.FunctionDef, ast.AsyncFunctionDef)) and encl is None:
                        encl = a_
                ok_ = mn == '__init__' and encl is not None and encl is aw.get('__enter__')
                n_mk += ok_
                ctx.check('C12.W10', ok_, m_, n, f'`{U(n)[:50]}` in {mn}.{getattr(encl, "name", "<module>")} creates the temp file outside `with`: if anything raises before the block is entered, __exit__ never runs and '
                          'the temp file stays behind (and entering the block afterwards creates a second one)', func=f'{mn}.{getattr(encl, "name", "<module>")}', text='make_tempfile called from __enter__')
    if n_mk < 1:
        raise AnalysisError('W10: AtomicWriter.__enter__ no longer calls make_tempfile(): anchor vanished')


MUTANTS = [
    {'id': 'save_moves_old_file_aside', 'file': 'bsp.py', 'find': "        with AtomicWriter(filename or self.filename, is_bytes=True) as file:", 'replace': "        if os.path.isfile(filename or self.filename):\n            os.replace(filename or self.filename, str(filename or self.filename) + '.bak')\n        with AtomicWriter(filename or self.filename, is_bytes=True) as file:", 'expect': 'C12.W5', 'note': 'round 13'},
    {'id': 'exit_removes_created_folder', 'file': '__init__.py', 'find': "                try:\n                    self._temp_name.unlink()\n                except OSError:\n                    pass\n\n        return None  # Don't cancel the exception.", 'replace': "                try:\n                    self._temp_name.unlink()\n                    self.filename.parent.rmdir()\n                except OSError:\n                    pass\n\n        return None  # Don't cancel the exception.", 'expect': 'C12.W9', 'note': 'round 11'},
    {'id': 'save_makes_tempfile_early', 'file': 'bsp.py', 'find': "        with AtomicWriter(filename or self.filename, is_bytes=True) as file:", 'replace': "        writer = AtomicWriter(filename or self.filename, is_bytes=True)\n        writer.make_tempfile()\n        game_lumps = list(self.game_lumps.values())\n        with writer as file:", 'expect': 'C12.W10', 'note': 'round 11'},
    {'id': 'save_returns_inside_the_with_block', 'file': 'bsp.py', 'find': "            if self.version is None:\n                raise ValueError('No version specified for BSP!')", 'replace': "            if self.version is None:\n                return", 'expect': 'C12.W8'},
    {'id': 'exit_closes_through_attribute', 'file': '__init__.py', 'find': "                temp, self.temp = self.temp, None\n                temp.__exit__(exc_type, exc_value, tback)", 'replace': "                self.temp.__exit__(exc_type, exc_value, tback)\n                self.temp = None", 'expect': 'C12.W3'},
    {'id': 'opened_name_not_recorded_after_collision', 'file': '__init__.py', 'find': "        for i in _itertools.count(start=1):\n            self._temp_name = self.filename.with_name(f'tmp_{i}')\n            try:\n                if self.is_bytes:  # type checkers can't narrow self from this!\n                    self.temp = self._temp_name.open('xb')  # type: ignore\n                else:\n                    self.temp = self._temp_name.open('xt', encoding=self.encoding)  # type: ignore\n                break\n            except FileExistsError:\n                pass\n", 'replace': "        self._temp_name = temp_name = self.filename.with_name('tmp_1')\n        for i in _itertools.count(start=2):\n            try:\n                if self.is_bytes:\n                    self.temp = temp_name.open('xb')  # type: ignore\n                else:\n                    self.temp = temp_name.open('xt', encoding=self.encoding)  # type: ignore\n                break\n            except FileExistsError:\n                temp_name = self.filename.with_name(f'tmp_{i}')\n", 'expect': 'C12.W4'},
    {'id': 'ok_opened_name_recorded_after_collision', 'file': '__init__.py', 'find': "        for i in _itertools.count(start=1):\n            self._temp_name = self.filename.with_name(f'tmp_{i}')\n            try:\n                if self.is_bytes:  # type checkers can't narrow self from this!\n                    self.temp = self._temp_name.open('xb')  # type: ignore\n                else:\n                    self.temp = self._temp_name.open('xt', encoding=self.encoding)  # type: ignore\n                break\n            except FileExistsError:\n                pass\n", 'replace': "        self._temp_name = temp_name = self.filename.with_name('tmp_1')\n        for i in _itertools.count(start=2):\n            try:\n                if self.is_bytes:\n                    self.temp = temp_name.open('xb')  # type: ignore\n                else:\n                    self.temp = temp_name.open('xt', encoding=self.encoding)  # type: ignore\n                break\n            except FileExistsError:\n                self._temp_name = temp_name = self.filename.with_name(f'tmp_{i}')\n", 'expect': None, 'refuse_ok': True},
    {'id': 'enter_unlinks_on_failed_tempfile', 'file': '__init__.py', 'find': "        self.make_tempfile()\n        assert self.temp is not None", 'replace': "        try:\n            self.make_tempfile()\n        except BaseException:\n            if self._temp_name is not None:\n                self._temp_name.unlink()\n            raise\n        assert self.temp is not None", 'expect': 'C12.W4'},
    {'id': 'reentry_truncates_old_handle', 'file': '__init__.py', 'find': "            # Already open - close and delete the current file.\n            self.temp.close()\n", 'replace': "            if not self.temp.closed:\n                self.temp.truncate(0)\n                return\n", 'expect': 'C12.W4'},
    {'id': 'exit_syncs_directory_after_replace', 'file': '__init__.py', 'find': "                self._temp_name.replace(self.filename)\n                committed = True\n", 'replace': "                self._temp_name.replace(self.filename)\n                _os.fsync(_os.open(self.filename.parent, _os.O_RDONLY))\n                committed = True\n", 'expect': 'C12.W7'},
    {'id': 'exit_commit_decided_up_front', 'file': '__init__.py', 'find': '        committed = False\n        try:', 'replace': '        commit = exc_type is None\n        try:', 'extra': [{'file': '__init__.py', 'find': '            if exc_type is None:\n                # No exception, commit changes\n                self._temp_name.replace(self.filename)\n                committed = True\n', 'replace': '            if commit:\n                self._temp_name.replace(self.filename)\n'}, {'file': '__init__.py', 'find': '            if not committed:', 'replace': '            if not commit:'}], 'expect': 'C12.W3'},
    {'id': 'ok_exit_body_ok_alias', 'file': '__init__.py', 'find': '        committed = False\n        try:', 'replace': '        committed = False\n        body_ok = exc_type is None\n        try:', 'extra': [{'file': '__init__.py', 'find': '            if exc_type is None:\n                # No exception, commit changes\n', 'replace': '            if body_ok:\n'}], 'expect': None},
    {'id': 'unlink_after_commit', 'file': '__init__.py', 'find': "            if not committed:\n                # An exception occurred in the body, or while closing/renaming. Clean up.\n                try:\n                    self._temp_name.unlink()\n                except OSError:\n                    pass\n", 'replace': "            try:\n                self._temp_name.unlink(missing_ok=True)\n            except OSError:\n                pass\n", 'expect': 'C12.W6'},
    {'id': 'close_error_swallowed', 'file': '__init__.py', 'find': "                temp.__exit__(exc_type, exc_value, tback)\n", 'replace': "                try:\n                    temp.__exit__(exc_type, exc_value, tback)\n                except OSError:\n                    temp.close()\n", 'expect': 'C12.W2'},
    {'id': 'empty_temp_file_taken_over', 'file': '__init__.py', 'find': "                if self.is_bytes:  # type checkers can't narrow self from this!\n                    self.temp = self._temp_name.open('xb')  # type: ignore", 'replace': "                mode = 'w' if self._temp_name.exists() and self._temp_name.stat().st_size == 0 else 'x'\n                if self.is_bytes:  # type checkers can't narrow self from this!\n                    self.temp = self._temp_name.open(mode + 'b')  # type: ignore", 'expect': 'C12.W4'},
    {'id': 'commit_through_shutil_move', 'file': '__init__.py', 'find': "                self._temp_name.replace(self.filename)\n                committed = True", 'replace': "                import shutil\n                shutil.move(self._temp_name, self.filename)\n                committed = True", 'expect': 'C12.W2'},
    {'id': 'finalizer_commits', 'file': '__init__.py', 'find': "        return None  # Don't cancel the exception.\n", 'replace': "        return None  # Don't cancel the exception.\n\n    def close(self) -> None:\n        if self.temp is not None:\n            self.__exit__(None, None, None)\n\n    def __del__(self) -> None:\n        if getattr(self, 'temp', None) is not None:\n            self.close()\n", 'expect': 'C12.W2'},
    {'id': 'explicit_close_only', 'file': '__init__.py', 'find': "        return None  # Don't cancel the exception.\n", 'replace': "        return None  # Don't cancel the exception.\n\n    def close(self) -> None:\n        if self.temp is not None:\n            self.__exit__(None, None, None)\n", 'expect': None},
    {'id': 'direct_open_for_new_file', 'file': 'bsp.py', 'find': "        with AtomicWriter(filename or self.filename, is_bytes=True) as file:", 'replace': "        dest = filename or self.filename\n        out: Any = AtomicWriter(dest, is_bytes=True) if os.path.exists(dest) else open(dest, 'wb')\n        with out as file:", 'expect': 'C12.W5'},
    {'id': 'atomic_writer_via_local', 'file': 'bsp.py', 'find': "        with AtomicWriter(filename or self.filename, is_bytes=True) as file:", 'replace': "        out = AtomicWriter(filename or self.filename, is_bytes=True)\n        with out as file:", 'expect': None},
    {'id': 'fallible_call_after_tempfile', 'file': '__init__.py', 'find': "        self.make_tempfile()\n        assert self.temp is not None\n", 'replace': "        self.make_tempfile()\n        assert self.temp is not None\n        try:\n            _os.chmod(self.temp.name, _os.stat(self.filename).st_mode & 0o777)\n        except FileNotFoundError:\n            pass\n", 'expect': 'C12.W3'},
    {'id': 'protected_call_after_tempfile', 'file': '__init__.py', 'find': "        self.make_tempfile()\n        assert self.temp is not None\n", 'replace': "        self.make_tempfile()\n        assert self.temp is not None\n        try:\n            _os.chmod(self.temp.name, _os.stat(self.filename).st_mode & 0o777)\n        except OSError:\n            pass\n", 'expect': None},
    {'id': 'reopen_remembered_name', 'file': '__init__.py', 'find': "        for i in _itertools.count(start=1):\n            self._temp_name = self.filename.with_name(f'tmp_{i}')", 'replace': "        if self._temp_name is not None:\n            self.temp = self._temp_name.open('wb')\n            return\n        for i in _itertools.count(start=1):\n            self._temp_name = self.filename.with_name(f'tmp_{i}')", 'expect': 'C12.W4'},
    {'id': 'truncate_destination_first', 'file': '__init__.py', 'find': "        # Create folders if needed.\n        self.filename.parent.mkdir(parents=True, exist_ok=True)\n", 'replace': "        # Create folders if needed.\n        self.filename.parent.mkdir(parents=True, exist_ok=True)\n        self.filename.unlink(missing_ok=True)\n", 'expect': 'C12.W1'},
    {'id': 'never_closed_before_replace', 'file': '__init__.py', 'find': "                temp, self.temp = self.temp, None\n                temp.__exit__(exc_type, exc_value, tback)\n", 'replace': "                temp, self.temp = self.temp, None\n", 'expect': 'C12.W2'},
    {'id': 'commit_even_on_error', 'file': '__init__.py', 'find': "            if exc_type is None:\n                # No exception, commit changes\n                self._temp_name.replace(self.filename)", 'replace': "            if exc_type is None or exc_type is KeyboardInterrupt:\n                # No exception, commit changes\n                self._temp_name.replace(self.filename)", 'expect': 'C12.W2'},
    {'id': 'no_unlink_in_cleanup', 'file': '__init__.py', 'find': "                try:\n                    self._temp_name.unlink()\n                except OSError:\n                    pass", 'replace': "                pass", 'expect': 'C12.W3'},
    {'id': 'committed_set_too_early', 'file': '__init__.py', 'find': "                self._temp_name.replace(self.filename)\n                committed = True", 'replace': "                committed = True\n                self._temp_name.replace(self.filename)", 'expect': 'C12.W3'},
    {'id': 'cleanup_only_on_body_error', 'file': '__init__.py', 'find': "            if not committed:\n", 'replace': "            if exc_type is not None:\n", 'expect': 'C12.W3'},
    {'id': 'non_exclusive_open', 'file': '__init__.py', 'find': "self._temp_name.open('xb')", 'replace': "self._temp_name.open('wb')", 'expect': 'C12.W4'},
    {'id': 'temp_in_tmpdir', 'file': '__init__.py', 'find': "            self._temp_name = self.filename.with_name(f'tmp_{i}')", 'replace': "            self._temp_name = Path('/tmp') / f'tmp_{i}'", 'expect': 'C12.W4'},
    {'id': 'retry_on_any_oserror', 'file': '__init__.py', 'find': "            except FileExistsError:\n                pass", 'replace': "            except OSError:\n                pass", 'expect': 'C12.W4'},
    {'id': 'save_writes_directly', 'file': 'bsp.py', 'find': "            # Apply all the deferred writes.\n            defer.write()", 'replace': "            # Apply all the deferred writes.\n            defer.write()\n            with open(filename or self.filename, 'ab') as extra:\n                extra.write(b'')", 'expect': 'C12.W5'},
]
MUTANTS = [m for m in MUTANTS if not m.get('skip')]
