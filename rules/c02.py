"""C02 - escape_text and the tokenizer's string handler are exact inverses on every string.

The law over all strings reduces to finitely many obligations (DESIGN.md, C02):
  T1  ESCAPES_INV inverts ESCAPES; symbols are single characters and never a raw line break.
  T2  ESCAPE_RE / ESCAPE_MULTILINE_RE are alternations of single literal characters inside dom(ESCAPES_INV),
      and escape_text substitutes exactly through ESCAPES_INV with the regex chosen by `multiline`.
  T3  unit obligations on the transition function of Tokenizer._handle_string (tabulated by the finite-domain
      evaluator over the alphabet partition): every raw character that escape_text leaves alone is appended
      unchanged and leaves the handler in its initial state having consumed exactly that character; every
      escaped unit backslash+symbol appends exactly the original character, consumes exactly two characters and
      leaves the initial state.  By induction over the unit decomposition of escape_text(s) the handler
      reproduces s.
  T4  terminal facts: the closing quote returns (STRING, joined chars); _get_token dispatches '"' to the
      handler and EOF to (EOF, '').
  T5  the handler decodes only when allow_escapes is true and only through ESCAPES.
  T6  output alphabet: '"' is escaped in both modes; '\n' and '\r' in single-line mode; no replacement text
      contains a raw line break.
  T7  Cython sibling: decode if-chain, encode if-chain and size pre-scan of _tokenizer.pyx equal the Python tables.
"""
from __future__ import annotations

import ast
import re
try:
    import re._parser as sre_parse  # type: ignore
    import re._constants as sre_c  # type: ignore
except ImportError:  # < 3.11
    import sre_parse  # type: ignore
    import sre_constants as sre_c  # type: ignore
from typing import Any, Dict, List, Set

from engine.srcmatch import U
from engine.abseval import OTHER, Joined, Machine, mentioned_chars
from engine.fold import EnumMember, Folder, Regex
from engine.model import inline_tail_helpers, AnalysisError, Program, dotted, walk_no_nested
from engine.pyx import PyxFile, if_chain_byte_tests, bytes_literal

LEVEL = 'proof'


CONDITIONAL: Dict[str, Set[str]] = {}      # regex name -> characters it escapes only under a look-around condition


def _class_has(items: Any, ch: str) -> Optional[bool]:
    """does the character class (items of an sre IN node) contain ch?  None = a class item that is not modelled"""
    neg = False
    hit = False
    o = ord(ch)
    for op, av in items:
        if op is sre_c.NEGATE:
            neg = True
        elif op is sre_c.LITERAL:
            hit |= av == o
        elif op is sre_c.RANGE:
            hit |= av[0] <= o <= av[1]
        elif op is sre_c.CATEGORY:
            name = str(av)
            table = {'CATEGORY_DIGIT': ch.isdigit(), 'CATEGORY_NOT_DIGIT': not ch.isdigit(), 'CATEGORY_SPACE': ch.isspace(), 'CATEGORY_NOT_SPACE': not ch.isspace(),
                     'CATEGORY_WORD': ch.isalnum() or ch == '_', 'CATEGORY_NOT_WORD': not (ch.isalnum() or ch == '_')}
            if name not in table:
                return None
            hit |= table[name]
        else:
            return None
    return hit != neg


def fast_path_leaks(rx: Regex, method: str, needs: Set[str]) -> Optional[Set[str]]:
    """characters of `needs` that can occur in a string for which `RX.<method>(text)` succeeds, for a pattern of the form `<class>*` with an
    optional end anchor - the "nothing to escape here" pre-check.  None = pattern form not enumerated."""
    try:
        items = list(sre_parse.parse(rx.pattern, rx.flags))
    except re.error:
        return None
    anchor = None
    if items and items[-1][0] is sre_c.AT:
        anchor = str(items[-1][1])
        items = items[:-1]
    if items and items[0][0] is sre_c.AT and str(items[0][1]) in ('AT_BEGINNING', 'AT_BEGINNING_STRING'):
        items = items[1:]
    if len(items) != 1 or items[0][0] is not sre_c.MAX_REPEAT:
        return None
    lo, hi, body = items[0][1]
    body = list(body)
    if hi != sre_c.MAXREPEAT or len(body) != 1 or body[0][0] is not sre_c.IN:
        return None
    inside: Set[str] = set()
    for ch in needs:
        r = _class_has(body[0][1], ch)
        if r is None:
            return None
        if r:
            inside.add(ch)
    if method == 'fullmatch':
        return inside
    if method == 'match':
        if anchor == 'AT_END_STRING':
            return inside
        if anchor == 'AT_END' and not (rx.flags & re.MULTILINE):
            # `$` also matches just before a line feed that ends the string
            return inside | ({'\n'} & needs)
        return set(needs)          # no end anchor (or a per-line one): only a prefix is inspected
    return None


def regex_charset(rx: Regex, what: str, multi: Optional[List[str]] = None) -> Set[str]:
    """Set of single characters matched by a regex that must be a pure alternation/class of literals.  Alternatives that are a literal
    string of several characters are appended to `multi` when the caller can deal with them."""
    try:
        parsed = sre_parse.parse(rx.pattern, rx.flags)
    except re.error as exc:
        raise AnalysisError(f'{what}: cannot parse regex {rx.pattern!r}: {exc}') from exc
    items = list(parsed)
    if len(items) != 1:
        raise AnalysisError(f'{what}: regex {rx.pattern!r} is not a single-character alternation')
    out: Set[str] = set()

    def one(op: Any, av: Any) -> None:
        if op is sre_c.LITERAL:
            out.add(chr(av))
        elif op is sre_c.IN:
            for o2, a2 in av:
                if o2 is sre_c.LITERAL:
                    out.add(chr(a2))
                elif o2 is sre_c.RANGE:
                    raise AnalysisError(f'{what}: character range in escape regex is not an enumerated idiom')
                else:
                    raise AnalysisError(f'{what}: unsupported class item {o2} in escape regex')
        elif op is sre_c.BRANCH:
            for alt in av[1]:
                alt = list(alt)
                lits = [x for x in alt if x[0] in (sre_c.LITERAL, sre_c.IN)]
                looks = [x for x in alt if x[0] in (sre_c.ASSERT, sre_c.ASSERT_NOT)]
                if len(lits) == 1 and len(lits) + len(looks) == len(alt) and looks:
                    # `c(?!x)` / `(?<=x)c`: the character is escaped only in some contexts and left raw in the others
                    before = set(out)
                    one(*lits[0])
                    CONDITIONAL.setdefault(what, set()).update(out - before)
                    continue
                if len(alt) != 1 and multi is not None and all(x[0] is sre_c.LITERAL for x in alt):
                    multi.append(''.join(chr(x[1]) for x in alt))
                    continue
                if len(alt) != 1:
                    raise AnalysisError(f'{what}: alternative of length {len(alt)} in escape regex (must be single characters)')
                one(*alt[0])
        else:
            raise AnalysisError(f'{what}: unsupported regex construct {op}')
    one(*items[0])
    return out


def run(ctx: Any, prog: Program) -> None:
    tk = prog.module('tokenizer')
    fold = Folder(prog, tk)
    ctx.assumptions += [
        'the per-character argument of DESIGN.md C02 (unit decomposition + induction) links the finite obligations to the law over all strings',
        'the Cython implementation is compared at table level only (no Cython compiler in the sandbox); its buffer handling is not analysed',
    ]
    ctx.not_decided += ['UTF-8 multibyte handling and memory safety of the C buffer code in _tokenizer.pyx',
                        'the string embedded in a larger document (covered only through the handler being entered on the opening quote)']

    ctx.rule('C02.T1', 'ESCAPES_INV inverts ESCAPES; each symbol is one character and not a raw line break', floor=10)
    ctx.rule('C02.T2', 'escape regexes are single-literal alternations within dom(ESCAPES_INV); escape_text substitutes through ESCAPES_INV', floor=4)
    ctx.rule('C02.T3', 'unit obligations on the transition function of Tokenizer._handle_string', floor=40)
    ctx.rule('C02.T4', 'terminal facts: closing quote returns STRING; "\\"" dispatches to the handler; EOF gives EOF', floor=3)
    ctx.rule('C02.T5', 'escape decoding is gated by allow_escapes and uses only the ESCAPES table', floor=2)
    ctx.rule('C02.T6', 'escaped text has no raw quote, and no raw line break in single-line mode', floor=4)
    ctx.rule('C02.T8', 'the character source hands every character of the input on without looking at it', floor=3)
    ctx.rule('C02.T9', 'the string handler tests only fixed configuration and state it initialises itself', floor=1)
    ctx.rule('C02.T7', 'Cython tables (decode chain, encode chain, pre-scan) equal the Python tables', floor=20)

    ESC: Dict[str, str] = fold.global_('ESCAPES')
    INV: Dict[str, str] = fold.global_('ESCAPES_INV')
    if not isinstance(ESC, dict) or not isinstance(INV, dict):
        raise AnalysisError('ESCAPES / ESCAPES_INV are not foldable dict tables')
    esc_node = tk.global_assign('ESCAPES')
    inv_node = tk.global_assign('ESCAPES_INV')
    # the tables are what the module leaves behind, not only what their defining expression says: later module-level stores
    # (`ESCAPES_INV[k] = v`, `.update({...})`, `del`) are applied in order; anything else that touches them is not modelled
    ESC, INV = dict(ESC), dict(INV)
    def touches_tables(node: ast.AST) -> bool:
        return any(isinstance(x, ast.Name) and x.id in ('ESCAPES', 'ESCAPES_INV') and (isinstance(x.ctx, (ast.Store, ast.Del)) or isinstance(tk.parents.get(x), (ast.Subscript, ast.Attribute)) and (
            isinstance(getattr(tk.parents.get(x), 'ctx', None), (ast.Store, ast.Del)) or (isinstance(tk.parents.get(x), ast.Attribute) and tk.parents.get(x).attr in ('update', 'pop', 'setdefault', 'clear', 'popitem', '__setitem__', '__delitem__')))) for x in ast.walk(node))

    def apply_stmt(st: ast.stmt, env: Dict[str, Any]) -> None:
        tables_env = lambda: dict(env, ESCAPES=dict(ESC), ESCAPES_INV=dict(INV))       # noqa: E731
        for tbl_name, tbl in (('ESCAPES', ESC), ('ESCAPES_INV', INV)):
            if isinstance(st, ast.Assign) and len(st.targets) == 1 and isinstance(st.targets[0], ast.Subscript) and dotted(st.targets[0].value) == tbl_name:
                try:
                    tbl[fold.fold(st.targets[0].slice, tables_env())] = fold.fold(st.value, tables_env())
                except Exception as exc:          # FoldError or a KeyError inside the folded expression
                    raise AnalysisError(f'module-level store `{U(st)[:60]}` into {tbl_name} could not be folded: {exc}')
                return
            if isinstance(st, ast.Expr) and isinstance(st.value, ast.Call) and isinstance(st.value.func, ast.Attribute) and dotted(st.value.func.value) == tbl_name:
                if st.value.func.attr == 'update' and len(st.value.args) == 1 and not st.value.keywords:
                    try:
                        tbl.update(fold.fold(st.value.args[0], tables_env()))
                    except Exception as exc:
                        raise AnalysisError(f'`{U(st)[:60]}` could not be folded: {exc}')
                else:
                    raise AnalysisError(f'module-level `{U(st)[:60]}` changes {tbl_name} in a way that is not modelled')
                return
            if isinstance(st, ast.Delete) and any(isinstance(t, ast.Subscript) and dotted(t.value) == tbl_name for t in st.targets):
                for t in st.targets:
                    tbl.pop(fold.fold(t.slice, tables_env()), None)       # type: ignore[attr-defined]
                return
        if isinstance(st, ast.For) and touches_tables(st):
            # `for c in <constant iterable>: ESCAPES_INV[c] = ...`: unrolled
            if not isinstance(st.target, ast.Name) or st.orelse:
                raise AnalysisError(f'module-level loop `{U(st)[:60]}` changes the escape tables in a way that is not modelled')
            try:
                items = list(fold.fold(st.iter, tables_env()))
            except Exception as exc:
                raise AnalysisError(f'module-level loop over `{U(st.iter)[:40]}` changes the escape tables and its iterable could not be folded: {exc}')
            for it in items:
                for b_ in st.body:
                    apply_stmt(b_, dict(env, **{st.target.id: it}))
            return
        if isinstance(st, ast.If) and touches_tables(st):
            try:
                cond = bool(fold.fold(st.test, tables_env()))
            except Exception as exc:
                raise AnalysisError(f'module-level `if {U(st.test)[:40]}` guards a change of the escape tables and could not be folded: {exc}')
            for b_ in (st.body if cond else st.orelse):
                apply_stmt(b_, env)
            return
        if not isinstance(st, (ast.Assign, ast.AnnAssign, ast.FunctionDef, ast.ClassDef, ast.AsyncFunctionDef)) and touches_tables(st):
            raise AnalysisError(f'module-level `{U(st)[:60]}` changes the escape tables in a way that is not modelled')
    for st in tk.tree.body:
        apply_stmt(st, {})

    # ---- T1 ------------------------------------------------------------------------------------
    for sym, ch in ESC.items():
        ok = isinstance(sym, str) and len(sym) == 1 and sym not in '\r\n' and isinstance(ch, str) and len(ch) == 1
        ctx.check('C02.T1', ok, tk, esc_node, f'escape symbol {sym!r} -> {ch!r} must be 1 char -> 1 char and the symbol not a raw line break',
                  func='<module>', text=f'ESCAPES[{sym!r}]')
    for ch, rep in INV.items():
        # (the key is ONE character: a multi-character key makes the writer swallow several characters into one escape, which the reader
        # expands to a single character again)
        ok = (isinstance(ch, str) and len(ch) == 1 and isinstance(rep, str) and len(rep) == 2 and rep[0] == '\\' and rep[1] in ESC and ESC[rep[1]] == ch)
        ctx.check('C02.T1', ok, tk, inv_node, f'ESCAPES_INV[{ch!r}] = {rep!r} must be backslash + a symbol that ESCAPES maps back to {ch!r}',
                  func='<module>', text=f'ESCAPES_INV[{ch!r}]')

    # ---- T2 ------------------------------------------------------------------------------------
    # A whole-string rewrite applied to text that is *already escaped* cannot tell an escape sequence from the tail of an
    # escaped backslash: `\\` + `n` (a literal backslash followed by n) contains the two characters `\n` as well.  Any such
    # post-pass whose search text contains the escape character is a definite defect, whatever the rest of the function does.
    et0 = tk.func('escape_text')
    escaped_names = {t.id for n in ast.walk(et0) if isinstance(n, ast.Assign) and isinstance(n.value, ast.Call) and isinstance(n.value.func, ast.Attribute) and n.value.func.attr == 'sub'
                     and any(dotted(a) == '_escape_matcher' for a in n.value.args) for t in n.targets if isinstance(t, ast.Name)}
    for c in ast.walk(et0):
        if isinstance(c, ast.Call) and isinstance(c.func, ast.Attribute) and c.func.attr in ('replace', 'translate') and isinstance(c.func.value, ast.Name) and c.func.value.id in escaped_names \
                and c.args and isinstance(c.args[0], ast.Constant) and isinstance(c.args[0].value, str) and '\\' in c.args[0].value:
            ctx.check('C02.T2', False, tk, c, f'`{U(c)}` rewrites the already escaped text: the search text {c.args[0].value!r} also occurs where an escaped backslash is followed by '
                      f'{c.args[0].value[1:]!r} (`\\\\{c.args[0].value[1:]}`), so a literal backslash + {c.args[0].value[1:]!r} in the input is corrupted', func='escape_text', text='no rewrite of escaped text')
    # a second escaping path made of whole-string replace() passes over the table is order-sensitive: every replacement starts with the escape
    # character, so the pass for the escape character itself has to come first - later it doubles the backslashes the other passes inserted
    for lp in ast.walk(et0):
        if not (isinstance(lp, ast.For) and isinstance(lp.iter, ast.Call) and isinstance(lp.iter.func, ast.Attribute) and lp.iter.func.attr == 'items' and dotted(lp.iter.func.value) == 'ESCAPES_INV'
                and isinstance(lp.target, ast.Tuple) and len(lp.target.elts) == 2 and all(isinstance(e_, ast.Name) for e_ in lp.target.elts)):
            continue
        kvar, rvar = lp.target.elts[0].id, lp.target.elts[1].id
        reps = [c for b in lp.body for c in ast.walk(b) if isinstance(c, ast.Call) and isinstance(c.func, ast.Attribute) and c.func.attr == 'replace' and [dotted(a) for a in c.args] == [kvar, rvar]]
        if not reps:
            continue
        order = list(INV)
        bs_at = order.index('\\') if '\\' in order else None
        ctx.check('C02.T2', bs_at == 0, tk, reps[0], f'escape_text escapes (some) strings by running `{U(reps[0])[:50]}` for every entry of ESCAPES_INV in table order {order}: the backslash comes '
                  + (f'at position {bs_at}' if bs_at is not None else 'nowhere') + ', after other entries, so the backslashes those passes have just inserted are doubled (`"` -> `\\"` -> `\\\\"`) and the text reads back '
                  'as a literal backslash followed by the raw character', func='escape_text', text='replace passes: escape character first')
    rx1 = fold.global_('ESCAPE_RE')
    rxm = fold.global_('ESCAPE_MULTILINE_RE')
    if not isinstance(rx1, Regex) or not isinstance(rxm, Regex):
        raise AnalysisError('ESCAPE_RE / ESCAPE_MULTILINE_RE are not re.compile(...) of a foldable pattern')
    multi_alts: Dict[str, List[str]] = {'ESCAPE_RE': [], 'ESCAPE_MULTILINE_RE': []}
    S1 = regex_charset(rx1, 'ESCAPE_RE', multi_alts['ESCAPE_RE'])
    Sm = regex_charset(rxm, 'ESCAPE_MULTILINE_RE', multi_alts['ESCAPE_MULTILINE_RE'])
    ctx.check('C02.T2', S1 <= set(INV), tk, tk.global_assign('ESCAPE_RE'),
              f'characters matched by ESCAPE_RE {sorted(S1)} must all have a replacement in ESCAPES_INV', func='<module>', text='ESCAPE_RE charset')
    ctx.check('C02.T2', Sm <= set(INV), tk, tk.global_assign('ESCAPE_MULTILINE_RE'),
              f'characters matched by ESCAPE_MULTILINE_RE {sorted(Sm)} must all have a replacement in ESCAPES_INV', func='<module>', text='ESCAPE_MULTILINE_RE charset')
    # escape_text: return (ESCAPE_MULTILINE_RE if multiline else ESCAPE_RE).sub(_escape_matcher, text)
    et = tk.func('escape_text')
    # purity: the result is a function of (text, multiline) alone.  A module-level mutable container read or written by escape_text makes the
    # answer depend on earlier calls - in particular on calls made with the other mode.
    mutable_globals = {t.id for st in tk.tree.body if isinstance(st, (ast.Assign, ast.AnnAssign)) and st.value is not None
                       and (isinstance(st.value, (ast.Dict, ast.Set, ast.List, ast.ListComp, ast.DictComp, ast.SetComp)) or (isinstance(st.value, ast.Call) and dotted(st.value.func) in ('set', 'dict', 'list', 'collections.OrderedDict', 'OrderedDict', 'defaultdict', 'collections.defaultdict')))
                       for t in (st.targets if isinstance(st, ast.Assign) else [st.target]) if isinstance(t, ast.Name)}
    et_params = {a.arg for a in et.args.args}
    written_by_et = {dotted(c.func.value) for c in ast.walk(et) if isinstance(c, ast.Call) and isinstance(c.func, ast.Attribute) and c.func.attr in ('add', 'append', 'update', 'setdefault', 'pop', 'clear', 'discard', 'remove', '__setitem__')} | \
                    {dotted(t.value) for a in ast.walk(et) if isinstance(a, ast.Assign) for t in a.targets if isinstance(t, ast.Subscript)}
    decorated_cache = [d for d in et.decorator_list if 'cache' in U(d)]
    state = sorted((written_by_et & mutable_globals) - et_params)
    ctx.check('C02.T2', not state, tk, et, f'escape_text keeps state between calls in {state}: what it returns for a string then depends on earlier calls, including calls with the other value of `multiline` '
              '(a string left unchanged in multiline mode is later handed back with its raw line break in single-line mode)', func='escape_text', text='escape_text is a pure function of its arguments')
    if decorated_cache:
        keyed = all(len(et.args.args) >= 2 for _ in decorated_cache)
        ctx.check('C02.T2', keyed, tk, et, 'escape_text is memoised by a decorator: both arguments are part of the key', func='escape_text', text='memoised on (text, multiline)')
    rets = [n for n in ast.walk(et) if isinstance(n, ast.Return)]
    # "nothing to escape" pre-checks: leading `if <test on text>: return text`.  Each is sound only if no string it lets through contains a
    # character the single-line mode has to escape (S1 is the larger of the two sets).
    et_text = et.args.args[0].arg
    for st in list(et.body):
        if not (isinstance(st, ast.If) and not st.orelse and len(st.body) == 1 and isinstance(st.body[0], ast.Return) and dotted(st.body[0].value) == et_text):
            continue
        rets = [r for r in rets if r is not st.body[0]]
        t = st.test
        negated = False
        if isinstance(t, ast.UnaryOp) and isinstance(t.op, ast.Not):
            negated, t = True, t.operand
        if isinstance(t, ast.Compare) and len(t.ops) == 1 and isinstance(t.comparators[0], ast.Constant) and t.comparators[0].value is None and isinstance(t.ops[0], (ast.Is, ast.IsNot)):
            negated = negated != isinstance(t.ops[0], ast.Is)
            t = t.left
        leaks: Optional[Set[str]] = None
        what = U(st.test)
        if isinstance(t, ast.Name) and t.id == et_text and negated:
            leaks = set()                                                   # `if not text`
        elif isinstance(t, ast.Call) and isinstance(t.func, ast.Attribute) and dotted(t.func.value) == et_text and t.func.attr in ('isalnum', 'isalpha', 'isdigit', 'isdecimal', 'isnumeric', 'isidentifier') and not negated:
            leaks = set()
        elif isinstance(t, ast.Call) and isinstance(t.func, ast.Attribute) and isinstance(t.func.value, ast.Name) and len(t.args) == 1 and dotted(t.args[0]) == et_text:
            try:
                frx = fold.global_(t.func.value.id)
            except Exception:
                frx = None
            if isinstance(frx, Regex):
                if t.func.attr in ('match', 'fullmatch') and not negated:
                    leaks = fast_path_leaks(frx, t.func.attr, S1)
                elif t.func.attr == 'search' and negated:
                    try:
                        leaks = S1 - regex_charset(frx, t.func.value.id)
                    except AnalysisError:
                        leaks = None
        if leaks is None:
            raise AnalysisError(f'escape_text: pre-check `{what[:80]}` is not an enumerated fast path')
        ctx.check('C02.T2', not leaks, tk, st, f'escape_text returns its argument unchanged when `{what[:70]}`: strings passing that test can still contain {sorted(leaks)!r}'
                  + (' (`$` also matches in front of a line feed that ends the string)' if leaks == {'\n'} else '') + ', which single-line mode has to escape', func='escape_text', text='fast path lets nothing through that needs escaping')
    shape_ok = False
    # every character that needs escaping is escaped: a substitution limited by a count (the third positional argument of Pattern.sub is
    # `count` - `re.MULTILINE` passed there means "the first 8 matches") leaves the rest of the text raw
    for c_ in ast.walk(et):
        if isinstance(c_, ast.Call) and isinstance(c_.func, ast.Attribute) and c_.func.attr in ('sub', 'subn'):
            cnt = c_.args[2] if len(c_.args) > 2 else next((k.value for k in c_.keywords if k.arg == 'count'), None)
            unlimited = cnt is None or (isinstance(cnt, ast.Constant) and cnt.value == 0)
            ctx.check('C02.T2', unlimited, tk, c_, f'`{U(c_)[:80]}` limits the substitution to `{U(cnt) if cnt is not None else ""}` matches (third argument of Pattern.sub is the count): characters after that many escapes are '
                      'copied raw - a later quote ends the string early', func='escape_text', text='substitution not limited by a count')
    # the two-return spelling `if multiline: return A.sub(f, text)` / `return B.sub(f, text)` is the conditional expression written out
    et_body = [b for b in et.body if not (isinstance(b, ast.Expr) and isinstance(b.value, ast.Constant))]
    if len(rets) == 2 and len(et_body) == 2 and isinstance(et_body[0], ast.If) and not et_body[0].orelse and len(et_body[0].body) == 1 and isinstance(et_body[0].body[0], ast.Return) and isinstance(et_body[1], ast.Return):
        rets = [et_body[0].body[0], et_body[1]]
    if len(rets) == 2 and len(et_body) == 2 and isinstance(et_body[0], ast.If) and not et_body[0].orelse and len(et_body[0].body) == 1 and et_body[0].body[0] is rets[0] and et_body[1] is rets[1] \
            and all(isinstance(r.value, ast.Call) and isinstance(r.value.func, ast.Attribute) and r.value.func.attr == 'sub' and len(r.value.args) >= 2 for r in rets) \
            and U(rets[0].value.args[1]) == U(rets[1].value.args[1]) and all(isinstance(r.value.args[0], ast.Name) for r in rets):
        synth_sel = ast.IfExp(test=et_body[0].test, body=rets[0].value.func.value, orelse=rets[1].value.func.value)
        m0_, m1_ = rets[0].value.args[0], rets[1].value.args[0]
        synth_m: ast.AST = m0_ if U(m0_) == U(m1_) else ast.IfExp(test=et_body[0].test, body=m0_, orelse=m1_)
        synth = ast.Return(value=ast.Call(func=ast.Attribute(value=synth_sel, attr='sub', ctx=ast.Load()), args=[synth_m, rets[0].value.args[1]], keywords=[]))
        ast.copy_location(synth, rets[0])
        ast.fix_missing_locations(synth)
        rets = [synth]
    detail = 'escape_text must be a single `.sub(_escape_matcher, text)` on the regex chosen by `multiline`'
    if len(rets) == 1 and isinstance(rets[0].value, ast.Call) and isinstance(rets[0].value.func, ast.Attribute) \
            and rets[0].value.func.attr == 'sub' and len(rets[0].value.args) == 2:
        call = rets[0].value
        sel = call.func.value
        a0, a1 = call.args
        params = [a.arg for a in et.args.args]
        if isinstance(sel, ast.Name):
            # `pattern = A if multiline else B` or the same choice written as an if/else statement
            nm = sel.id
            defs_ = [a for a in ast.walk(et) if isinstance(a, ast.Assign) and len(a.targets) == 1 and dotted(a.targets[0]) == nm]
            ifs_ = [i for i in et.body if isinstance(i, ast.If) and len(i.body) == 1 and len(i.orelse) == 1 and all(isinstance(x, ast.Assign) and dotted(x.targets[0]) == nm for x in (i.body[0], i.orelse[0]))]
            if len(defs_) == 1 and isinstance(defs_[0].value, ast.IfExp):
                sel = defs_[0].value
            elif len(defs_) == 2 and len(ifs_) == 1:
                sel = ast.IfExp(test=ifs_[0].test, body=ifs_[0].body[0].value, orelse=ifs_[0].orelse[0].value)
        # the substitution function: one for both modes, or one per mode chosen by the same test as the regex
        if isinstance(a0, ast.IfExp) and isinstance(sel, ast.IfExp) and U(a0.test) == U(sel.test) and isinstance(a0.body, ast.Name) and isinstance(a0.orelse, ast.Name):
            pos_ = not (isinstance(sel.test, ast.UnaryOp) and isinstance(sel.test.op, ast.Not))
            matcher_of = {pos_: a0.body.id, (not pos_): a0.orelse.id}           # keyed by the value of `multiline`
        elif isinstance(a0, ast.Name):
            matcher_of = {True: a0.id, False: a0.id}
        else:
            matcher_of = {}
        m_ok = bool(matcher_of) and all(tk.has_func(m_) for m_ in matcher_of.values())
        if isinstance(sel, ast.IfExp) and isinstance(sel.test, ast.Name) and len(params) >= 2 and sel.test.id == params[1] \
                and dotted(sel.body) == 'ESCAPE_MULTILINE_RE' and dotted(sel.orelse) == 'ESCAPE_RE' \
                and m_ok and isinstance(a1, ast.Name) and a1.id == params[0]:
            shape_ok = True
        elif isinstance(sel, ast.IfExp) and isinstance(sel.test, ast.UnaryOp) and isinstance(sel.test.op, ast.Not) \
                and dotted(sel.test.operand) == params[1] and dotted(sel.body) == 'ESCAPE_RE' \
                and dotted(sel.orelse) == 'ESCAPE_MULTILINE_RE' and m_ok and dotted(a1) == params[0]:
            shape_ok = True
        else:
            # a recognisable but wrong selection (e.g. regexes swapped) is a violation; anything else is unknown
            if isinstance(sel, ast.IfExp) and {dotted(sel.body), dotted(sel.orelse)} == {'ESCAPE_MULTILINE_RE', 'ESCAPE_RE'}:
                shape_ok = False
                detail = 'escape_text selects the multiline regex when multiline is false (or vice versa)'
            elif dotted(sel) in ('ESCAPE_RE', 'ESCAPE_MULTILINE_RE'):
                shape_ok = False
                detail = 'escape_text ignores its multiline parameter'
            else:
                raise AnalysisError('escape_text has an unrecognised shape: ' + U(rets[0])[:120])
    else:
        raise AnalysisError('escape_text has an unrecognised shape (expected one return of <regex>.sub(...))')
    ctx.check('C02.T2', shape_ok, tk, rets[0], detail)

    def decode_model(r: str) -> Optional[str]:
        """what the string handler makes of `r` (T3 establishes that it works like this, unit by unit): backslash + symbol is the table
        entry, backslash + anything else stays as it is, every other character is itself"""
        out_, i_ = '', 0
        while i_ < len(r):
            if r[i_] == '\\':
                if i_ + 1 >= len(r):
                    return None
                out_ += ESC.get(r[i_ + 1], '\\' + r[i_ + 1])
                i_ += 2
            else:
                out_ += r[i_]
                i_ += 1
        return out_
    if not shape_ok and 'matcher_of' not in dir():
        matcher_of = {True: '_escape_matcher', False: '_escape_matcher'}
    if not matcher_of:
        matcher_of = {True: '_escape_matcher', False: '_escape_matcher'}
    for mode_, rx_name in ((False, 'ESCAPE_RE'), (True, 'ESCAPE_MULTILINE_RE')):
        em = tk.func(matcher_of[mode_])
        mrets = [n for n in ast.walk(em) if isinstance(n, ast.Return)]
        subs_ok = len(mrets) == 1 and isinstance(mrets[0].value, ast.Subscript) and isinstance(mrets[0].value.value, ast.Name)
        if not subs_ok:
            raise AnalysisError(f'{matcher_of[mode_]} has an unrecognised shape')
        tbl_name = mrets[0].value.value.id
        sl_ = mrets[0].value.slice
        em_ok = (isinstance(sl_, ast.Call) and dotted(sl_.func) == em.args.args[0].arg + '.group' and (not sl_.args or (len(sl_.args) == 1 and isinstance(sl_.args[0], ast.Constant) and sl_.args[0].value == 0))) \
            or (isinstance(sl_, ast.Subscript) and dotted(sl_.value) == em.args.args[0].arg and isinstance(sl_.slice, ast.Constant) and sl_.slice.value == 0)          # match[0] is match.group()
        if tbl_name == 'ESCAPES_INV':
            table_ = INV
        else:
            try:
                table_ = fold.global_(tbl_name)
            except Exception as exc:          # noqa: BLE001
                raise AnalysisError(f'{matcher_of[mode_]}: table {tbl_name} could not be folded: {exc}') from exc
            if not isinstance(table_, dict):
                raise AnalysisError(f'{matcher_of[mode_]}: {tbl_name} is not a foldable dict table')
            for st_ in tk.tree.body:
                if isinstance(st_, ast.Assign) and any(isinstance(t_, ast.Subscript) and dotted(t_.value) == tbl_name for t_ in st_.targets):
                    raise AnalysisError(f'module-level store into {tbl_name} is not modelled')
        label = 'single-line' if not mode_ else 'multiline'
        ctx.check('C02.T2', em_ok, tk, mrets[0], f'{matcher_of[mode_]} must return <table>[match.group()]', func=matcher_of[mode_], text=f'{label}: matcher looks the whole match up')
        singles = S1 if not mode_ else Sm
        alts = sorted(singles) + multi_alts[rx_name]
        if tbl_name != 'ESCAPES_INV' or multi_alts[rx_name]:
            for k_ in alts:
                r_ = table_.get(k_)
                back = decode_model(r_) if isinstance(r_, str) else None
                ctx.check('C02.T2', isinstance(r_, str) and back == k_, tk, tk.global_assign(tbl_name),
                          f'in {label} mode {rx_name} matches {k_!r} and {matcher_of[mode_]} replaces it by {r_!r}, which the tokenizer reads back as {back!r}'
                          + ('' if r_ is not None else f' ({tbl_name} has no entry for it: KeyError)'), func=matcher_of[mode_], text=f'{label}: {k_!r} survives escape + tokenize')
            # a multi-character alternative is tried before the single characters it starts with only if it comes first
            for k_ in multi_alts[rx_name]:
                ctx.check('C02.T2', True, tk, tk.global_assign(rx_name), 'multi-character alternative', func='<module>', text=f'{rx_name}: alternative {k_!r}')

    # ---- T8: the obligations above are about what the handler does with the characters it is given; they describe the tokenizer
    # only if the handler is given *every* character.  _next_char therefore returns an element of the chunk (or None) and takes no
    # decision on what that element is: a filter here (a BOM skipped, a NUL dropped) removes characters from inside strings too.
    nc, _nc_helpers = inline_tail_helpers(tk.func('Tokenizer._next_char'), tk.methods('Tokenizer'))
    char_vars: Set[str] = set()

    def is_char(e: ast.AST) -> bool:
        if isinstance(e, ast.Subscript) and not isinstance(e.slice, ast.Slice):
            b = e.value
            return (isinstance(b, ast.Attribute) and isinstance(b.value, ast.Name) and b.value.id == 'self') or (isinstance(b, ast.Name) and b.id in chunk_vars)
        return isinstance(e, ast.Name) and e.id in char_vars
    chunk_vars = {t.id for n in walk_no_nested(nc) if isinstance(n, ast.For) for t in ast.walk(n.target) if isinstance(t, ast.Name)}
    for _ in range(3):
        for n in walk_no_nested(nc):
            if isinstance(n, ast.Assign) and is_char(n.value):
                char_vars |= {t.id for t in n.targets if isinstance(t, ast.Name)}
            if isinstance(n, ast.NamedExpr) and is_char(n.value):
                char_vars.add(n.target.id)
    for n in walk_no_nested(nc):
        if isinstance(n, ast.Return):
            v = n.value
            if v is None or (isinstance(v, ast.Constant) and v.value is None) or is_char(v):
                ctx.check('C02.T8', True, tk, n, '', func='Tokenizer._next_char', text=f'return {U(v) if v is not None else "None"}')
            else:
                ctx.shape('C02.T8', False, tk, n, f'_next_char returns `{U(v)}`, which is neither an element of the loaded chunk nor None: what the handler is given is then not decided here', func='Tokenizer._next_char')
        tested = []
        if isinstance(n, ast.Compare):
            tested = [x for x in [n.left] + n.comparators if is_char(x)]
        elif isinstance(n, ast.Match):
            tested = [n.subject] if is_char(n.subject) else []
        elif isinstance(n, ast.Call) and not (isinstance(n.func, ast.Name) and n.func.id in ('isinstance', 'type', 'len')):
            tested = [x for x in list(n.args) + [k.value for k in n.keywords] if is_char(x)]
        elif isinstance(n, (ast.If, ast.While, ast.IfExp)) and is_char(n.test):
            tested = [n.test]
        for x in tested:
            ctx.check('C02.T8', False, tk, n, f'_next_char examines the character it read (`{U(n)[:80]}`): characters it treats specially never reach the string handler, so a string containing them does not come back as written',
                      func='Tokenizer._next_char', text=f'character `{U(x)}` handed on unexamined')

    # ---- T9: the obligations are stated for the handler started in its initial state.  Whatever the handler *tests* must therefore be
    # fixed configuration (written only by __init__) or be set by the handler itself before its loop; state that other token functions
    # write as well makes the value of a string depend on what was tokenized before it.
    hs9 = tk.func('Tokenizer._handle_string')
    cls_fns = {q: f for q, fl in tk.all_funcs().items() for f in fl if q.startswith(('Tokenizer.', 'BaseTokenizer.'))}
    attr_writers: Dict[str, Set[str]] = {}
    for q, f in cls_fns.items():
        for n in walk_no_nested(f):
            if isinstance(n, ast.Attribute) and isinstance(n.ctx, (ast.Store, ast.Del)) and isinstance(n.value, ast.Name) and n.value.id == 'self':
                attr_writers.setdefault(n.attr, set()).add(q.split('.')[-1])
    call_funcs = {id(n.func) for n in walk_no_nested(hs9) if isinstance(n, ast.Call)}
    initialised: Set[str] = set()
    for st in hs9.body:
        if isinstance(st, (ast.While, ast.For)):
            break
        if isinstance(st, (ast.Assign, ast.AnnAssign)):
            for t in (st.targets if isinstance(st, ast.Assign) else [st.target]):
                if isinstance(t, ast.Attribute) and isinstance(t.value, ast.Name) and t.value.id == 'self':
                    initialised.add(t.attr)
    seen9: Set[str] = set()
    # only what the handler *decides* on matters: reads inside the tests of if / while / conditional expressions (a line number copied into an
    # error message decides nothing)
    in_test9 = {id(x) for t_ in walk_no_nested(hs9) if isinstance(t_, (ast.If, ast.While, ast.IfExp)) for x in ast.walk(t_.test)}
    for n in walk_no_nested(hs9):
        if isinstance(n, ast.Attribute) and isinstance(n.ctx, ast.Load) and isinstance(n.value, ast.Name) and n.value.id == 'self' and id(n) not in call_funcs and n.attr not in seen9 and id(n) in in_test9:
            seen9.add(n.attr)
            w = attr_writers.get(n.attr, set())
            ctx.check('C02.T9', w <= {'__init__'} or n.attr in initialised, tk, n,
                      f'_handle_string reads self.{n.attr}, which is also written by {sorted(w - {"__init__", "_handle_string"}) or sorted(w)} and is not set on entry to the handler: '
                      'what a quoted string decodes to then depends on the text in front of it', func='Tokenizer._handle_string', text=f'self.{n.attr} is configuration or initialised by the handler')

    # T9 (decoded text is write-only): escape_text encodes character by character without context, so the decoder's decision for a character
    # may not depend on the text decoded so far.  The list the handler appends to (and joins for the token) is therefore only ever appended
    # to / joined / cleared - never measured, indexed or searched inside the tests of the handler.
    accs9 = {c.func.value.id for c in walk_no_nested(hs9) if isinstance(c, ast.Call) and isinstance(c.func, ast.Attribute) and c.func.attr == 'append' and isinstance(c.func.value, ast.Name)}
    accs9 &= {a.id for c in walk_no_nested(hs9) if isinstance(c, ast.Call) and isinstance(c.func, ast.Attribute) and c.func.attr == 'join' for a in c.args if isinstance(a, ast.Name)}
    ctx.shape('C02.T9', len(accs9) >= 1, tk, hs9, 'the list of decoded characters (appended to, joined for the token) was not found in _handle_string', func='Tokenizer._handle_string', text='decoded text is write-only')
    for acc in sorted(accs9):
        reads = [x for x in walk_no_nested(hs9) if isinstance(x, ast.Name) and x.id == acc and isinstance(x.ctx, ast.Load) and id(x) in in_test9]
        ctx.check('C02.T9', not reads, tk, reads[0] if reads else hs9, f'_handle_string decides on `{acc}`, the text decoded so far (line {reads[0].lineno if reads else 0}): escape_text writes each character without looking at its '
                  'neighbours, so a decoder whose treatment of `\\` depends on what precedes it reads some escaped strings back differently', func='Tokenizer._handle_string', text=f'`{acc}` is only appended to and joined')
    # T4 (token kind): whatever a quoted string contains, it is a STRING token - every return of the handler is `(Token.STRING, <text>)`
    for r4 in [x for x in walk_no_nested(hs9) if isinstance(x, ast.Return) and x.value is not None]:
        v4 = r4.value
        kind4 = v4.elts[0] if isinstance(v4, ast.Tuple) and len(v4.elts) == 2 else None
        if kind4 is None:
            ctx.shape('C02.T4', False, tk, r4, f'_handle_string returns `{U(v4)[:40]}`, not a (Token, text) pair', func='Tokenizer._handle_string', text='the handler returns STRING tokens only')
            continue
        ctx.check('C02.T4', (dotted(kind4) or '').split('.')[-1] == 'STRING', tk, r4, f'_handle_string returns `{U(v4)[:60]}`: a quoted string whose text meets the condition above it comes back as another kind of token '
                  '(and with other text), not as the single STRING token escape_text was written for', func='Tokenizer._handle_string', text='the handler returns STRING tokens only')
    # T2 (nothing is deleted): escape_text only ever *substitutes* through the table.  A `.sub(<constant>, text)` pass replaces a class of
    # characters by a fixed string (deleting them when it is empty): two different inputs then give the same output, which no decoder can undo.
    et9 = tk.func('escape_text')
    for c9 in [c for c in ast.walk(et9) if isinstance(c, ast.Call) and isinstance(c.func, ast.Attribute) and c.func.attr in ('sub', 'subn') and c.args and isinstance(c.args[0], ast.Constant) and isinstance(c.args[0].value, str)]:
        ctx.check('C02.T2', False, tk, c9, f'escape_text runs `{U(c9)[:60]}`: every match is replaced by the fixed string {c9.args[0].value!r}, so the characters matched are not in the output any more and cannot come back '
                  'when the string is tokenized', func='escape_text', text='escape_text deletes nothing')
    for c9 in [c for c in ast.walk(et9) if isinstance(c, ast.Call) and isinstance(c.func, ast.Attribute) and c.func.attr == 'translate']:
        ctx.shape('C02.T2', False, tk, c9, f'escape_text runs `{U(c9)[:60]}`: a translation table is not modelled', func='escape_text', text='escape_text deletes nothing')
    # ---- T10: the handler refuses nothing but the end of the input ------------------------------------------------------------------------------
    # every character can stand inside a quoted string (escape_text decides which ones are written raw), so the string handler - and any private
    # helper it calls - raises only where it has just seen that the input ended (`<char> is None`).  A `raise` under any other condition refuses
    # some string that the writer produces (a "helpful" early error for a line that holds only a brace).
    ctx.rule('C02.T10', 'the string handler and its helpers raise only at the end of the input', floor=1)
    tm10 = tk.methods('Tokenizer')
    scope10 = [('_handle_string', hs9)]
    for c_ in walk_no_nested(hs9):
        if isinstance(c_, ast.Call) and isinstance(c_.func, ast.Attribute) and dotted(c_.func.value) == 'self' and c_.func.attr in tm10 and c_.func.attr not in ('_next_char', 'error', '_handle_string') \
                and c_.func.attr.startswith('_') and (c_.func.attr, tm10[c_.func.attr]) not in scope10:
            scope10.append((c_.func.attr, tm10[c_.func.attr]))
    for q10, f10 in scope10:
        for r_ in [x for x in walk_no_nested(f10) if isinstance(x, ast.Raise)]:
            guards10 = []
            ch_, par_ = r_, tk.parents.get(r_)
            while par_ is not None and par_ is not f10:
                if isinstance(par_, ast.If):
                    guards10.append((par_.test, ch_ in par_.body))
                if isinstance(par_, ast.ExceptHandler):
                    guards10.append((par_, True))
                ch_, par_ = par_, tk.parents.get(par_)
            at_eof = any(pol and isinstance(t_, ast.Compare) and len(t_.ops) == 1 and isinstance(t_.ops[0], ast.Is) and isinstance(t_.comparators[0], ast.Constant) and t_.comparators[0].value is None for t_, pol in guards10) \
                or any(isinstance(t_, ast.ExceptHandler) for t_, _ in guards10)
            ctx.check('C02.T10', at_eof, tk, r_, f'Tokenizer.{q10} raises under `{" and ".join(U(t_)[:50] for t_, _ in guards10 if not isinstance(t_, ast.ExceptHandler)) or "no condition"}`, which is not the end of the input: '
                      'a string whose text meets that condition is refused although escape_text writes it', func=f'Tokenizer.{q10}', text=f'{q10}: raise only at end of input')

    # ---- T3/T4/T5: transition function of _handle_string ------------------------------------------
    from engine.model import inline_loop_exits as _ile
    hs = _ile(tk.func('Tokenizer._handle_string'))          # `break` + `return X` after the loop reads as `return X` in the loop
    # what the handler returns as the string's text is the joined characters themselves: a module-level function applied to them that can return
    # anything but its argument (a normaliser, a stripper, a case fold) rewrites content the writer put there on purpose
    for r_ in [x for x in ast.walk(hs) if isinstance(x, ast.Return) and isinstance(x.value, ast.Tuple) and len(x.value.elts) == 2 and U(x.value.elts[0]).endswith('STRING')]:
        txt_ = r_.value.elts[1]
        if isinstance(txt_, ast.Call) and isinstance(txt_.func, ast.Name) and tk.has_func(txt_.func.id) and len(txt_.args) == 1 and 'join' in U(txt_.args[0]):
            wfn = tk.func(txt_.func.id)
            wprm = wfn.args.args[0].arg if wfn.args.args else None
            rewrites = [x for x in ast.walk(wfn) if isinstance(x, ast.Return) and x.value is not None and not (isinstance(x.value, ast.Name) and x.value.id == wprm)]
            ctx.check('C02.T4', not rewrites, tk, r_, f'_handle_string hands the decoded text to {txt_.func.id}() before returning it, and that function can return something else than its argument '
                      f'(`{U(rewrites[0])[:70] if rewrites else ""}`): characters escape_text wrote unchanged do not come back unchanged', func='Tokenizer._handle_string', text='string text returned as decoded')
    loops = [s for s in hs.body if isinstance(s, ast.While)]
    if len(loops) != 1:
        raise AnalysisError('Tokenizer._handle_string: expected exactly one top-level `while True` loop')
    loop = loops[0]
    pre = [s for s in hs.body if s is not loop and not (isinstance(s, ast.Expr) and isinstance(s.value, ast.Constant))]
    alphabet: List[Any] = list(mentioned_chars(hs, fold, [ESC, INV, ''.join(S1 | Sm)]))
    alphabet.append(OTHER)

    def initial(allow: bool) -> Machine:
        m = Machine(tk, fold, [], {}, {'allow_escapes': allow, 'line_num': 1})
        out = m.run_body(pre, in_loop=False)
        if out.kind != 'fallthrough':
            raise AnalysisError('Tokenizer._handle_string: statements before the loop are not plain initialisation')
        return m

    init = initial(True)
    init_env, init_lists = dict(init.env), {k: list(v) for k, v in init.lists.items()}
    if len(init_lists) != 1:
        raise AnalysisError('Tokenizer._handle_string: expected exactly one accumulator list')
    acc = next(iter(init_lists))

    def iterate(inputs: List[Any], allow: bool = True, have: List[Any] = (), env: Any = None) -> Any:
        m = Machine(tk, fold, inputs, init_env if env is None else env, {'allow_escapes': allow, 'line_num': 1}, {acc: list(have)})
        return m.run_body(loop.body, in_loop=True)

    def show(c: Any) -> str:
        return repr(c)

    # Induction over the unit decomposition of escape_text(s): the set of loop-carried handler states reachable by
    # reading units is computed as a fixed point (state = the locals that some iteration reads before writing);
    # from every reachable state every unit must append exactly its original character and consume exactly itself.
    reachable_states: Dict[str, int] = {}
    NOLAST = '<empty>'
    for mode, S in (('single-line', S1), ('multiline', Sm)):
        live = set(init_env)
        track_acc = False       # becomes true when some iteration looks at the accumulator: its last element is then part of the state
        while True:
            seen = set()
            work = [(dict(init_env), NOLAST)]
            if track_acc:
                work += [(dict(init_env), p) for p in alphabet]
            grew = False
            results = []
            while work and not grew:
                st, last = work.pop()
                key = repr(sorted((k, repr(st.get(k))) for k in live)) + ('|' + repr(last) if track_acc else '')
                if key in seen:
                    continue
                seen.add(key)
                if len(seen) > 4000:
                    raise AnalysisError('Tokenizer._handle_string: more than 4000 loop-carried states; not a finite-state handler')
                have = [] if (last == NOLAST or not track_acc) else [last]
                cond_chars = CONDITIONAL.get('ESCAPE_MULTILINE_RE' if mode == 'multiline' else 'ESCAPE_RE', set())
                variants = [(c, c is not OTHER and c in S) for c in alphabet] + [(c, False) for c in alphabet if c is not OTHER and c in cond_chars]
                for c, escaped in variants:
                    unit = list(INV[c]) if escaped else [c]
                    out = iterate(unit, env=st, have=have)
                    if acc in out.reads_before_write and not track_acc:
                        track_acc = True
                        grew = True
                        break
                    if out.reads_before_write - live - {acc}:
                        live |= out.reads_before_write - {acc}
                        grew = True
                        break
                    ok = (out.kind == 'next' and out.lists.get(acc) == have + [c] and out.consumed == len(unit) and out.rewinds == 0)
                    if out.kind == 'need-input':
                        # the handler looks past the unit: whatever follows (any character, or the end of the text) must not change what the
                        # unit contributes, and the look-ahead must be given back (net consumption = the unit)
                        ok = True
                        for nxt in list(alphabet) + [None]:
                            o2 = iterate(unit + [nxt], env=st, have=have)
                            if o2.kind == 'need-input':
                                raise AnalysisError(f'_handle_string looks more than one character past the unit {"".join(map(str, unit))!r}')
                            if not (o2.kind == 'next' and o2.lists.get(acc) == have + [c] and o2.consumed == len(unit)):
                                ok = False
                                out = o2
                                out.value = f'when followed by {nxt!r}'
                                break
                    results.append((st, c, escaped, unit, out, ok, have))
                    if out.kind == 'next':
                        nl = out.lists.get(acc) or []
                        work.append((dict(out.env), nl[-1] if nl else NOLAST))
            if not grew:
                break
        reachable_states[mode] = len(seen)
        # report one instance per (mode, unit): ok iff it holds from every reachable state
        per_unit: Dict[str, Any] = {}
        for st, c, escaped, unit, out, ok, have in results:
            k = repr(c) + ('' if escaped or c is OTHER or c not in S else ' raw')
            cur = per_unit.get(k)
            if cur is None or (cur[0] and not ok):
                per_unit[k] = (ok, st, c, escaped, unit, out, have)
        for k, (ok, st, c, escaped, unit, out, have) in per_unit.items():
            stdesc = {a: st.get(a) for a in sorted(live)}
            after = f' after the characters {have!r} were already collected' if have else ''
            if escaped:
                ctx.check('C02.T3', ok, tk, loop, f'{mode}: unit {"".join(unit)!r} read in handler state {stdesc}{after} must append {c!r} and consume exactly 2 characters; got {out!r}',
                          text=f'{mode} escaped unit {"".join(unit)!r}')
            else:
                ctx.check('C02.T3', ok, tk, loop, f'{mode}: raw character {show(c)} is left unescaped by escape_text' + (' in some contexts (the escape regex matches it only under a look-around condition)' if c is not OTHER and c in S else '')
                          + f', so read in handler state {stdesc}{after} it must be appended '
                          f'unchanged, consuming exactly 1 character; got {out!r}', text=f'{mode} raw char {show(c)}')
        if track_acc:
            ctx.note(f'{mode}: the handler inspects its accumulator; its last element was made part of the state')
    ctx.note(f'handler loop-carried states reachable over unit sequences: {reachable_states}')

    # T4: closing quote
    out = iterate(['"'], have=['x', OTHER])
    ok = (out.kind == 'return' and isinstance(out.value, tuple) and len(out.value) == 2
          and isinstance(out.value[0], EnumMember) and out.value[0].name == 'STRING'
          and isinstance(out.value[1], Joined) and out.value[1].items == ['x', OTHER])
    ctx.check('C02.T4', ok, tk, loop, f'closing quote must return (Token.STRING, joined characters); got {out!r}', text='closing quote')
    gt = tk.func('Tokenizer._get_token')
    base_attrs = {'_last_was_cr': False, 'line_num': 1, 'string_bracket': False, 'string_parens': True, 'allow_escapes': True,
                  'allow_star_comments': False, 'preserve_comments': False, 'colon_operator': False, 'plus_operator': False}
    m = Machine(tk, fold, ['"'], {}, base_attrs, methods={'_handle_string': lambda mm, a: ('<handle_string>',)})
    out = m.run_body(gt.body, in_loop=False)
    ctx.check('C02.T4', out.kind == 'return' and out.value == ('<handle_string>',) and out.consumed == 1, tk, gt,
              f'an opening quote must dispatch to _handle_string; got {out!r}', text='opening quote dispatch')
    m = Machine(tk, fold, [None], {}, base_attrs)
    out = m.run_body(gt.body, in_loop=False)
    ok = (out.kind == 'return' and isinstance(out.value, tuple) and isinstance(out.value[0], EnumMember) and out.value[0].name == 'EOF')
    ctx.check('C02.T4', ok, tk, gt, f'end of input after the string must give Token.EOF; got {out!r}', text='EOF token')

    # T5: with allow_escapes False nothing is decoded; with True the decode table is ESCAPES only
    out = iterate(['\\'], allow=False)
    ok = out.kind == 'next' and out.lists.get(acc) == ['\\'] and out.consumed == 1
    ctx.check('C02.T5', ok, tk, loop, f'with allow_escapes=False a backslash is an ordinary character; got {out!r}', text='allow_escapes gate')
    tables = {dotted(n.value) for n in ast.walk(hs) if isinstance(n, ast.Subscript) and dotted(n.value) and dotted(n.value).isupper()}
    tables |= {dotted(n.func.value) for n in ast.walk(hs) if isinstance(n, ast.Call) and isinstance(n.func, ast.Attribute) and n.func.attr in ('get', '__getitem__') and dotted(n.func.value) and dotted(n.func.value).isupper()}
    ctx.check('C02.T5', tables == {'ESCAPES'}, tk, hs, f'the handler must decode through ESCAPES only; tables subscripted: {sorted(tables)}', text='decode tables')

    # ---- T6 ------------------------------------------------------------------------------------
    ctx.check('C02.T6', '"' in S1 and '"' in Sm, tk, tk.global_assign('ESCAPE_RE'), 'the double quote must be escaped in both modes', func='<module>', text='quote in S1 and Sm')
    ctx.check('C02.T6', '\n' in S1 and '\r' in S1, tk, tk.global_assign('ESCAPE_RE'), 'LF and CR must be escaped in single-line mode', func='<module>', text='CR/LF in S1')
    ctx.check('C02.T6', '\r' in Sm and '\\' in Sm and '\\' in S1, tk, tk.global_assign('ESCAPE_MULTILINE_RE'),
              'CR and backslash must be escaped in multiline mode (a raw CR is folded to LF by the reader; a raw backslash starts an escape)', func='<module>', text='CR/backslash in Sm')
    ctx.check('C02.T6', all('\n' not in r and '\r' not in r for r in INV.values()), tk, inv_node, 'no replacement text may contain a raw line break', func='<module>', text='replacements without line breaks')

    # ---- T7: Cython sibling ------------------------------------------------------------------------
    pyx = PyxFile(prog, '_tokenizer.pyx')
    nt = pyx.func('Tokenizer.next_token')
    dec: Dict[str, Any] = {}
    for idx, vals, text in if_chain_byte_tests(nt, 'escape_char'):
        kids = nt.children(idx)
        if not kids:
            raise AnalysisError(f'{pyx.relpath}: empty branch under `{text}`')
        body = nt.body[kids[0]].text
        mm = re.match(r'^next_char\s*=\s*(.+)$', body)
        for v in vals:
            key = v.decode('latin1')
            if mm and mm.group(1).strip() == 'escape_char':
                dec[key] = key
            elif mm:
                dec[key] = bytes_literal(mm.group(1).strip()).decode('latin1')
            elif body == 'continue' and key == '\n':
                dec[key] = '<skip>'
            else:
                raise AnalysisError(f'{pyx.relpath}:{nt.body[kids[0]].lineno}: unrecognised decode branch `{body}`')
    cy_dec = {k: v for k, v in dec.items() if v != '<skip>'}
    for sym in sorted(set(ESC) | set(cy_dec)):
        ctx.check('C02.T7', ESC.get(sym) == cy_dec.get(sym), None, None,
                  f'decode of \\{sym!r}: Python {ESC.get(sym)!r} vs Cython {cy_dec.get(sym)!r}', file=pyx.relpath,
                  func='Tokenizer.next_token', text=f'decode {sym!r}')
    ce = pyx.func('escape_text')
    enc: Dict[str, Dict[str, Any]] = {}
    for idx, vals, text in if_chain_byte_tests(ce, 'letter'):
        kids = ce.children(idx)
        body = ce.body[kids[0]].text if kids else ''
        mm = re.match(r'^j\s*=\s*_write_escape\(\s*out_buff\s*,\s*j\s*,\s*(.+)\)$', body)
        if not mm:
            raise AnalysisError(f'{pyx.relpath}:{ce.body[idx].lineno}: unrecognised encode branch `{body}`')
        cond_multi = bool(re.search(r'\band\s+not\s+multiline\b', text))
        if re.search(r'\band\b', text) and not cond_multi:
            raise AnalysisError(f'{pyx.relpath}:{ce.body[idx].lineno}: unrecognised encode guard `{text}`')
        for v in vals:
            enc[v.decode('latin1')] = {'sym': bytes_literal(mm.group(1).strip()).decode('latin1'), 'single_only': cond_multi}
    cy_S1 = set(enc)
    cy_Sm = {c for c, e in enc.items() if not e['single_only']}
    for c in sorted(S1 | cy_S1):
        py = INV.get(c) if c in S1 else None
        cy = ('\\' + enc[c]['sym']) if c in enc else None
        ctx.check('C02.T7', py == cy, None, None, f'encode of {c!r}: Python {py!r} vs Cython {cy!r}', file=pyx.relpath,
                  func='escape_text', text=f'encode {c!r}')
    ctx.check('C02.T7', cy_Sm == Sm, None, None, f'multiline escape set: Python {sorted(Sm)} vs Cython {sorted(cy_Sm)}', file=pyx.relpath,
              func='escape_text', text='multiline set')
    pre_all: Set[str] = set()
    pre_single: Set[str] = set()
    for idx, vals, text in if_chain_byte_tests(ce, 'in_buf[i]'):
        single_only = bool(re.search(r'\band\s+not\s+multiline\b', text))
        kids = ce.children(idx)
        if not kids or ce.body[kids[0]].text.replace(' ', '') != 'final_size+=1':
            raise AnalysisError(f'{pyx.relpath}:{ce.body[idx].lineno}: unrecognised pre-scan branch')
        for v in vals:
            (pre_single if single_only else pre_all).add(v.decode('latin1'))
    ctx.check('C02.T7', pre_all == cy_Sm and pre_all | pre_single == cy_S1, None, None,
              f'size pre-scan set {sorted(pre_all)}+{sorted(pre_single)} must equal the encode sets {sorted(cy_Sm)} / {sorted(cy_S1)} '
              '(the pre-scan sizes the output buffer)', file=pyx.relpath, func='escape_text', text='pre-scan set')


MUTANTS = [
    {'id': 'quoted_directive_returned_as_directive', 'file': 'tokenizer.py', 'find': "            if next_char == '\"':\n                return Token.STRING, ''.join(value_chars)", 'replace': "            if next_char == '\"':\n                if value_chars[:1] == ['#']:\n                    return Token.DIRECTIVE, ''.join(value_chars[1:])\n                return Token.STRING, ''.join(value_chars)", 'expect': 'C02.T4', 'refuse_ok': True, 'note': 'round 13'},
    {'id': 'escape_decoding_depends_on_prefix', 'file': 'tokenizer.py', 'find': "            if next_char == '\\\\' and self.allow_escapes:\n                # Escape text\n                escape = self._next_char()", 'replace': "            if next_char == '\\\\' and self.allow_escapes and value_chars[-1:] != [':']:\n                # Escape text\n                escape = self._next_char()", 'expect': 'C02.T9', 'refuse_ok': True, 'note': 'round 12'},
    {'id': 'string_text_normalised_before_return', 'file': 'tokenizer.py', 'find': "            if next_char == '\"':\n                return Token.STRING, ''.join(value_chars)", 'replace': "            if next_char == '\"':\n                return Token.STRING, _compose(''.join(value_chars))", 'extra': [{'file': 'tokenizer.py', 'find': "class BaseTokenizer(abc.ABC):", 'replace': "def _compose(text: str) -> str:\n    if text.isascii():\n        return text\n    import unicodedata\n    return unicodedata.normalize('NFC', text)\n\n\nclass BaseTokenizer(abc.ABC):"}], 'expect': 'C02.T4'},
    {'id': 'long_strings_escaped_by_replace_passes', 'file': 'tokenizer.py', 'find': "    return (ESCAPE_MULTILINE_RE if multiline else ESCAPE_RE).sub(_escape_matcher, text)", 'replace': "    if len(text) < 4096:\n        return (ESCAPE_MULTILINE_RE if multiline else ESCAPE_RE).sub(_escape_matcher, text)\n    unescaped = '?/\\n' if multiline else '?/'\n    for char, escape in ESCAPES_INV.items():\n        if char not in unescaped and char in text:\n            text = text.replace(char, escape)\n    return text", 'expect': 'C02.T2'},
    {'id': 'multiline_pair_wrong_replacement', 'file': 'tokenizer.py', 'find': "ESCAPE_MULTILINE_RE = re.compile('|'.join(\n    re.escape(c) for c in ESCAPES_INV\n    if c not in '?/\\n'\n))\n", 'replace': "ESCAPES_INV_MULTILINE = {**ESCAPES_INV, '\\\\\\n': '\\\\\\\\n'}\ndel ESCAPES_INV_MULTILINE['\\n']\nESCAPE_MULTILINE_RE = re.compile('|'.join(\n    re.escape(c) for c in sorted(ESCAPES_INV_MULTILINE, key=len, reverse=True)\n    if c not in '?/'\n))\n", 'extra': [{'file': 'tokenizer.py', 'find': "def escape_text(text: str, multiline: bool=False) -> str:", 'replace': "def _escape_matcher_multiline(match: re.Match[str]) -> str:\n    return ESCAPES_INV_MULTILINE[match.group()]\n\n\ndef escape_text(text: str, multiline: bool=False) -> str:"}, {'file': 'tokenizer.py', 'find': "    return (ESCAPE_MULTILINE_RE if multiline else ESCAPE_RE).sub(_escape_matcher, text)", 'replace': "    if multiline:\n        return ESCAPE_MULTILINE_RE.sub(_escape_matcher_multiline, text)\n    return ESCAPE_RE.sub(_escape_matcher, text)"}], 'expect': 'C02.T2'},
    {'id': 'ok_multiline_pair_right_replacement', 'file': 'tokenizer.py', 'find': "ESCAPE_MULTILINE_RE = re.compile('|'.join(\n    re.escape(c) for c in ESCAPES_INV\n    if c not in '?/\\n'\n))\n", 'replace': "ESCAPES_INV_MULTILINE = {**ESCAPES_INV, '\\\\\\n': '\\\\\\\\\\n'}\ndel ESCAPES_INV_MULTILINE['\\n']\nESCAPE_MULTILINE_RE = re.compile('|'.join(\n    re.escape(c) for c in sorted(ESCAPES_INV_MULTILINE, key=len, reverse=True)\n    if c not in '?/'\n))\n", 'extra': [{'file': 'tokenizer.py', 'find': "def escape_text(text: str, multiline: bool=False) -> str:", 'replace': "def _escape_matcher_multiline(match: re.Match[str]) -> str:\n    return ESCAPES_INV_MULTILINE[match.group()]\n\n\ndef escape_text(text: str, multiline: bool=False) -> str:"}, {'file': 'tokenizer.py', 'find': "    return (ESCAPE_MULTILINE_RE if multiline else ESCAPE_RE).sub(_escape_matcher, text)", 'replace': "    if multiline:\n        return ESCAPE_MULTILINE_RE.sub(_escape_matcher_multiline, text)\n    return ESCAPE_RE.sub(_escape_matcher, text)"}], 'expect': None, 'note': 'negative control: backslash+LF replaced by escaped backslash + raw LF'},
    {'id': 'escape_sub_limited_by_flag_as_count', 'file': 'tokenizer.py', 'find': "    return (ESCAPE_MULTILINE_RE if multiline else ESCAPE_RE).sub(_escape_matcher, text)", 'replace': "    if multiline:\n        return ESCAPE_MULTILINE_RE.sub(_escape_matcher, text, re.MULTILINE)\n    return ESCAPE_RE.sub(_escape_matcher, text)", 'expect': 'C02.T2'},
    {'id': 'ok_escape_two_returns', 'file': 'tokenizer.py', 'find': "    return (ESCAPE_MULTILINE_RE if multiline else ESCAPE_RE).sub(_escape_matcher, text)", 'replace': "    if multiline:\n        return ESCAPE_MULTILINE_RE.sub(_escape_matcher, text)\n    return ESCAPE_RE.sub(_escape_matcher, text)", 'expect': None},
    {'id': 'inv_table_extra_line_breaks_by_loop', 'file': 'tokenizer.py', 'find': "ESCAPE_RE = re.compile('|'.join(", 'replace': "for _char in '\\x85\\u2028':\n    ESCAPES_INV[_char] = ESCAPES_INV['\\n']\ndel _char\nESCAPE_RE = re.compile('|'.join(", 'expect': 'C02.T1'},
    {'id': 'handler_tests_shared_cr_flag', 'file': 'tokenizer.py', 'find': "                if last_was_cr:\n                    last_was_cr = False\n                    continue\n                self.line_num += 1\n            else:\n                last_was_cr = False\n\n            if next_char == '\\\\' and self.allow_escapes:\n                # Escape text\n                escape = self._next_char()", 'replace': "                if last_was_cr or self._last_was_cr:\n                    last_was_cr = self._last_was_cr = False\n                    continue\n                self.line_num += 1\n            else:\n                last_was_cr = False\n\n            if next_char == '\\\\' and self.allow_escapes:\n                # Escape text\n                escape = self._next_char()", 'expect': 'C02.T9'},
    {'id': 'next_char_filters_bom', 'file': 'tokenizer.py', 'find': "                        self._char_index = 0\n                        return chunk[0]\n", 'replace': "                        self._char_index = 0\n                        if chunk[0] == '\\uFEFF' and self.line_num == 1:\n                            return self._next_char()\n                        return chunk[0]\n", 'expect': 'C02.T8'},
    {'id': 'ok_next_char_via_local', 'file': 'tokenizer.py', 'find': "                        self._char_index = 0\n                        return chunk[0]\n", 'replace': "                        self._char_index = 0\n                        first = chunk[0]\n                        return first\n", 'expect': None},
    {'id': 'fast_path_dollar_anchor', 'file': 'tokenizer.py', 'find': "    return (ESCAPE_MULTILINE_RE if multiline else ESCAPE_RE).sub(_escape_matcher, text)", 'replace': "    if _UNESCAPED_RE.match(text) is not None:\n        return text\n    return (ESCAPE_MULTILINE_RE if multiline else ESCAPE_RE).sub(_escape_matcher, text)", 'extra': [{'file': 'tokenizer.py', 'find': "def _escape_matcher(match", 'replace': "_UNESCAPED_RE = re.compile(r'[^\\x00-\\x1f\"\\'\\\\]*$')\n\n\ndef _escape_matcher(match"}], 'expect': 'C02.T2'},
    {'id': 'ok_fast_path_fullmatch', 'file': 'tokenizer.py', 'find': "    return (ESCAPE_MULTILINE_RE if multiline else ESCAPE_RE).sub(_escape_matcher, text)", 'replace': "    if _UNESCAPED_RE.fullmatch(text) is not None:\n        return text\n    return (ESCAPE_MULTILINE_RE if multiline else ESCAPE_RE).sub(_escape_matcher, text)", 'extra': [{'file': 'tokenizer.py', 'find': "def _escape_matcher(match", 'replace': "_UNESCAPED_RE = re.compile(r'[^\\x00-\\x1f\"\\'\\\\]*')\n\n\ndef _escape_matcher(match"}], 'expect': None},
    {'id': 'ok_fast_path_search', 'file': 'tokenizer.py', 'find': "    return (ESCAPE_MULTILINE_RE if multiline else ESCAPE_RE).sub(_escape_matcher, text)", 'replace': "    if not ESCAPE_RE.search(text):\n        return text\n    return (ESCAPE_MULTILINE_RE if multiline else ESCAPE_RE).sub(_escape_matcher, text)", 'expect': None},
    {'id': 'crlf_pair_escaped_as_one', 'file': 'tokenizer.py', 'find': "ESCAPE_RE = re.compile('|'.join(\n    re.escape(c) for c in ESCAPES_INV\n", 'replace': "ESCAPES_INV['\\r\\n'] = ESCAPES_INV['\\n']\nESCAPE_RE = re.compile('|'.join(\n    re.escape(c) for c in sorted(ESCAPES_INV, key=len, reverse=True)\n", 'expect': 'C02.T1'},
    {'id': 'multiline_cr_before_lf_left_raw', 'file': 'tokenizer.py', 'find': "ESCAPE_MULTILINE_RE = re.compile('|'.join(\n    re.escape(c) for c in ESCAPES_INV", 'replace': "ESCAPE_MULTILINE_RE = re.compile('|'.join(\n    re.escape(c) + ('(?!\\n)' if c == '\\r' else '') for c in ESCAPES_INV", 'expect': 'C02.T3'},
    {'id': 'escaped_quote_before_newline_ends_string', 'file': 'tokenizer.py', 'find': "                elif escape == '\\n':\n                    continue  # Allow \\ at the end of a line to skip.\n", 'replace': "                elif escape == '\\n':\n                    continue  # Allow \\ at the end of a line to skip.\n                elif escape == '\"' and self._peek_char() in (None, '\\r', '\\n'):\n                    value_chars.append('\\\\')\n                    return Token.STRING, ''.join(value_chars)\n", 'extra': [{'file': 'tokenizer.py', 'find': "    def _get_token(self) -> tuple[Token, str]:\n        \"\"\"Return the next token, value pair.\"\"\"", 'replace': "    def _peek_char(self) -> Optional[str]:\n        char = self._next_char()\n        self._char_index -= 1\n        return char\n\n    def _get_token(self) -> tuple[Token, str]:\n        \"\"\"Return the next token, value pair.\"\"\""}], 'expect': 'C02.T3'},
    {'id': 'escape_text_memo_ignores_mode', 'file': 'tokenizer.py', 'find': "    return (ESCAPE_MULTILINE_RE if multiline else ESCAPE_RE).sub(_escape_matcher, text)", 'replace': "    if text in _PLAIN_TEXT:\n        return text\n    result = (ESCAPE_MULTILINE_RE if multiline else ESCAPE_RE).sub(_escape_matcher, text)\n    if result is text:\n        _PLAIN_TEXT.add(text)\n    return result", 'extra': [{'file': 'tokenizer.py', 'find': "def _escape_matcher(match", 'replace': "_PLAIN_TEXT: set = set()\n\n\ndef _escape_matcher(match"}], 'expect': 'C02.T2'},
    {'id': 'raw_newline_eats_decoded_backslash', 'file': 'tokenizer.py', 'find': "                self.line_num += 1\n            else:\n                last_was_cr = False\n", 'replace': "                self.line_num += 1\n                if value_chars and value_chars[-1] == '\\\\':\n                    value_chars.pop()\n                    continue\n            else:\n                last_was_cr = False\n", 'expect': 'C02.T3'},
    {'id': 'multiline_by_replace', 'file': 'tokenizer.py', 'find': "    return (ESCAPE_MULTILINE_RE if multiline else ESCAPE_RE).sub(_escape_matcher, text)", 'replace': "    escaped = ESCAPE_RE.sub(_escape_matcher, text)\n    if multiline:\n        escaped = escaped.replace('\\\\n', '\\n')\n    return escaped", 'expect': 'C02.T2'},
    {'id': 'inv_wrong_symbol', 'file': 'tokenizer.py', 'find': "ESCAPES_INV = {char: f'\\\\{sym}'", 'replace': "ESCAPES_INV = {char: f'\\\\{char}'", 'expect': 'C02.T1'},
    {'id': 'multiline_leaves_cr_raw', 'file': 'tokenizer.py', 'find': "if c not in '?/\\n'", 'replace': "if c not in '?/\\n\\r'", 'expect': 'C02.T3'},
    {'id': 'backslash_left_raw', 'file': 'tokenizer.py', 'find': "if c not in '?/'\n", 'replace': "if c not in '?/\\\\'\n", 'expect': 'C02.T3'},
    {'id': 'handler_skips_n', 'file': 'tokenizer.py', 'find': "elif escape == '\\n':\n                    continue", 'replace': "elif escape == 'n':\n                    continue", 'expect': 'C02.T3'},
    {'id': 'regex_swapped', 'file': 'tokenizer.py', 'find': '(ESCAPE_MULTILINE_RE if multiline else ESCAPE_RE)', 'replace': '(ESCAPE_RE if multiline else ESCAPE_MULTILINE_RE)', 'expect': 'C02.T2'},
    {'id': 'gate_removed', 'file': 'tokenizer.py', 'find': "if next_char == '\\\\' and self.allow_escapes:", 'replace': "if next_char == '\\\\':", 'expect': 'C02.T5'},
    {'id': 'quote_not_terminating', 'file': 'tokenizer.py', 'find': "            if next_char == '\"':\n                return Token.STRING, ''.join(value_chars)", 'replace': "            if next_char == \"'\":\n                return Token.STRING, ''.join(value_chars)", 'expect': 'C02.T4'},
    {'id': 'cy_encode_wrong_symbol', 'file': '_tokenizer.pyx', 'find': "j = _write_escape(out_buff, j, b'v')", 'replace': "j = _write_escape(out_buff, j, b'f')", 'expect': 'C02.T7'},
    {'id': 'cy_prescan_misses_ff', 'file': '_tokenizer.pyx', 'find': "in b'\\t\\v\\b\\r\\f\\a\\\\\\'\"'", 'replace': "in b'\\t\\v\\b\\r\\a\\\\\\'\"'", 'expect': 'C02.T7'},
    {'id': 'cy_decode_wrong', 'file': '_tokenizer.pyx', 'find': "next_char = b'\\b'", 'replace': "next_char = b'\\a'", 'expect': 'C02.T7'},
    {'id': 'cr_state_leak', 'file': 'tokenizer.py', 'find': "            else:\n                last_was_cr = False\n\n            if next_char == '\\\\' and", 'replace': "            else:\n                pass\n\n            if next_char == '\\\\' and", 'expect': None, 'note': 'negative control: the CR state is only ever set by a raw CR, which escaped text never contains, so the law still holds'},
]
