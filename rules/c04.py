"""C04 - rotation algebra: exact-arithmetic content of the formulas as written (DESIGN.md C04).

  A1  MatrixBase.from_angle == from_roll(r) . from_pitch(p) . from_yaw(y)  (product taken with the bilinear form
      extracted from _mat_mul) - the Source convention stated by the code's own single-axis constructors.
  A2  M.M^T = I and det M = +1 as polynomial identities (mod sin^2+cos^2=1) for from_angle, from_pitch/yaw/roll
      and axis_angle (mod x^2+y^2+z^2=1).
  A3  _vec_rot is the row-vector product v.M, _mat_mul the standard product, transpose swaps (i,j)<->(j,i);
      (v.A).B == v.(A.B) checked on symbolic operands.
  A4  operand dispatch: for every operand pair (Vec/FrozenVec/tuple, Angle/FrozenAngle, Matrix/FrozenMatrix) and
      operator form (@, @=) the statically resolved protocol ends in an arm that computes the documented value
      (v.M, v.FA(a), A.B, A.FA(b), to_angle(FA(a).FA(b)), to_angle(FA(a).M)) with the documented result class.
  A5  Euler extraction: substituting A1's entries into each atan2(num, den) of _to_angle gives (k sin x, k cos x) for
      the angle extracted, in the normal and in the gimbal branch; threshold constant 0.001.
  A6  Cython siblings (_mat_from_angle, mat_mul, vec_rot, _mat_to_angle) yield the same polynomials / atan2 pairs.
"""
from __future__ import annotations

import ast
import re
from fractions import Fraction
from typing import Any, Dict, List, Optional, Tuple

from engine.srcmatch import U
from engine.mathobj import NOTIMPL, SLOTS, Dispatcher, NeedAssume, Obj, ang_input, from_angle_entries, mat_input, vec_input
from engine.model import AnalysisError, Program, dotted, mro, resolve_method, walk_no_nested
from engine.poly import Opaque, Poly, PolyInterp, normal_form
from engine.pyx import PyxFile, pyx_body_to_ast

LEVEL = 'proof'

ROLES = {'pitch.pitch': 'P', 'pitch.yaw': 'Y', 'pitch.roll': 'R', 'pitch': 'P', 'yaw': 'Y', 'roll': 'R',
         'angle.x': 'P', 'angle.y': 'Y', 'angle.z': 'R', 'angle': 'A'}
REL = {'sP': Poly.const(1) - Poly.sym('cP') ** 2, 'sY': Poly.const(1) - Poly.sym('cY') ** 2,
       'sR': Poly.const(1) - Poly.sym('cR') ** 2, 'sA': Poly.const(1) - Poly.sym('cA') ** 2}
IDX = 'abc'


def body_of(fn: Any) -> List[ast.stmt]:
    return [s for s in fn.body if not (isinstance(s, ast.Expr) and isinstance(s.value, ast.Constant))]


def expand_trig_helpers(ctx: Any, mt: Any, qual: str, body: List[ast.stmt]) -> List[ast.stmt]:
    """`sin, cos = _helper(angle)`: inline a module-level helper (parameter substituted, locals renamed) so that the algebra sees
    math.sin / math.cos of math.radians(angle) again.  A helper that *adjusts* the values it computed - a branch on a quantity derived from
    sin()/cos() - is reported: the matrix entries are then not the Source formula for every real angle (C04 quantifies over angles within
    1e-12..1e-3 of the poles, where a snapping threshold bites)."""
    out: List[ast.stmt] = []
    for st in body:
        call = st.value if isinstance(st, ast.Assign) and isinstance(st.value, ast.Call) else None
        name = call.func.id if call is not None and isinstance(call.func, ast.Name) else None
        if name is None or not mt.has_func(name) or len(call.args) != 1 or call.keywords:
            out.append(st)
            continue
        h = mt.func(name)
        if len(h.args.args) != 1:
            out.append(st)
            continue
        param = h.args.args[0].arg
        hbody = body_of(h)
        trig: set = set()
        for a in ast.walk(h):
            if isinstance(a, ast.Assign) and isinstance(a.targets[0], ast.Name):
                srcs = {x.id for x in ast.walk(a.value) if isinstance(x, ast.Name)}
                if any(isinstance(c, ast.Call) and (dotted(c.func) or '').split('.')[-1] in ('sin', 'cos', 'tan') for c in ast.walk(a.value)) or srcs & trig:
                    trig.add(a.targets[0].id)
        locals_ = {t.id for a in ast.walk(h) if isinstance(a, ast.Assign) for t in ast.walk(a.targets[0]) if isinstance(t, ast.Name)}

        class _Sub(ast.NodeTransformer):
            def visit_Name(self, node: ast.Name) -> ast.AST:
                if node.id == param:
                    return ast.copy_location(ast.parse(U(call.args[0]), mode='eval').body, node)
                if node.id in locals_:
                    return ast.copy_location(ast.Name(id=f'_{name}_{node.id}', ctx=node.ctx), node)
                return node
        ret_expr = None
        for hs in hbody:
            if isinstance(hs, ast.If):
                looks = {x.id for x in ast.walk(hs.test) if isinstance(x, ast.Name)} & trig
                if looks:
                    ctx.check('C04.A1', False, mt, hs, f'{qual} takes its sine/cosine from {name}(), which replaces the values it computed when `{U(hs.test)[:60]}`: for angles that close to a multiple of 90 degrees the '
                              'matrix is that of the exact multiple, not of the angle given (entries off by up to the threshold; a vector of length 1e6 moves by about 1 unit)', func=name, text=f'{name}: trig values adjusted under a threshold')
                    continue
                raise AnalysisError(f'{name}: branch `{U(hs.test)[:50]}` in a trig helper is not modelled')
            if isinstance(hs, ast.Return):
                ret_expr = hs.value
                break
            if isinstance(hs, ast.Assign):
                new = _Sub().visit(ast.parse(U(hs)).body[0])
                ast.copy_location(new, st)
                out.append(ast.fix_missing_locations(new))
                continue
            raise AnalysisError(f'{name}: statement kind {type(hs).__name__} in a trig helper is not modelled')
        if ret_expr is None:
            raise AnalysisError(f'{name}: no return value')
        fin = ast.Assign(targets=st.targets, value=_Sub().visit(ast.parse(U(ret_expr), mode='eval').body))
        ast.copy_location(fin, st)
        out.append(ast.fix_missing_locations(fin))
    return out


def entries_from_env(env: Dict[str, Any], prefix: str) -> Dict[str, Poly]:
    if f'{prefix}aa' not in env:
        # the local holding the object under construction may be called anything: take the one receiver all nine entries were stored on
        cands = sorted({k[:-2] for k in env if k.endswith('._aa') and all(isinstance(env.get(k[:-2] + s_), Poly) for s_ in SLOTS)})
        cands = [c for c in cands if not c.startswith('self.')] or cands
        if len(cands) == 1:
            prefix = cands[0]
    out = {}
    for s in SLOTS:
        k = f'{prefix}{s}'
        if k not in env or not isinstance(env[k], Poly):
            raise AnalysisError(f'matrix entry {k} was not assigned a polynomial value')
        out[s] = env[k]
    return out


def mat_product(form: Dict[str, Poly], A: Dict[str, Poly], B: Dict[str, Poly]) -> Dict[str, Poly]:
    mp = {f'S_{s}': A[s] for s in SLOTS}
    mp.update({f'O_{s}': B[s] for s in SLOTS})
    return {s: form[s].subst(mp) for s in SLOTS}


def nf(p: Poly, rel: Dict[str, Poly] = REL) -> Poly:
    return normal_form(p, rel)


def standard_product() -> Dict[str, Poly]:
    out = {}
    for i in IDX:
        for j in IDX:
            p = Poly()
            for k in IDX:
                p = p + Poly.sym(f'S_{i}{k}') * Poly.sym(f'O_{k}{j}')
            out[i + j] = p
    return out


def standard_vecrot() -> List[Poly]:
    out = []
    for j in IDX:
        p = Poly()
        for i, v in zip(IDX, 'xyz'):
            p = p + Poly.sym(f'V_{v}') * Poly.sym(f'M_{i}{j}')
        out.append(p)
    return out


def det(M: Dict[str, Poly]) -> Poly:
    return (M['aa'] * (M['bb'] * M['cc'] - M['bc'] * M['cb'])
            - M['ab'] * (M['ba'] * M['cc'] - M['bc'] * M['ca'])
            + M['ac'] * (M['ba'] * M['cb'] - M['bb'] * M['ca']))


def gram(M: Dict[str, Poly]) -> Dict[str, Poly]:
    out = {}
    for i in IDX:
        for j in IDX:
            p = Poly()
            for k in IDX:
                p = p + M[i + k] * M[j + k]
            out[i + j] = p
    return out


def pyx_rename(key: str) -> str:
    import re
    m = re.fullmatch(r'(\w+)\[(\d)\]\[(\d)\]', key)
    if m:
        pre = {'mat': 'M', 'targ': 'S', 'rot': 'O', 'res': 'RES'}.get(m.group(1))
        if pre:
            return f'{pre}_{IDX[int(m.group(2))]}{IDX[int(m.group(3))]}'
    m = re.fullmatch(r'vec\.([xyz])', key)
    if m:
        return 'V_' + m.group(1)
    return key


def extract_forms(prog: Program) -> Tuple[Dict[str, Poly], List[Poly]]:
    mt = prog.module('math')

    def ren_mm(k: str) -> str:
        if k.startswith('self._') and k[6:] in SLOTS:
            return 'S_' + k[6:]
        if k.startswith('other._') and k[7:] in SLOTS:
            return 'O_' + k[7:]
        return k
    res = PolyInterp(ROLES.get, ren_mm, filename=mt.relpath).run(body_of(mt.func('MatrixBase._mat_mul')))
    if len(res) != 1:
        raise AnalysisError('MatrixBase._mat_mul is not straight-line code')
    form = entries_from_env(res[0].env, 'self._')

    def ren_vr(k: str) -> str:
        if k.startswith('self._') and k[6:] in SLOTS:
            return 'M_' + k[6:]
        if k in ('vec.x', 'vec.y', 'vec.z', 'vec._x', 'vec._y', 'vec._z'):
            return 'V_' + k[-1]
        return k
    res = PolyInterp(ROLES.get, ren_vr, filename=mt.relpath).run(body_of(mt.func('MatrixBase._vec_rot')))
    if len(res) != 1:
        raise AnalysisError('MatrixBase._vec_rot is not straight-line code')
    env = res[0].env
    vform = []
    for c in 'xyz':
        v = env.get(f'vec._{c}')
        if not isinstance(v, Poly):
            raise AnalysisError(f'_vec_rot does not assign vec._{c}')
        vform.append(v)
    return form, vform


def run(ctx: Any, prog: Program) -> None:
    mt = prog.module('math')
    ctx.assumptions += ['exact real arithmetic: floats are abstracted to polynomials over Q; rounding is not modelled',
                        'cos/sin of a named angle are symbols related only by sin^2 + cos^2 = 1']
    ctx.not_decided += ['floating-point rounding and the "within twice the horizontal length" bound near the poles',
                        'inverse() (Gauss-Jordan with data-dependent pivoting) equals transpose() numerically',
                        'the C++ mat3_inverse used by the Cython build']
    ctx.rule('C04.A1', 'from_angle == from_roll . from_pitch . from_yaw under the product extracted from _mat_mul', floor=9)
    ctx.rule('C04.A2', 'rotation constructors yield orthonormal matrices with determinant +1 (polynomial identities)', floor=40)
    ctx.rule('C04.A3', '_mat_mul is the standard matrix product, _vec_rot the row-vector product, transpose swaps indices; (v.A).B == v.(A.B)', floor=24)
    ctx.rule('C04.A4', 'operator dispatch computes the documented value and class for every operand pair and operator form', floor=40)
    ctx.rule('C04.A5', 'Euler extraction atan2 arguments are (k sin x, k cos x) for the extracted angle; gimbal threshold 0.001', floor=6)
    ctx.rule('C04.A6', 'Cython siblings agree with the Python formulas', floor=25)
    ctx.rule('C04.A11', 'inverse(): each elimination loop visits every row of its range (no early exit; rows skipped only when their pivot-column entry is exactly zero) and updates both halves alike', floor=4)
    ctx.rule('C04.A8', 'inverse(): the pivot chosen in each column is the entry of largest magnitude, so an invertible matrix never fails the final threshold test because of pivot choice', floor=1)
    ctx.rule('C04.A9', 'rotation operators are functions of their operands alone: no module-level state is written on the way', floor=10)
    ctx.rule('C04.A10', 'Euler components of two rotations are never simply added, except when the rotation applied second is a pure yaw', floor=1)
    ctx.rule('C04.A7', 'in-place kernels are alias safe, or are only called with a fresh receiver (m @= m computes m @ m)', floor=4)

    # A9 clause: a memo keyed by a vector / angle / matrix object is keyed by its TOLERANT equality (hash and == round to 6 decimals), so two
    # different rotations closer than 1e-6 share one cached result: the value handed out no longer follows from the operand (near the poles
    # that difference is what the quantifier of this property asks about)
    for q_, fl_ in mt.all_funcs().items():
        for f_ in fl_:
            decs_ = [d.func if isinstance(d, ast.Call) else d for d in f_.decorator_list]
            if not any((d.attr if isinstance(d, ast.Attribute) else getattr(d, 'id', '')) in ('lru_cache', 'cache', 'memoize', 'memoise') for d in decs_):
                continue
            fuzzy = [a.arg for a in f_.args.args + f_.args.kwonlyargs if a.annotation is not None and re.search(r'\b(Frozen)?(Angle|Vec|Matrix)(Base)?\b|AnyAngle|AnyVec|AnyMatrix', U(a.annotation))]
            ctx.check('C04.A9', not fuzzy, mt, f_, f'{q_} is memoised and takes {fuzzy} - objects whose == and hash ignore differences below 1e-6: the cache hands the result computed for one rotation to a different, '
                      'nearly equal one (entries off by up to ~2e-8, which scales with the vector rotated)', func=q_, text=f'{q_}: memo key is exact')
    a12_inplace_identity(ctx, mt)
    a13_inverse_guards(ctx, mt)
    a8_pivoting(ctx, mt)
    a11_elimination(ctx, mt)
    a9_operator_purity(ctx, mt)
    a10_no_component_addition(ctx, mt)
    # A7 first: it needs no algebra, and its definite findings must be reported even when a later step declines
    a7_alias_safety(ctx, prog, mt, PyxFile(prog, '_math.pyx'))
    # the two kernels apply one formula to every operand.  A branch on `<vector or matrix> == <something>` goes through VecBase.__eq__ /
    # MatrixBase.__eq__, which accept differences up to 1e-6: operands that are merely *close* to the special value take the shortcut too
    # (a vector of length 5e-7 "is the origin" and is not rotated), so rotation stops being linear
    for kq in ('MatrixBase._mat_mul', 'MatrixBase._vec_rot'):
        kf = mt.func(kq)
        kparams = {a.arg for a in kf.args.args}
        for t_ in [n for n in walk_no_nested(kf) if isinstance(n, (ast.If, ast.IfExp, ast.While))]:
            fuzzy = [c for c in ast.walk(t_.test) if isinstance(c, ast.Compare) and any(isinstance(x, ast.Name) and x.id in kparams for x in [c.left] + c.comparators)
                     and any(isinstance(o, (ast.Eq, ast.NotEq)) for o in c.ops)]
            ctx.check('C04.A3', not fuzzy, mt, t_, f'{kq} branches on `{U(fuzzy[0])[:50] if fuzzy else ""}`: equality of vectors / matrices tolerates 1e-6 per component, so operands near the special value skip the formula '
                      '(Vec(5e-7, 0, 0) @ from_yaw(90) stays on the x axis)', func=kq, text=f'{kq}: no branch on fuzzy operand equality')
    form, vform = extract_forms(prog)
    # ---- A3 ----------------------------------------------------------------------------------------
    std = standard_product()
    mm = mt.func('MatrixBase._mat_mul')
    for s in SLOTS:
        ctx.check('C04.A3', form[s] == std[s], mt, mm, f'_mat_mul entry {s}: got {form[s]!r}, standard product is {std[s]!r}', text=f'_mat_mul[{s}]')
    vr = mt.func('MatrixBase._vec_rot')
    stdv = standard_vecrot()
    for c, got, want in zip('xyz', vform, stdv):
        ctx.check('C04.A3', got == want, mt, vr, f'_vec_rot component {c}: got {got!r}, row-vector product is {want!r}', text=f'_vec_rot[{c}]')
    # transpose
    tr = mt.func('MatrixBase.transpose')
    raw_args: List[Any] = []

    def tr_hook(n: ast.Call, a: List[Any]) -> Any:
        d = U(n.func)
        if d.endswith('._from_raw'):        # `return type(self)._from_raw(<nine entries in row order>)`: wait for the evaluated arguments
            if len(a) == 9:
                raw_args[:] = a
                return Poly.sym('<obj>')
            return None
        if d.endswith('__new__') or d == 'type':
            return Poly.sym('<obj>')
        return None
    tr_hook.wants_args = True      # type: ignore[attr-defined]
    res = PolyInterp(ROLES.get, lambda k: ('M_' + k[6:]) if k.startswith('self._') and k[6:] in SLOTS else k, filename=mt.relpath, call_hook=tr_hook).run(body_of(tr))
    if len(res) != 1:
        raise AnalysisError('transpose is not straight-line')
    if raw_args and all(isinstance(x, Poly) for x in raw_args) and not any(k.endswith('._aa') and not k.startswith('self.') for k in res[0].env):
        T = dict(zip(SLOTS, raw_args))
    else:
        T = entries_from_env(res[0].env, 'rot._')
    for i in IDX:
        for j in IDX:
            ctx.check('C04.A3', T[i + j] == Poly.sym(f'M_{j}{i}'), mt, tr, f'transpose entry {i}{j} must be the source entry {j}{i}; got {T[i + j]!r}', text=f'transpose[{i}{j}]')
    # associativity on symbolic operands using the extracted forms
    A = {s: Poly.sym(f'A_{s}') for s in SLOTS}
    B = {s: Poly.sym(f'B_{s}') for s in SLOTS}
    v = [Poly.sym('v_x'), Poly.sym('v_y'), Poly.sym('v_z')]

    def rot(vec: List[Poly], M: Dict[str, Poly]) -> List[Poly]:
        mp = {f'M_{s}': M[s] for s in SLOTS}
        mp.update({'V_x': vec[0], 'V_y': vec[1], 'V_z': vec[2]})
        return [p.subst(mp) for p in vform]
    lhs = rot(rot(v, A), B)
    rhs = rot(v, mat_product(form, A, B))
    for c, l, r in zip('xyz', lhs, rhs):
        ctx.check('C04.A3', l == r, mt, vr, f'(v@A)@B != v@(A@B) in component {c} with the formulas as written', text=f'associativity[{c}]')

    # ---- A1 / A2 -------------------------------------------------------------------------------------
    class RawMat:
        """value of `cls._from_raw(<nine entries in row order>)`"""
        def __init__(self, args: List[Any]) -> None:
            self.entries = dict(zip(SLOTS, args))

    def hook_new(n: ast.Call, a: List[Any]) -> Any:
        d = U(n.func)
        if d.endswith('__new__'):
            return Poly.sym('<obj>')
        if d.endswith('._from_raw') and len(a) == 9 and all(isinstance(x, Poly) for x in a):
            return RawMat(a)
        return None
    hook_new.wants_args = True      # type: ignore[attr-defined]

    def entries_of(pth: Any) -> Dict[str, Poly]:
        if isinstance(pth.ret, RawMat):
            return pth.ret.entries
        return entries_from_env(pth.env, 'rot._')

    def single(name: str) -> Dict[str, Poly]:
        fn = mt.func('MatrixBase.' + name)
        r = PolyInterp(ROLES.get, filename=mt.relpath, call_hook=hook_new).run(expand_trig_helpers(ctx, mt, 'MatrixBase.' + name, body_of(fn)))
        if len(r) != 1:
            raise AnalysisError(f'{name} is not straight-line code')
        return entries_of(r[0])
    Mp, My, Mr = single('from_pitch'), single('from_yaw'), single('from_roll')
    fa = mt.func('MatrixBase.from_angle')

    def fa_branch(test: ast.AST) -> List[bool]:
        return [True, False]
    paths = [r for r in PolyInterp(ROLES.get, filename=mt.relpath, call_hook=hook_new, branch=fa_branch).run(expand_trig_helpers(ctx, mt, 'MatrixBase.from_angle', body_of(fa))) if r.ret is not None]
    if not paths:
        raise AnalysisError('from_angle: no returning path found')
    product = mat_product(form, mat_product(form, Mr, Mp), My)
    FA: Optional[Dict[str, Poly]] = None
    for pi, pth in enumerate(paths):
        ent = entries_of(pth)
        FA = ent
        for s in SLOTS:
            ctx.check('C04.A1', nf(ent[s]) == nf(product[s]), mt, fa,
                      f'from_angle entry {s} = {ent[s]!r} but roll.pitch.yaw gives {product[s]!r} (path {pth.guards})', text=f'from_angle[{s}] path{pi}')
    assert FA is not None

    def check_rotation(name: str, M: Dict[str, Poly], fn: Any, rel: Dict[str, Poly]) -> None:
        G = gram(M)
        for i in IDX:
            for j in IDX:
                want = Poly.const(1 if i == j else 0)
                got = normal_form(G[i + j], rel)
                ctx.check('C04.A2', got == want, mt, fn, f'{name}: row {i} . row {j} = {got!r}, expected {want!r}', text=f'{name} gram[{i}{j}]')
        d = normal_form(det(M), rel)
        ctx.check('C04.A2', d == Poly.const(1), mt, fn, f'{name}: determinant = {d!r}, expected 1', text=f'{name} det')
    check_rotation('from_angle', FA, fa, REL)
    check_rotation('from_pitch', Mp, mt.func('MatrixBase.from_pitch'), REL)
    check_rotation('from_yaw', My, mt.func('MatrixBase.from_yaw'), REL)
    check_rotation('from_roll', Mr, mt.func('MatrixBase.from_roll'), REL)
    # axis_angle
    aa = mt.func('MatrixBase.axis_angle')

    def hook_axis(n: ast.Call, a: List[Any]) -> Any:
        d = dotted(n.func) or ''
        if d.endswith('__new__'):
            return Poly.sym('<obj>')
        if isinstance(n.func, ast.Attribute) and n.func.attr == 'norm':
            return (Poly.sym('nx'), Poly.sym('ny'), Poly.sym('nz'))
        return None
    r = PolyInterp(ROLES.get, filename=mt.relpath, call_hook=hook_axis).run(body_of(aa))
    if len(r) != 1:
        raise AnalysisError('axis_angle is not straight-line code')
    AX = entries_from_env(r[0].env, 'mat._')
    rel_ax = dict(REL)
    rel_ax['nz'] = Poly.const(1) - Poly.sym('nx') ** 2 - Poly.sym('ny') ** 2
    check_rotation('axis_angle', AX, aa, rel_ax)

    # ---- A5 -----------------------------------------------------------------------------------------
    ta = mt.func('MatrixBase._to_angle')

    def ren_ta(k: str) -> str:
        if k.startswith('self._') and k[6:] in SLOTS:
            return 'M_' + k[6:]
        return k
    # asin / acos have the domain [-1, 1]; an entry of a *product* of rotations is only within rounding of it (1.0000000000000002 happens for
    # products that land on the gimbal pole), so an unclamped asin(entry) raises ValueError for some rotations while atan2 is total
    for c_ in ast.walk(ta):
        if isinstance(c_, ast.Call) and (dotted(c_.func) or '').split('.')[-1] in ('asin', 'acos') and c_.args:
            a_ = c_.args[0]
            clamped = isinstance(a_, ast.Call) and dotted(a_.func) in ('max', 'min') and any(isinstance(x, ast.Call) and dotted(x.func) in ('max', 'min') for x in a_.args)
            ctx.check('C04.A5', clamped, mt, c_, f'_to_angle takes `{U(c_)[:50]}` of an unclamped matrix entry: for a rotation obtained by multiplying matrices the entry can round to just outside [-1, 1] '
                      '(e.g. Angle(225, 0, 0) @ Angle(225, 0, 0)) and the call raises "math domain error" instead of returning the angle', func='MatrixBase._to_angle', text=f'_to_angle: `{U(c_)[:30]}` total')
    a5_python = analyse_to_angle(ctx, 'C04.A5', mt.relpath, 'MatrixBase._to_angle', body_of(ta), ren_ta, FA,
                                 {'yaw': 'ang._yaw', 'pitch': 'ang._pitch', 'roll': 'ang._roll'}, mt, ta)

    # ---- A4 -----------------------------------------------------------------------------------------
    disp = Dispatcher(mt, form, vform)
    vec_classes = ['Vec', 'FrozenVec', 'tuple']
    ang_classes = ['Angle', 'FrozenAngle']
    mat_classes = ['Matrix', 'FrozenMatrix']

    def mk(cls: str, name: str) -> Obj:
        k = {'Vec': 'vec', 'FrozenVec': 'vec', 'tuple': 'tuple'}.get(cls)
        if cls in vec_classes:
            o = vec_input(name, cls)
            return o
        if cls in ang_classes:
            return ang_input(name, cls)
        return mat_input(name, cls)

    def expected(lc: str, rc: str, L: Obj, R: Obj) -> Tuple[str, Any]:
        """(kind, data) the documented result must have."""
        Rm = R.data if R.kind == 'mat' else from_angle_entries(R)
        if L.kind in ('vec', 'tuple'):
            mp = {f'M_{s}': Rm[s] for s in SLOTS}
            mp.update({'V_x': L.data[0], 'V_y': L.data[1], 'V_z': L.data[2]})
            return 'vec', [p.subst(mp) for p in stdv]
        Lm = L.data if L.kind == 'mat' else from_angle_entries(L)
        prod = mat_product(std, Lm, Rm)
        if L.kind == 'mat':
            return 'mat', prod
        return 'ang', ('to_angle', tuple(sorted((s, repr(p)) for s, p in prod.items())))

    pairs = [(l, r) for l in vec_classes for r in ang_classes + mat_classes] + \
            [(l, r) for l in ang_classes for r in ang_classes + mat_classes] + \
            [(l, r) for l in mat_classes for r in mat_classes + ang_classes]
    def concretise(pl: Poly, assume: Dict[Tuple[str, str], bool]) -> Poly:
        """an arm that works on the angle's components directly is compared with from_angle *as written* (A1 ties that to the convention):
        FA[angle]_xy -> the from_angle polynomial in this angle's own sin/cos; components the path assumed zero get sin 0, cos 1"""
        mp: Dict[str, Poly] = {}
        rel: Dict[str, Poly] = {}
        for nm in ('L', 'R'):
            key = repr(('angle', nm))
            ren = {f'{t}{ax}': Poly.sym(f'{t}{ax}[{key}]') for t in 'cs' for ax in 'PYR'}
            for s_ in SLOTS:
                mp[f'FA[{key}]_{s_}'] = FA[s_].subst(ren)
            for ax in 'PYR':
                rel[f's{ax}[{key}]'] = Poly.const(1) - Poly.sym(f'c{ax}[{key}]') ** 2
        pl = pl.subst(mp)
        zero: Dict[str, Poly] = {}
        for (key, ax), z in assume.items():
            if z:
                zero[f's{ax}[{key}]'] = Poly.const(0)
                zero[f'c{ax}[{key}]'] = Poly.const(1)
        return normal_form(pl.subst(zero), rel)

    def same_value(kind: str, res: Obj, want: Any, want_polys: Any, assume: Dict[Tuple[str, str], bool], trig: bool) -> bool:
        if not assume and not trig:
            return repr(res.data) == repr(want)
        if kind == 'vec':
            got_p, want_p = list(res.data), list(want_polys)
        elif kind == 'mat':
            got_p, want_p = [res.data[s_] for s_ in SLOTS], [want_polys[s_] for s_ in SLOTS]
        else:
            m_ = getattr(res, 'mat', None)
            if m_ is None:
                return False
            got_p, want_p = [m_[s_] for s_ in SLOTS], [want_polys[s_] for s_ in SLOTS]
        return all(isinstance(g, Poly) and concretise(g, assume) == concretise(w, assume) for g, w in zip(got_p, want_p))

    n_forked = 0
    for lc, rc in pairs:
        for inplace in (False, True):
            if inplace and lc == 'tuple':
                continue
            opname = '@=' if inplace else '@'
            anchor = resolve_method(mt, lc if lc != 'tuple' else rc, '__matmul__' if lc != 'tuple' else '__rmatmul__')
            anode = anchor[1] if anchor else mt.tree
            todo: List[Dict[Tuple[str, str], bool]] = [{}]
            while todo:
                assume = todo.pop()
                if len(assume) > 6:
                    raise AnalysisError(f'{lc} {opname} {rc}: more than 6 value tests on angle components along one path')
                L, R = mk(lc, 'L'), mk(rc, 'R')
                L0 = repr(L.data)
                R0 = repr(R.data)
                kind, want = expected(lc, rc, L, R)
                want_polys = want if kind != 'ang' else mat_product(std, from_angle_entries(L) if L.kind == 'ang' else L.data, R.data if R.kind == 'mat' else from_angle_entries(R))
                disp.assume, disp.used_trig = assume, False
                try:
                    res, tried = disp.binop(L, R, inplace)
                except NeedAssume as na:
                    n_forked += 1
                    todo += [{**assume, na.key: True}, {**assume, na.key: False}]
                    continue
                when = ''.join(f' [{"L" if "L" in k[0] else "R"}.{ {"P": "pitch", "Y": "yaw", "R": "roll"}[k[1]] } {"==" if z else "!="} 0]' for k, z in sorted(assume.items()))
                label = f'{lc} {opname} {rc}{when}'
                if res is NOTIMPL or not isinstance(res, Obj):
                    ctx.check('C04.A4', False, mt, anode, f'{label}: no arm handles this documented operand pair (tried {tried})', text=label, func='operator dispatch')
                    continue
                ok_val = (res.kind == kind or (kind == 'vec' and res.kind == 'vec')) and same_value(kind, res, want, want_polys, assume, disp.used_trig)
                ctx.check('C04.A4', ok_val, mt, anode, f'{label}: result value {str(res.data)[:260]}... differs from the documented {str(want)[:200]}... (via {tried})',
                          text=label + ' value', func='operator dispatch')
                want_cls = {'tuple': 'Vec'}.get(lc, lc)
                ctx.check('C04.A4', res.cls == want_cls, mt, anode, f'{label}: result class {res.cls}, documented {want_cls} (via {tried})',
                          text=label + ' class', func='operator dispatch')
                # the right operand is never changed
                ctx.check('C04.A4', repr(R.data) == R0 and not R.mutations, mt, anode, f'{label}: right operand mutated ({R.mutations})',
                          text=label + ' right operand intact', func='operator dispatch')
    disp.assume, disp.used_trig = {}, False
    # unknown operands give NotImplemented
    for lc in ['Vec', 'Angle', 'Matrix']:
        L = mk(lc, 'L')
        other = Obj('tuple', [Poly.sym('t')] * 3, 'input:R') if lc != 'Vec' else None
        # a Matrix/Angle cannot be rotated by a vector/tuple: result must be NotImplemented
        if other is not None:
            res, tried = disp.binop(L, other, False)
            # tuple has no __rmatmul__, so protocol ends with NotImplemented from the left operand
            ctx.check('C04.A4', res is NOTIMPL, mt, resolve_method(mt, lc, '__matmul__')[1], f'{lc} @ tuple must not be accepted (documented: not vice-versa)',
                      text=f'{lc} @ tuple -> NotImplemented', func='operator dispatch')

    # ---- A6 Cython -----------------------------------------------------------------------------------
    pyx = PyxFile(prog, '_math.pyx')
    # mat_mul
    r = PolyInterp(ROLES.get, pyx_rename, filename=pyx.relpath).run(pyx_body_to_ast(pyx.func('mat_mul'), pyx.relpath))
    env = r[0].env
    for i in range(3):
        for j in range(3):
            s = IDX[i] + IDX[j]
            got = env.get(f'targ[{i}][{j}]')
            ctx.check('C04.A6', isinstance(got, Poly) and got == std[s], None, None, f'Cython mat_mul entry {s}: {got!r} vs {std[s]!r}',
                      file=pyx.relpath, func='mat_mul', text=f'mat_mul[{s}]')
    r = PolyInterp(ROLES.get, pyx_rename, filename=pyx.relpath).run(pyx_body_to_ast(pyx.func('vec_rot'), pyx.relpath))
    env = r[0].env
    for c, want in zip('xyz', stdv):
        got = env.get(f'vec.{c}')
        ctx.check('C04.A6', isinstance(got, Poly) and got == want, None, None, f'Cython vec_rot component {c}: {got!r} vs {want!r}',
                  file=pyx.relpath, func='vec_rot', text=f'vec_rot[{c}]')
    r = PolyInterp(ROLES.get, pyx_rename, filename=pyx.relpath).run(pyx_body_to_ast(pyx.func('_mat_from_angle'), pyx.relpath))
    env = r[0].env
    for i in range(3):
        for j in range(3):
            s = IDX[i] + IDX[j]
            got = env.get(f'res[{i}][{j}]')
            ctx.check('C04.A6', isinstance(got, Poly) and nf(got) == nf(FA[s]), None, None, f'Cython _mat_from_angle entry {s}: {got!r} vs Python {FA[s]!r}',
                      file=pyx.relpath, func='_mat_from_angle', text=f'_mat_from_angle[{s}]')
    a5_cy = analyse_to_angle(ctx, 'C04.A6', pyx.relpath, '_mat_to_angle', pyx_body_to_ast(pyx.func('_mat_to_angle'), pyx.relpath), pyx_rename, FA,
                             {'yaw': 'ang.y', 'pitch': 'ang.x', 'roll': 'ang.z'}, None, None)
    ctx.check('C04.A6', a5_cy == a5_python, None, None, f'Cython Euler extraction {a5_cy} differs from Python {a5_python}', file=pyx.relpath,
              func='_mat_to_angle', text='atan2 argument pairs equal')


def a9_operator_purity(ctx: Any, mt: Any) -> None:
    """`Vec @ Angle` must equal `Vec @ Matrix.from_angle(Angle)` whatever happened before.  A module-level cache written by a function on the
    operator path (a `global` rebinding, or a module-level dict/list/set that is stored into) makes the result depend on earlier calls:
    an Angle is mutable, so a matrix remembered for the *object* is stale as soon as the object is changed in place."""
    mutable_globals = {t.id for st in mt.tree.body if isinstance(st, (ast.Assign, ast.AnnAssign)) and st.value is not None
                       and (isinstance(st.value, (ast.Dict, ast.Set, ast.List)) or (isinstance(st.value, ast.Call) and dotted(st.value.func) in ('dict', 'set', 'list', 'collections.OrderedDict', 'WeakKeyDictionary', 'weakref.WeakKeyDictionary')))
                       for t in (st.targets if isinstance(st, ast.Assign) else [st.target]) if isinstance(t, ast.Name)}
    # functions reachable from the rotation operators (by simple name / method name)
    roots = [q for q in mt.all_funcs() if q.split('.')[-1] in ('__matmul__', '__rmatmul__', '__imatmul__', '_rotate_angle', 'from_angle', '_mat_mul', '_vec_rot', '_to_angle')]
    by_name: Dict[str, List[str]] = {}
    for q in mt.all_funcs():
        by_name.setdefault(q.split('.')[-1], []).append(q)
    seen: set = set()
    todo = list(roots)
    while todo:
        q = todo.pop()
        if q in seen:
            continue
        seen.add(q)
        for fn in mt.all_funcs()[q]:
            for c in ast.walk(fn):
                if isinstance(c, ast.Call):
                    nm = c.func.id if isinstance(c.func, ast.Name) else (c.func.attr if isinstance(c.func, ast.Attribute) else None)
                    if nm in by_name and (nm.startswith('_') or nm in ('from_angle', 'copy')):
                        todo += by_name[nm]
    n = 0
    for q in sorted(seen):
        for fn in mt.all_funcs()[q]:
            n += 1
            globs = [g for g in ast.walk(fn) if isinstance(g, ast.Global)]
            stores = [c for c in ast.walk(fn) if (isinstance(c, ast.Call) and isinstance(c.func, ast.Attribute) and isinstance(c.func.value, ast.Name) and c.func.value.id in mutable_globals
                                                 and c.func.attr in ('append', 'add', 'update', 'setdefault', 'pop', 'clear', '__setitem__'))
                      or (isinstance(c, ast.Assign) and any(isinstance(t, ast.Subscript) and isinstance(t.value, ast.Name) and t.value.id in mutable_globals for t in c.targets))]
            bad = (globs or stores)
            ctx.check('C04.A9', not bad, mt, bad[0] if bad else fn, (f'{q} is on the path of a rotation operator and writes module-level state (`{U(bad[0])[:60]}`): what an operator returns then depends on '
                      'earlier calls - a matrix remembered for an Angle object is stale once that object is modified in place, so `v @ ang` differs from `v @ Matrix.from_angle(ang)`') if bad else 'no module-level state written',
                      func=q, text=f'{q}: no module-level state')
    if n < 10:
        raise AnalysisError(f'A9: only {n} functions on the rotation operator path')


ANG_F = ('_pitch', '_yaw', '_roll', 'pitch', 'yaw', 'roll')


def a10_no_component_addition(ctx: Any, mt: Any) -> None:
    """M(A) . M(B) = Mr_a Mp_a My_a Mr_b Mp_b My_b.  Adding the components gives that product only when B - the rotation applied second - has
    no pitch and no roll (then the two yaw matrices meet and merge).  With A a pure yaw the yaw of A has to cross B's roll and pitch, which
    it does not commute with.  So a `X._pitch + Y._pitch, X._yaw + Y._yaw, ...` shortcut must be guarded by `B._pitch == 0 and B._roll == 0`
    in every alternative of its condition."""
    n_fn = 0
    for q, fns in mt.all_funcs().items():
        if q.split('.')[-1] not in ('_rotate_angle', '__matmul__', '__rmatmul__', '__imatmul__') or not q.startswith(('AngleBase', 'Angle', 'FrozenAngle')):
            continue
        for fn in fns:
            n_fn += 1
            sums = [b for b in ast.walk(fn) if isinstance(b, ast.BinOp) and isinstance(b.op, ast.Add) and isinstance(b.left, ast.Attribute) and isinstance(b.right, ast.Attribute)
                    and b.left.attr in ANG_F and b.right.attr.lstrip('_') == b.left.attr.lstrip('_') and isinstance(b.left.value, ast.Name) and isinstance(b.right.value, ast.Name) and b.left.value.id != b.right.value.id]
            if not sums:
                ctx.check('C04.A10', True, mt, fn, 'no component-wise addition', func=q, text=f'{q}: no component-wise addition of two rotations')
                continue
            names = {sums[0].left.value.id, sums[0].right.value.id}
            # which operand is applied second: `mat = from_angle(A)` ... `mat @= B` / `mat._mat_mul(from_angle(B))`
            second = None
            for a in ast.walk(fn):
                if isinstance(a, ast.AugAssign) and isinstance(a.op, ast.MatMult) and isinstance(a.value, ast.Name) and a.value.id in names:
                    second = a.value.id
                if isinstance(a, ast.Call) and isinstance(a.func, ast.Attribute) and a.func.attr == '_mat_mul' and a.args:
                    inner = [x.id for x in ast.walk(a.args[0]) if isinstance(x, ast.Name) and x.id in names]
                    if inner:
                        second = inner[0]
            guard = None
            cur = mt.parents.get(sums[0])
            while cur is not None and cur is not fn:
                if isinstance(cur, ast.If) and any(sums[0] is x for b in cur.body for x in ast.walk(b)):
                    guard = cur.test
                    break
                cur = mt.parents.get(cur)
            if second is None or guard is None:
                ctx.check('C04.A10', guard is not None, mt, sums[0], f'{q} adds the Euler components of two rotations' + (' unconditionally' if guard is None else '; which operand is applied second could not be determined'),
                          func=q, text=f'{q}: component-wise addition guarded') if guard is None else ctx.shape('C04.A10', False, mt, sums[0], 'order of the two operands in the general path not recognised', func=q, text=f'{q}: component-wise addition guarded')
                continue

            def zero_facts(t: ast.AST) -> set:
                out: set = set()
                for c in ast.walk(t):
                    if isinstance(c, ast.Compare) and all(isinstance(o, ast.Eq) for o in c.ops):
                        items = [c.left] + list(c.comparators)
                        if any(isinstance(i, ast.Constant) and i.value == 0 for i in items):
                            for i in items:
                                if isinstance(i, ast.Attribute) and isinstance(i.value, ast.Name):
                                    out.add((i.value.id, i.attr.lstrip('_')))
                return out
            alts = guard.values if isinstance(guard, ast.BoolOp) and isinstance(guard.op, ast.Or) else [guard]
            bad_alt = [a for a in alts if not {(second, 'pitch'), (second, 'roll')} <= zero_facts(a)]
            ctx.check('C04.A10', not bad_alt, mt, sums[0], (f'{q} adds the components of `{sorted(names)[0]}` and `{sorted(names)[1]}` when `{U(bad_alt[0])[:60]}`, which does not make `{second}` (the rotation applied second) a pure yaw: '
                      'a yaw applied FIRST does not commute with the later pitch/roll, e.g. Angle(0, 90, 0) @ Angle(45, 0, 0) is Angle(0, 90, 45), not Angle(45, 90, 0)') if bad_alt else 'shortcut only for a pure-yaw second rotation',
                      func=q, text=f'{q}: component-wise addition guarded')
    if n_fn < 3:
        raise AnalysisError(f'A10: only {n_fn} angle composition functions found')


def a8_pivoting(ctx: Any, mt: Any) -> None:
    """inverse() rejects a matrix whose reduced diagonal has an entry of magnitude <= 1e-5.  With partial pivoting (largest magnitude in the
    column) that only happens for (nearly) singular input.  Any weaker choice - the first non-zero entry, the first entry above some other
    bound - can pick a tiny pivot although a good one exists: a rotation with cos(angle) = 6e-17 (90 degrees in floats) or 1e-6 (an exact
    rotation) is then reported as having no inverse, although its inverse is its transpose."""
    inv = mt.func('MatrixBase.inverse')
    # the pivot-row local: assigned the loop variable of a row search (`<p> = m` inside `for m in ...`) and also tested against -1
    piv_cands = {t.id for l in ast.walk(inv) if isinstance(l, ast.For) and isinstance(l.target, ast.Name) for a in ast.walk(l) if isinstance(a, ast.Assign) and isinstance(a.value, ast.Name) and a.value.id == l.target.id
                 for t in a.targets if isinstance(t, ast.Name)}
    pivrow = sorted(piv_cands)[0] if len(piv_cands) == 1 else 'pivrow'
    sel = [l for l in ast.walk(inv) if isinstance(l, ast.For) and any(isinstance(a, ast.Assign) and any(dotted(t) == pivrow for t in a.targets) and isinstance(a.value, ast.Name) and a.value.id == dotted(l.target)
                                                                     for a in ast.walk(l))]
    sel = [l for l in sel if not any(o is not l and any(x is o for x in ast.walk(l)) for o in sel)]      # innermost only
    if len(sel) != 1:
        ctx.shape('C04.A8', False, mt, inv, 'pivot selection loop (`pivrow = <loop variable>`) not found in inverse()', func='MatrixBase.inverse', text='pivot selection')
        return
    lp = sel[0]
    guards = [i for i in ast.walk(lp) if isinstance(i, ast.If) and any(isinstance(a, ast.Assign) and any(dotted(t) == pivrow for t in a.targets) for a in i.body)]
    if len(guards) != 1:
        ctx.shape('C04.A8', False, mt, lp, 'pivot selection test not recognised', func='MatrixBase.inverse', text='pivot selection')
        return
    g = guards[0]
    t = g.test
    defs = {tt.id: a.value for a in ast.walk(lp) if isinstance(a, (ast.Assign, ast.AnnAssign)) and a.value is not None for tt in (a.targets if isinstance(a, ast.Assign) else [a.target]) if isinstance(tt, ast.Name)}

    def is_abs(e: ast.AST) -> bool:
        e = defs.get(e.id, e) if isinstance(e, ast.Name) else e
        return isinstance(e, ast.Call) and dotted(e.func) in ('abs', 'math.fabs')
    running_max = (isinstance(t, ast.Compare) and len(t.ops) == 1 and isinstance(t.ops[0], (ast.Gt, ast.GtE)) and is_abs(t.left) and isinstance(t.comparators[0], ast.Name)
                   and any(isinstance(a, ast.Assign) and any(dotted(tt) == t.comparators[0].id for tt in a.targets) and U(a.value) == U(t.left) for a in g.body)
                   and not any(isinstance(b, ast.Break) for b in ast.walk(g)))
    if running_max:
        ctx.check('C04.A8', True, mt, g, 'running maximum of |entry|', func='MatrixBase.inverse', text='pivot selection')
        return
    first_hit = any(isinstance(b, ast.Break) for b in g.body) or not any(isinstance(c, ast.Compare) and any(isinstance(x, ast.Name) and x.id not in (dotted(lp.target),) and x.id in defs or False for x in ast.walk(c)) for c in [t])
    nonzero_test = (isinstance(t, ast.Compare) and len(t.ops) == 1 and isinstance(t.ops[0], (ast.NotEq, ast.Gt)) and isinstance(t.comparators[0], ast.Constant)) or isinstance(t, (ast.Subscript, ast.Name, ast.Call))
    if nonzero_test and first_hit:
        ctx.check('C04.A8', False, mt, g, f'inverse() takes the first row whose entry satisfies `{U(t)}` as pivot instead of the entry of largest magnitude: a tiny but non-zero entry (float noise such as cos(90 deg) = 6e-17, '
                  'or a genuinely small cosine) is accepted although a usable pivot exists below it, and the final `abs(v) <= 0.00001` test then rejects a perfectly invertible rotation', func='MatrixBase.inverse', text='pivot selection')
        return
    ctx.shape('C04.A8', False, mt, g, f'pivot selection test `{U(t)}` is not an enumerated form', func='MatrixBase.inverse', text='pivot selection')


def a11_elimination(ctx: Any, mt: Any) -> None:
    """Gauss-Jordan in inverse(): a loop whose body subtracts a multiple of the pivot row from row <loop variable> has to reach every row of
    its range.  `break` (or return) abandons the rows after the current one; `continue` is harmless only when it skips a row whose entry in the
    pivot column is exactly zero (the multiplier would be 0).  Both halves of the augmented matrix get the same update."""
    inv = mt.func('MatrixBase.inverse')
    loops = []
    for l in ast.walk(inv):
        if isinstance(l, ast.For) and isinstance(l.target, ast.Name):
            steps = [a for a in l.body for a in ([a] if isinstance(a, ast.AugAssign) else []) if isinstance(a.op, ast.Sub) and isinstance(a.target, ast.Subscript) and dotted(a.target.slice) == l.target.id]
            if steps:
                loops.append((l, steps))
    ctx.shape('C04.A11', len(loops) == 2, mt, inv, f'two elimination loops (below the pivot, above the pivot) expected in inverse(), found {len(loops)}', func='MatrixBase.inverse', text='elimination loops')
    parents = mt.parents
    for l, steps in loops:
        var = l.target.id
        where = f'for {var} in {U(l.iter)}'
        def own(n: ast.AST) -> bool:
            p = parents.get(n)
            while p is not None and not isinstance(p, (ast.For, ast.While)):
                p = parents.get(p)
            return p is l
        exits = [n for n in ast.walk(l) if isinstance(n, (ast.Break, ast.Return)) and (isinstance(n, ast.Return) or own(n))]
        ctx.check('C04.A11', not exits, mt, exits[0] if exits else l, f'inverse(): `{where}` is left early (line {exits[0].lineno if exits else 0}): the rows after the current one keep their entry in the pivot column, '
                  'the result is not the inverse (a pitch-only rotation already has such an exactly-zero entry)', func='MatrixBase.inverse', text=f'{where}: every row visited')
        for c in [n for n in ast.walk(l) if isinstance(n, ast.Continue) and own(n)]:
            g = parents.get(c)
            t = g.test if isinstance(g, ast.If) and c in g.body else None
            zero_entry = False
            if isinstance(t, ast.Compare) and len(t.ops) == 1 and isinstance(t.ops[0], ast.Eq) and isinstance(t.comparators[0], ast.Constant) and t.comparators[0].value == 0 \
                    and isinstance(t.left, ast.Subscript) and isinstance(t.left.value, ast.Subscript) and dotted(t.left.value.slice) == var:
                zero_entry = True
            if isinstance(t, ast.UnaryOp) and isinstance(t.op, ast.Not) and isinstance(t.operand, ast.Subscript) and isinstance(t.operand.value, ast.Subscript) and dotted(t.operand.value.slice) == var:
                zero_entry = True
            ctx.check('C04.A11', zero_entry, mt, c, f'inverse(): `{where}` skips a row under `{U(t) if t is not None else "?"}`, which is not "its entry in the pivot column is exactly zero"', func='MatrixBase.inverse',
                      text=f'{where}: rows skipped only when already eliminated')
        bases = sorted({dotted(a.target.value) or '?' for a in steps})
        mults = {U(a.value.right) if isinstance(a.value, ast.BinOp) and isinstance(a.value.op, ast.Mult) else U(a.value) for a in steps}
        ctx.check('C04.A11', len(bases) == 2 and len(steps) == 2 and len(mults) == 1, mt, steps[0], f'inverse(): `{where}` updates {bases} with multipliers {sorted(mults)}: both halves of the augmented matrix need the same row operation',
                  func='MatrixBase.inverse', text=f'{where}: same operation on both halves')


def _alias_hazard(fn: ast.AST, params: List[str]) -> Optional[Tuple[str, str, str, ast.AST]]:
    """First (written object, read object, field, node) such that on some path a field of one parameter is written and later the same
    field is read through a different parameter.  Branches are followed separately (a write in one arm is not seen by the other)."""
    found: List[Tuple[str, str, str, ast.AST]] = []

    def reads(e: Optional[ast.AST], written: Dict[str, set]) -> None:
        if e is None:
            return
        for x in ast.walk(e):
            if isinstance(x, ast.Attribute) and isinstance(x.value, ast.Name) and isinstance(x.ctx, ast.Load) and x.value.id in params:
                for tgt, fs in written.items():
                    if tgt != x.value.id and x.attr in fs:
                        found.append((tgt, x.value.id, x.attr, x))

    def writes(t: ast.AST, written: Dict[str, set]) -> None:
        for x in ([t] if not isinstance(t, (ast.Tuple, ast.List)) else t.elts):
            if isinstance(x, (ast.Tuple, ast.List)):
                writes(x, written)
            elif isinstance(x, ast.Attribute) and isinstance(x.value, ast.Name) and x.value.id in params:
                written.setdefault(x.value.id, set()).add(x.attr)

    def merge(a: Dict[str, set], b: Dict[str, set]) -> Dict[str, set]:
        return {k: set(a.get(k, ())) | set(b.get(k, ())) for k in set(a) | set(b)}

    def block(stmts: List[ast.stmt], written: Dict[str, set]) -> Dict[str, set]:
        for st in stmts:
            if isinstance(st, ast.Assign):
                reads(st.value, written)
                for t in st.targets:
                    writes(t, written)
            elif isinstance(st, ast.AugAssign):
                reads(st.value, written)
                writes(st.target, written)
            elif isinstance(st, ast.AnnAssign):
                reads(st.value, written)
                if st.value is not None:
                    writes(st.target, written)
            elif isinstance(st, ast.If):
                reads(st.test, written)
                w1 = block(st.body, {k: set(v) for k, v in written.items()})
                w2 = block(st.orelse, {k: set(v) for k, v in written.items()})
                written = merge(w1, w2)
            elif isinstance(st, (ast.For, ast.While)):
                for _ in range(2):
                    reads(st.iter if isinstance(st, ast.For) else st.test, written)
                    written = merge(written, block(st.body, {k: set(v) for k, v in written.items()}))
                written = block(st.orelse, written)
            elif isinstance(st, ast.Try):
                written = block(st.body, written)
                for h in st.handlers:
                    written = merge(written, block(h.body, {k: set(v) for k, v in written.items()}))
                written = block(st.orelse, written)
                written = block(st.finalbody, written)
            elif isinstance(st, ast.With):
                written = block(st.body, written)
            elif isinstance(st, (ast.Return, ast.Expr)):
                reads(st.value, written)
        return written
    block(list(getattr(fn, 'body', [])), {})
    return found[0] if found else None


def _stale_self_read(fn: ast.AST, me: str) -> Optional[Tuple[str, str, ast.AST]]:
    """In an in-place operator the new components are functions of the OLD components.  First (field being computed, field read, node)
    where, on one path, `me.f` has been assigned and is then read while computing a different field `me.g` of the same object."""
    found: List[Tuple[str, str, ast.AST]] = []

    def fields_read(e: Optional[ast.AST]) -> List[ast.Attribute]:
        return [x for x in ast.walk(e) if isinstance(x, ast.Attribute) and isinstance(x.value, ast.Name) and x.value.id == me and isinstance(x.ctx, ast.Load)] if e is not None else []

    def tfields(t: ast.AST) -> List[str]:
        out: List[str] = []
        for x in ([t] if not isinstance(t, (ast.Tuple, ast.List)) else t.elts):
            if isinstance(x, (ast.Tuple, ast.List)):
                out += tfields(x)
            elif isinstance(x, ast.Attribute) and isinstance(x.value, ast.Name) and x.value.id == me:
                out.append(x.attr)
        return out

    def block(stmts: List[ast.stmt], written: set) -> set:
        for st in stmts:
            if isinstance(st, (ast.Assign, ast.AugAssign, ast.AnnAssign)) and getattr(st, 'value', None) is not None:
                tg = [f for t in (st.targets if isinstance(st, ast.Assign) else [st.target]) for f in tfields(t)]
                if tg:
                    for r in fields_read(st.value):
                        if r.attr in written and any(r.attr != g for g in tg):
                            found.append((next(g for g in tg if g != r.attr), r.attr, r))
                    written = written | set(tg)
            elif isinstance(st, ast.If):
                written = block(st.body, set(written)) | block(st.orelse, set(written))
            elif isinstance(st, (ast.For, ast.While)):
                for _ in range(2):
                    written = written | block(st.body, set(written))
            elif isinstance(st, ast.Try):
                written = block(st.body, written)
                for h in st.handlers:
                    written = written | block(h.body, set(written))
                written = block(st.finalbody, block(st.orelse, written))
            elif isinstance(st, ast.With):
                written = block(st.body, written)
        return written
    block(list(getattr(fn, 'body', [])), set())
    return found[0] if found else None


def a7_alias_safety(ctx: Any, prog: Program, mt: Any, pyx: Any) -> None:
    """m @= m must equal m @ m: a kernel that writes a field of one parameter and later reads the same field through another parameter is
    only correct when the two can never be the same object.  Such a kernel may be called with a receiver created in the caller (a copy),
    never with two of the caller's own arguments."""
    hazards: Dict[str, Tuple[str, str, str, ast.AST]] = {}
    n_fn = 0
    for qual, fns in mt.all_funcs().items():
        for fn in fns:
            params = [a.arg for a in fn.args.args]
            if len(params) < 2:
                continue
            n_fn += 1
            hz = _alias_hazard(fn, params)
            if hz is not None and qual not in hazards:
                hazards[qual] = hz
    for qual, (tgt, src, field, node) in sorted(hazards.items()):
        name = qual.split('.')[-1]
        fn = mt.func(qual)
        params = [a.arg for a in fn.args.args]
        public = not name.startswith('_') or (name.startswith('__') and name.endswith('__'))
        if public:
            ctx.check('C04.A7', False, mt, node, f'{qual} writes {tgt}.{field} and afterwards reads {src}.{field}: when both operands are the same object (x @= x) the result is computed from half-updated values',
                      func=qual, text=f'{qual}: {src}.{field} read after {tgt}.{field} written')
            continue
        # private kernel: every call site must pass a receiver created in the caller
        sites = 0
        for cq, cfns in mt.all_funcs().items():
            for cfn in cfns:
                cparams = {a.arg for a in cfn.args.args}
                fresh = {t.id for n in ast.walk(cfn) if isinstance(n, ast.Assign) and isinstance(n.value, ast.Call) for t in n.targets if isinstance(t, ast.Name)} - cparams
                for c in ast.walk(cfn):
                    if isinstance(c, ast.Call) and isinstance(c.func, ast.Attribute) and c.func.attr == name and isinstance(c.func.value, ast.Name) and len(c.args) == len(params) - 1:
                        actual = dict(zip(params, [c.func.value] + list(c.args)))
                        a_t, a_s = actual.get(tgt), actual.get(src)
                        sites += 1
                        same = isinstance(a_s, ast.Name) and isinstance(a_t, ast.Name) and a_s.id == a_t.id
                        t_fresh = isinstance(a_t, ast.Name) and a_t.id in fresh
                        s_fresh = isinstance(a_s, ast.Call) or (isinstance(a_s, ast.Name) and a_s.id in fresh)
                        ok = not same and (t_fresh or s_fresh)
                        ctx.check('C04.A7', ok, mt, c, f'{cq} calls {name}() with `{U(a_t) if a_t else "?"}` as the object being written and `{U(a_s) if a_s else "?"}` as the one being read; {qual} reads '
                                  f'{src}.{field} after writing {tgt}.{field}, so if both are the same object (x @= x) the result is wrong - pass a fresh copy or make the kernel compute before it assigns',
                                  func=cq, text=f'{cq}: {name}({U(a_s) if a_s else "?"}) on {U(a_t) if a_t else "?"}')
        ctx.shape('C04.A7', sites > 0, mt, fn, f'alias-unsafe kernel {qual} has no recognisable call site', func=qual, text=f'{qual} call sites')
    n_ip = 0
    for qual, fns in mt.all_funcs().items():
        name = qual.split('.')[-1]
        if not (re.fullmatch(r'__i[a-z]+__', name) and name not in ('__init__', '__iter__', '__index__', '__int__', '__invert__', '__init_subclass__', '__instancecheck__')):
            continue
        for fn in fns:
            if not fn.args.args:
                continue
            n_ip += 1
            me = fn.args.args[0].arg
            hz2 = _stale_self_read(fn, me)
            if name == '__imatmul__':
                # the value of every `@=` form is decided exactly by A4 (a staged algorithm - roll, then pitch, then yaw applied in place - reads
                # updated components on purpose); only recorded here
                ctx.check('C04.A7', True, mt, fn, 'value decided by C04.A4', func=qual, text=f'{qual}: staged or single-step update (value decided by A4)')
                continue
            # other in-place operators are not evaluated by A4: a component computed from an already updated one may be a staged algorithm or a
            # slip - not decided from the shape alone
            ctx.shape('C04.A7', hz2 is None, mt, hz2[2] if hz2 else fn, (f'{qual} assigns {me}.{hz2[1]} and then reads it again while computing {me}.{hz2[0]}: whether the operator still computes every component '
                      'from the values the object had before the operation is not decided here') if hz2 else 'components computed from the old values', func=qual, text=f'{qual}: no stale component read')
    if n_ip < 3:
        raise AnalysisError(f'A7: only {n_ip} in-place operator methods found in math.py')
    for k in ('MatrixBase._mat_mul', 'MatrixBase._vec_rot'):
        if k not in hazards:
            ctx.check('C04.A7', True, mt, mt.func(k), 'kernel computes before it assigns (alias safe)', func=k, text=f'{k} alias safe')
    if n_fn < 40:
        raise AnalysisError(f'A7: only {n_fn} multi-parameter functions scanned in math.py')
    # Cython: mat_mul(targ, rot) works row by row in place; a call with the object's own storage and a parameter's storage can alias
    k = pyx.func('mat_mul')
    w_lines = [i for i, ln in enumerate(k.body) if re.match(r'targ\s*\[', ln.text) and '=' in ln.text]
    r_lines = [i for i, ln in enumerate(k.body) if 'rot[' in ln.text.replace(' ', '')]
    in_loop = any(ln.text.startswith('for ') for ln in k.body)
    kernel_unsafe = bool(w_lines and r_lines and (max(r_lines) > min(w_lines) or in_loop)) and not any('memcpy' in ln.text and 'rot' in ln.text for ln in k.body)
    n_calls = 0
    for q, f in pyx.funcs.items():
        hdr = f.header.text
        fparams = [x.strip().split()[-1].split('=')[0].strip('*& ') for x in hdr[hdr.find('(') + 1:hdr.rfind(')')].split(',') if x.strip()]
        for ln in f.body:
            m = re.search(r'\bmat_mul\(\s*([^,]+),\s*(.+)\)\s*$', ln.text)
            if not m or q == 'mat_mul':
                continue
            n_calls += 1
            a, b = m.group(1).strip(), m.group(2).strip()
            own = re.fullmatch(r'self\.mat', a) is not None
            pm = re.fullmatch(r'\(\s*<\s*\w+\s*>\s*(\w+)\s*\)\.mat', b)
            may_alias = own and pm is not None and pm.group(1) in fparams
            ctx.check('C04.A7', not (kernel_unsafe and may_alias), None, type('PyxLine', (), {'lineno': ln.lineno})(), f'{q} calls mat_mul({a}, {b}): the kernel updates its first argument row by row while reading the second, and here both can be the '
                      'same matrix (m @= m)', file=pyx.relpath, func=q, text=f'{q}: mat_mul({a}, {b})')
    if n_calls < 8:
        raise AnalysisError(f'A7: only {n_calls} mat_mul call sites found in _math.pyx')


def a13_inverse_guards(ctx: Any, mt: Any) -> None:
    """A13: inverse() refuses a matrix only for a reason that is true of singular matrices.

    The elimination raises when it finds no pivot.  A test made *before* it on a polynomial of the nine entries (a determinant computed
    by cofactor expansion) is evaluated here in the polynomial domain: a cubic that is not +-det(M) vanishes on some rotations, and
    inverse() - which equals transpose() on rotations - raises for them."""
    ctx.rule('C04.A13', 'a closed-form singularity test of inverse() is +-det(M), and the only other refusal is the missing pivot', floor=1)
    inv = mt.methods('MatrixBase').get('inverse')
    if inv is None:
        raise AnalysisError('anchor vanished: MatrixBase.inverse')
    S = {k: Poly.sym(f'self._{k}') for k in ('aa', 'ab', 'ac', 'ba', 'bb', 'bc', 'ca', 'cb', 'cc')}
    det = S['aa'] * (S['bb'] * S['cc'] - S['bc'] * S['cb']) - S['ab'] * (S['ba'] * S['cc'] - S['bc'] * S['ca']) + S['ac'] * (S['ba'] * S['cb'] - S['bb'] * S['ca'])
    interp = PolyInterp(lambda s_: None, None, filename=mt.relpath)
    env: Dict[str, Any] = {}
    n_g = 0
    for st in inv.body:
        if isinstance(st, (ast.For, ast.While)):
            break            # the elimination: its refusal is the missing pivot
        if isinstance(st, (ast.Assign, ast.AnnAssign)) and getattr(st, 'value', None) is not None:
            try:
                v_ = interp.ev(st.value, env)
            except Exception:
                v_ = None
            for t_ in (st.targets if isinstance(st, ast.Assign) else [st.target]):
                if isinstance(t_, ast.Name):
                    env[t_.id] = v_
        if isinstance(st, ast.If) and any(isinstance(x, ast.Raise) for b in st.body for x in ast.walk(b)):
            polys = []
            for nm_ in [x for x in ast.walk(st.test) if isinstance(x, (ast.Name, ast.BinOp))]:
                try:
                    pv = interp.ev(nm_, env) if not isinstance(nm_, ast.Name) else env.get(nm_.id)
                except Exception:
                    pv = None
                if isinstance(pv, Poly) and pv.is_const() is None:
                    polys.append(pv)
            n_g += 1
            if not polys:
                ctx.shape('C04.A13', False, mt, st, f'inverse() raises under `{U(st.test)[:50]}` before the elimination: the tested quantity is not a polynomial of the entries', func='MatrixBase.inverse', text='closed-form singularity test')
                continue
            p0 = polys[0]
            ok = (p0 - det).is_zero() or (p0 + det).is_zero()
            ctx.check('C04.A13', ok, mt, st, f'inverse() raises when `{U(st.test)[:50]}`, where the tested value is {p0!r} - not the determinant {det!r}: it vanishes for rotations that are perfectly invertible '
                      '(e.g. a yaw of 45 degrees when one cofactor has the wrong sign), and inverse() raises ArithmeticError instead of returning the transpose', func='MatrixBase.inverse', text='closed-form singularity test is the determinant')
    pivots = [r for l in inv.body if isinstance(l, (ast.For, ast.While)) for r in ast.walk(l) if isinstance(r, ast.Raise)]
    ctx.check('C04.A13', len(pivots) >= 1 or n_g >= 1, mt, inv, 'inverse() refuses singular matrices (missing pivot in the elimination)', func='MatrixBase.inverse', text='singular matrices refused')


def a12_inplace_identity(ctx: Any, mt: Any) -> None:
    """`x @= r` on a mutable object changes THAT object: every other reference to it (an alias, a list element, an attribute) has to see the
    rotated value.  The written-out in-place operators of the mutable classes therefore return `self` (or NotImplemented), or the result of
    a method that fills and returns the object it was handed - with `self` in that position."""
    ctx.rule('C04.A12', 'in-place operators of the mutable classes return the object they were applied to', floor=3)
    n = 0
    for cls in ('Vec', 'Matrix', 'Angle'):
        for mname, fn in mt.methods(cls).items():
            if not (mname.startswith('__i') and mname.endswith('__') and mname not in ('__init__', '__iter__', '__index__', '__int__', '__invert__')):
                continue
            me = fn.args.args[0].arg
            for r in [x for x in walk_no_nested(fn) if isinstance(x, ast.Return) and x.value is not None]:
                v = r.value
                n += 1
                ok = (isinstance(v, ast.Name) and v.id in (me, 'NotImplemented'))
                why = f'`{U(v)[:60]}`'
                if not ok and isinstance(v, ast.Call) and isinstance(v.func, ast.Attribute) and any(isinstance(a, ast.Name) and a.id == me for a in v.args):
                    # a method that returns the parameter `self` is passed for
                    pos = next(i for i, a in enumerate(v.args) if isinstance(a, ast.Name) and a.id == me)
                    cands = [f for q, fl in mt.all_funcs().items() if q.split('.')[-1] == v.func.attr and '.' in q for f in fl if len(f.args.args) > pos + 1]
                    if cands:
                        fills = all(all(isinstance(x.value, ast.Name) and x.value.id == f.args.args[pos + 1].arg for x in walk_no_nested(f) if isinstance(x, ast.Return) and x.value is not None) for f in cands)
                        ok = fills
                        why = f'`{U(v)[:60]}`, and {v.func.attr}() ' + ('returns that argument' if fills else 'builds and returns another object')
                    else:
                        ctx.shape('C04.A12', False, mt, r, f'{cls}.{mname}: method {v.func.attr}() not found', func=f'{cls}.{mname}', text=f'{cls}.{mname} returns self')
                        continue
                elif not ok and isinstance(v, ast.Call) and isinstance(v.func, ast.Attribute) and isinstance(v.func.value, ast.Name) and v.func.value.id == me:
                    # `return self._helper(other)`: fine when that method of the class hands back its own `self` on every path
                    hm = mt.methods(cls).get(v.func.attr)
                    for b_ in ('VecBase', 'MatrixBase', 'AngleBase'):
                        if hm is None and cls + 'Base' == b_:
                            hm = mt.methods(b_).get(v.func.attr)
                    if hm is None:
                        ctx.shape('C04.A12', False, mt, r, f'{cls}.{mname}: method {v.func.attr}() not found', func=f'{cls}.{mname}', text=f'{cls}.{mname} returns self')
                        continue
                    hme = hm.args.args[0].arg
                    ok = all(isinstance(x.value, ast.Name) and x.value.id == hme for x in walk_no_nested(hm) if isinstance(x, ast.Return) and x.value is not None) and any(isinstance(x, ast.Return) and x.value is not None for x in walk_no_nested(hm))
                    why = f'`{U(v)[:60]}`, and {v.func.attr}() ' + ('returns its own self' if ok else 'does not return its own self on every path')
                elif not ok and not isinstance(v, (ast.Name, ast.Call)):
                    ctx.shape('C04.A12', False, mt, r, f'{cls}.{mname} returns `{U(v)[:50]}`', func=f'{cls}.{mname}', text=f'{cls}.{mname} returns self')
                    continue
                ctx.check('C04.A12', ok, mt, r, f'{cls}.{mname} returns {why} instead of the object it was applied to: `x {mname[3:-2]}= y` then only rebinds the name, and every other reference to the '
                          'object keeps the old value', func=f'{cls}.{mname}', text=f'{cls}.{mname} returns self')
    ctx.shape('C04.A12', n >= 3, mt, mt.tree, f'{n} returns of in-place operators found', text='in-place operators')
    # A12 (operand coverage): `x @= y` stays in place only while __imatmul__ accepts y; for an operand it answers NotImplemented for, Python
    # evaluates `x = x @ y` instead - a new object, the old one (and every other reference to it) unrotated.  The classes the in-place operator
    # dispatches on must therefore cover those of the plain operator of the same class.
    def _disp_classes(fn_: ast.AST) -> Set[str]:
        out_: Set[str] = set()
        for c_ in walk_no_nested(fn_):
            if isinstance(c_, ast.Call) and dotted(c_.func) == 'isinstance' and len(c_.args) == 2:
                # only positive dispatch tests count (`if not isinstance(other, X): return NotImplemented` accepts X as well)
                for e_ in (c_.args[1].elts if isinstance(c_.args[1], ast.Tuple) else [c_.args[1]]):
                    d_ = dotted(e_)
                    if d_:
                        out_.add(d_.split('.')[-1].replace('Py_', ''))
        return out_
    n_cov = 0
    for cls in ('Vec', 'Matrix', 'Angle'):
        cm = mt.methods(cls)
        for iname, fn_i in cm.items():
            if not re.fullmatch(r'__i(matmul|add|sub|mul|truediv|floordiv|mod)__', iname):
                continue
            pname = '__' + iname[3:]
            fn_p = None
            for c_ in [cls] + [b for b in mro(mt, cls) if b != cls]:
                if pname in mt.methods(c_):
                    fn_p = mt.methods(c_)[pname]
                    break
            if fn_p is None:
                continue
            ci, cp = _disp_classes(fn_i), _disp_classes(fn_p)
            if not ci or not cp:
                continue
            n_cov += 1
            missing = sorted(cp - ci)
            ctx.check('C04.A12', not missing, mt, fn_i, f'{cls}.{iname} dispatches on {sorted(ci)} while {pname} accepts {sorted(cp)}: for {missing} the in-place operator answers NotImplemented, Python falls back to '
                      f'`x = x {pname[2:-2]} y` and binds a NEW object - the object `x` referred to (a list element, an alias) keeps its old value', func=f'{cls}.{iname}', text=f'{cls}.{iname} accepts what {pname} accepts')
    ctx.shape('C04.A12', n_cov >= 2, mt, mt.tree, f'{n_cov} in-place operators with a type dispatch found (Vec.__imatmul__, Matrix.__imatmul__, Angle.__imatmul__ confirmed by hand)', text='in-place operator dispatch')


def analyse_to_angle(ctx: Any, rule: str, relpath: str, qual: str, body: List[ast.stmt], rename: Any, FA: Dict[str, Poly],
                     fields: Dict[str, str], mod: Any, node: Any) -> Dict[str, Any]:
    """Checks the atan2 argument pairs of a matrix->angle function; returns a comparable summary."""
    thresholds: List[str] = []
    tests: List[ast.AST] = []

    def branch(test: ast.AST) -> List[bool]:
        thresholds.append(U(test))
        tests.append(test)
        return [True, False]
    sqrt_defs: Dict[str, Poly] = {}

    def hook(n: ast.Call, a: List[Any]) -> Any:
        return None
    interp = PolyInterp(ROLES.get, rename, branch=branch, filename=relpath, call_hook=hook)
    if mod is not None:
        interp.helpers = {q: fl[0] for q, fl in mod.all_funcs().items() if '.' not in q and q.startswith('_') and len(fl) == 1}       # type: ignore[attr-defined]
    paths = interp.run(body)
    if len(paths) < 2 or len(paths) > 6 or sum(1 for p_ in paths if p_.guards and p_.guards[0][1]) != 1:
        raise AnalysisError(f'{qual}: expected one normal path and at least one gimbal path, got {len(paths)} paths')
    mp = {f'M_{s}': FA[s] for s in SLOTS}
    summary: Dict[str, Any] = {}
    kw = dict(file=relpath, func=qual) if mod is None else dict(func=qual)

    def subst(v: Any) -> Any:
        if isinstance(v, Poly):
            return nf(v.subst(mp))
        if isinstance(v, Opaque) and v.fn == 'sqrt' and isinstance(v.args[0], Poly):
            return ('sqrt', nf(v.args[0].subst(mp)))
        return v
    cP, sP, cY, sY, cR, sR = (Poly.sym(x) for x in ('cP', 'sP', 'cY', 'sY', 'cR', 'sR'))
    n_gimbal = 0
    for pth in paths:
        normal = pth.guards[0][1]
        if not normal:
            n_gimbal += 1
        # further tests inside the gimbal branch split it into several paths: every one of them is a gimbal path and owes the same
        tag = 'normal' if normal else ('gimbal' if n_gimbal == 1 else f'gimbal#{n_gimbal} (under `{U(tests[len(pth.guards) - 1])[:40]}` = {pth.guards[-1][1]})')
        for ang_name, key in fields.items():
            val = pth.env.get(key)
            label = f'{tag} {ang_name}'
            if isinstance(val, Poly):
                c = val.is_const()
                ok = (not normal) and ang_name == 'roll' and c == 0
                ctx.check(rule, ok, mod, node, f'{label}: constant {val!r}; only the gimbal roll may be the constant 0', text=label, **kw)
                summary[label] = repr(val)
                continue
            if not (isinstance(val, Opaque) and val.fn == 'atan2' and len(val.args) == 2):
                raise AnalysisError(f'{qual}: {key} is not assigned from atan2(...) on the {tag} path: {val!r}')
            num, den = subst(val.args[0]), subst(val.args[1])
            summary[label] = (repr(num), repr(den))
            if ang_name == 'yaw' and normal:
                ok = num == nf(cP * sY) and den == nf(cP * cY)
                want = '(cP*sY, cP*cY)'
            elif ang_name == 'roll' and normal:
                ok = num == nf(sR * cP) and den == nf(cR * cP)
                want = '(sR*cP, cR*cP)'
            elif ang_name == 'pitch':
                ok = num == sP and isinstance(den, tuple) and den[0] == 'sqrt' and den[1] == nf(cP * cP)
                want = '(sP, sqrt(cP^2))'
            elif ang_name == 'yaw' and not normal:
                # gimbal: (num, den) must be a unit vector when cP = 0, sP^2 = 1 (then yaw' reproduces the left row with roll = 0)
                if isinstance(num, Poly) and isinstance(den, Poly):
                    g = (num * num + den * den).subst({'cP': Poly.const(0)})
                    g = normal_form(g, {'sP': Poly.const(1), 'sY': REL['sY'], 'sR': REL['sR']})
                    ok = g == Poly.const(1)
                    # and must be built from the left row: -left_x, left_y
                    raw_num, raw_den = val.args
                    ok = ok and raw_num == -Poly.sym('M_ba') and raw_den == Poly.sym('M_bb')
                else:
                    ok = False
                want = '(-left_x, left_y), a unit vector at the pole'
            else:
                ok, want = False, '?'
            ctx.check(rule, ok, mod, node, f'{label}: atan2 arguments {num!r}, {den!r}; expected {want}', text=label, **kw)
    # the branch test must compare the horizontal length of the forward axis (sqrt(cP^2)) with the engine's 0.001,
    # or its square with 0.001**2
    th_ok = False
    th_desc = 'unrecognised'
    if len(tests) >= 1 and isinstance(tests[0], ast.Compare) and len(tests[0].ops) == 1 and isinstance(tests[0].ops[0], ast.Gt) \
            and isinstance(tests[0].comparators[0], ast.Constant):
        cval = float(tests[0].comparators[0].value)
        lhs = subst(interp.ev(tests[0].left, dict(paths[0].env)))
        if isinstance(lhs, tuple) and lhs[0] == 'sqrt' and lhs[1] == nf(cP * cP):
            th_ok = abs(cval - 0.001) < 1e-15
            th_desc = f'horizontal length > {cval}'
        elif isinstance(lhs, Poly) and lhs == nf(cP * cP):
            th_ok = abs(cval - 1e-6) < 1e-18
            th_desc = f'squared horizontal length > {cval}'
        else:
            th_desc = f'{lhs!r} > {cval}'
    ctx.check(rule, th_ok, mod, node, f'gimbal-lock branch must test the horizontal length of the forward axis against 0.001 (or its square against 1e-6); found: {th_desc}',
              text='gimbal threshold', **kw)
    summary['threshold'] = th_desc if th_ok else sorted(set(thresholds))
    return summary


MUTANTS = [
    {'id': 'inverse_precheck_wrong_cofactor_sign', 'file': 'math.py', 'find': "        # We're already in row major\n", 'replace': "        det = (self._aa * (self._bb * self._cc - self._bc * self._cb) + self._ab * (self._ba * self._cc - self._bc * self._ca) + self._ac * (self._ba * self._cb - self._bb * self._ca))\n        if abs(det) <= 0.00001:\n            raise ArithmeticError('singular')\n        # We're already in row major\n", 'expect': 'C04.A13', 'note': 'round 12'},
    {'id': 'ok_inverse_precheck_true_determinant', 'file': 'math.py', 'find': "        # We're already in row major\n", 'replace': "        det = (self._aa * (self._bb * self._cc - self._bc * self._cb) - self._ab * (self._ba * self._cc - self._bc * self._ca) + self._ac * (self._ba * self._cb - self._bb * self._ca))\n        if abs(det) <= 1e-12:\n            raise ArithmeticError('singular')\n        # We're already in row major\n", 'expect': None, 'note': 'round 12: negative control'},
    {'id': 'vec_imatmul_declines_angles', 'file': 'math.py', 'find': "        if isinstance(other, MatrixBase):\n            mat = other\n        elif isinstance(other, AngleBase):\n            mat = Py_Matrix.from_angle(other)\n        else:\n            return NotImplemented\n        # noinspection PyProtectedMember\n        mat._vec_rot(self)", 'replace': "        if isinstance(other, MatrixBase):\n            mat = other\n        else:\n            return NotImplemented\n        # noinspection PyProtectedMember\n        mat._vec_rot(self)", 'expect': 'C04.A12', 'note': 'round 12'},
    {'id': 'frozen_angle_matrix_memoised', 'file': 'math.py', 'find': "def _mk_vec(x: float, y: float, z: float) -> Vec:", 'replace': "@__import__('functools').lru_cache(maxsize=1024)\ndef _frozen_angle_matrix(ang: FrozenAngle) -> FrozenMatrix:\n    return Py_FrozenMatrix.from_angle(ang.pitch, ang.yaw, ang.roll)\n\n\ndef _mk_vec(x: float, y: float, z: float) -> Vec:", 'expect': 'C04.A9'},
    {'id': 'angle_imatmul_returns_new_angle', 'file': 'math.py', 'find': "            mat = Py_Matrix.from_angle(self)\n            mat @= other\n            return mat._to_angle(self)  # Inplace", 'replace': "            return other._rotate_angle(self, Py_Angle)", 'expect': 'C04.A12'},
    {'id': 'gimbal_yaw_from_forward_axis_near_pole', 'file': 'math.py', 'find': "            ang._yaw = math.degrees(math.atan2(-left_x, left_y)) % 360.0 % 360.0\n", 'replace': "            if horiz_dist > 1e-9:\n                ang._yaw = math.degrees(math.atan2(for_y, for_x)) % 360.0 % 360.0\n            else:\n                ang._yaw = math.degrees(math.atan2(-left_x, left_y)) % 360.0 % 360.0\n", 'expect': 'C04.A5'},
    {'id': 'vec_rot_skips_near_origin', 'file': 'math.py', 'find': '    def _vec_rot(self, vec: VecBase) -> None:\n        """Rotate a vector by our value, inplace (even if frozen)."""\n', 'replace': '    def _vec_rot(self, vec: VecBase) -> None:\n        """Rotate a vector by our value, inplace (even if frozen)."""\n        if vec == (0.0, 0.0, 0.0):\n            return\n', 'expect': 'C04.A3'},
    {'id': 'to_angle_pitch_by_asin', 'file': 'math.py', 'find': "        if horiz_dist > 0.001:\n            ang._yaw = math.degrees(math.atan2(for_y, for_x)) % 360.0 % 360.0\n            ang._pitch = math.degrees(math.atan2(-for_z, horiz_dist)) % 360.0 % 360.0", 'replace': "        if horiz_dist > 0.001:\n            ang._yaw = math.degrees(math.atan2(for_y, for_x)) % 360.0 % 360.0\n            ang._pitch = math.degrees(math.asin(-for_z)) % 360.0 % 360.0", 'expect': 'C04.A5'},
    {'id': 'imatmul_staged_pitch_backwards', 'file': 'math.py', 'find': '            self._mat_mul(Py_Matrix.from_angle(other))\n', 'replace': '            if other._roll != 0.0:\n                rad = math.radians(other._roll)\n                cos, sin = math.cos(rad), math.sin(rad)\n                self._ab, self._ac = self._ab * cos - self._ac * sin, self._ab * sin + self._ac * cos\n                self._bb, self._bc = self._bb * cos - self._bc * sin, self._bb * sin + self._bc * cos\n                self._cb, self._cc = self._cb * cos - self._cc * sin, self._cb * sin + self._cc * cos\n            if other._pitch != 0.0:\n                rad = math.radians(other._pitch)\n                cos, sin = math.cos(rad), math.sin(rad)\n                self._aa, self._ac = self._aa * cos - self._ac * sin, self._aa * sin + self._ac * cos\n                self._ba, self._bc = self._ba * cos - self._bc * sin, self._ba * sin + self._bc * cos\n                self._ca, self._cc = self._ca * cos - self._cc * sin, self._ca * sin + self._cc * cos\n            if other._yaw != 0.0:\n                rad = math.radians(other._yaw)\n                cos, sin = math.cos(rad), math.sin(rad)\n                self._aa, self._ab = self._aa * cos - self._ab * sin, self._aa * sin + self._ab * cos\n                self._ba, self._bb = self._ba * cos - self._bb * sin, self._ba * sin + self._bb * cos\n                self._ca, self._cb = self._ca * cos - self._cb * sin, self._ca * sin + self._cb * cos\n', 'expect': 'C04.A4'},
    {'id': 'ok_imatmul_staged_in_place', 'file': 'math.py', 'find': '            self._mat_mul(Py_Matrix.from_angle(other))\n', 'replace': '            if other._roll != 0.0:\n                rad = math.radians(other._roll)\n                cos, sin = math.cos(rad), math.sin(rad)\n                self._ab, self._ac = self._ab * cos - self._ac * sin, self._ab * sin + self._ac * cos\n                self._bb, self._bc = self._bb * cos - self._bc * sin, self._bb * sin + self._bc * cos\n                self._cb, self._cc = self._cb * cos - self._cc * sin, self._cb * sin + self._cc * cos\n            if other._pitch != 0.0:\n                rad = math.radians(other._pitch)\n                cos, sin = math.cos(rad), math.sin(rad)\n                self._ac, self._aa = self._ac * cos - self._aa * sin, self._ac * sin + self._aa * cos\n                self._bc, self._ba = self._bc * cos - self._ba * sin, self._bc * sin + self._ba * cos\n                self._cc, self._ca = self._cc * cos - self._ca * sin, self._cc * sin + self._ca * cos\n            if other._yaw != 0.0:\n                rad = math.radians(other._yaw)\n                cos, sin = math.cos(rad), math.sin(rad)\n                self._aa, self._ab = self._aa * cos - self._ab * sin, self._aa * sin + self._ab * cos\n                self._ba, self._bb = self._ba * cos - self._bb * sin, self._ba * sin + self._bb * cos\n                self._ca, self._cb = self._ca * cos - self._cb * sin, self._ca * sin + self._cb * cos\n', 'expect': None},
    {'id': 'ok_angle_matrix_shared_helper', 'file': 'math.py', 'find': "    def __matmul__(self, other: 'MatrixBase | AngleBase') -> Self:\n        if isinstance(other, MatrixBase):\n            rot = other", 'replace': "    def _ang_rot(self, source: 'AngleBase', dest: AngleT) -> AngleT:\n        mat = Py_Matrix.from_angle(source)\n        mat._mat_mul(self)\n        return mat._to_angle(dest)\n\n    def __matmul__(self, other: 'MatrixBase | AngleBase') -> Self:\n        if isinstance(other, MatrixBase):\n            rot = other", 'extra': [{'file': 'math.py', 'find': "        elif isinstance(other, MatrixBase):\n            mat = Py_Matrix.from_angle(self)\n            mat._mat_mul(other)\n            cls = type(self)\n            return mat._to_angle(cls.__new__(cls))", 'replace': "        elif isinstance(other, MatrixBase):\n            cls = type(self)\n            return other._ang_rot(self, cls.__new__(cls))"}], 'expect': None},
    {'id': 'elimination_breaks_on_zero', 'file': 'math.py', 'find': "            for m in range(n+1, 3):\n                # Get the multiplier\n", 'replace': "            for m in range(n+1, 3):\n                if mat_l[m][n] == 0.0:\n                    break\n                # Get the multiplier\n", 'expect': 'C04.A11'},
    {'id': 'ok_elimination_continues_on_zero', 'file': 'math.py', 'find': "            for m in range(n+1, 3):\n                # Get the multiplier\n", 'replace': "            for m in range(n+1, 3):\n                if mat_l[m][n] == 0.0:\n                    continue\n                # Get the multiplier\n", 'expect': None},
    {'id': 'elimination_right_half_forgotten', 'file': 'math.py', 'find': "                mat_l[m] -= mat_l[n] * v\n                mat_r[m] -= mat_r[n] * v\n", 'replace': "                mat_l[m] -= mat_l[n] * v\n", 'expect': 'C04.A11'},
    {'id': 'angle_addition_when_either_is_pure_yaw', 'file': 'math.py', 'find': "        mat = Py_Matrix.from_angle(target)\n        mat @= self\n", 'replace': "        if (target._pitch == 0.0 == target._roll) or (self._pitch == 0.0 == self._roll):\n            return cls(target._pitch + self._pitch, target._yaw + self._yaw, target._roll + self._roll)\n        mat = Py_Matrix.from_angle(target)\n        mat @= self\n", 'expect': 'C04.A10'},
    {'id': 'angle_addition_when_second_is_pure_yaw', 'file': 'math.py', 'find': "        mat = Py_Matrix.from_angle(target)\n        mat @= self\n", 'replace': "        if self._pitch == 0.0 == self._roll:\n            return cls(target._pitch + self._pitch, target._yaw + self._yaw, target._roll + self._roll)\n        mat = Py_Matrix.from_angle(target)\n        mat @= self\n", 'expect': None, 'refuse_ok': True},
    {'id': 'vec_rotation_matrix_memo', 'file': 'math.py', 'find': "        elif isinstance(other, AngleBase):\n            mat = Py_Matrix.from_angle(other)\n        else:\n            return NotImplemented\n        res = type(self)(self._x, self._y, self._z)", 'replace': "        elif isinstance(other, AngleBase):\n            mat = _angle_rot(other)\n        else:\n            return NotImplemented\n        res = type(self)(self._x, self._y, self._z)", 'extra': [{'file': 'math.py', 'find': "def format_float(x: float, places: int = 6) -> str:", 'replace': "_last_vec_rot = (None, None)\n\n\ndef _angle_rot(ang):\n    global _last_vec_rot\n    last_ang, mat = _last_vec_rot\n    if mat is None or last_ang is not ang:\n        mat = Py_Matrix.from_angle(ang)\n        _last_vec_rot = (ang, mat)\n    return mat\n\n\ndef format_float(x: float, places: int = 6) -> str:"}], 'expect': 'C04.A9'},
    {'id': 'trig_values_snapped_in_helper', 'file': 'math.py', 'find': "        rad_yaw = math.radians(yaw)\n        sin = math.sin(rad_yaw)\n        cos = math.cos(rad_yaw)\n", 'replace': "        sin, cos = _sin_cos(yaw)\n", 'extra': [{'file': 'math.py', 'find': "def format_float(x: float, places: int = 6) -> str:", 'replace': "def _sin_cos(degrees: float) -> 'tuple[float, float]':\n    rad = math.radians(degrees)\n    sin = math.sin(rad)\n    cos = math.cos(rad)\n    if abs(sin) < 1e-6:\n        return 0.0, math.copysign(1.0, cos)\n    return sin, cos\n\n\ndef format_float(x: float, places: int = 6) -> str:"}], 'expect': 'C04.A1'},
    {'id': 'trig_values_through_plain_helper', 'file': 'math.py', 'find': "        rad_yaw = math.radians(yaw)\n        sin = math.sin(rad_yaw)\n        cos = math.cos(rad_yaw)\n", 'replace': "        sin, cos = _sin_cos(yaw)\n", 'extra': [{'file': 'math.py', 'find': "def format_float(x: float, places: int = 6) -> str:", 'replace': "def _sin_cos(degrees: float) -> 'tuple[float, float]':\n    rad = math.radians(degrees)\n    return math.sin(rad), math.cos(rad)\n\n\ndef format_float(x: float, places: int = 6) -> str:"}], 'expect': None},
    {'id': 'transpose_from_raw_one_pair_unswapped', 'file': 'math.py', 'find': "        cls = type(self)\n        rot = cls.__new__(cls)\n\n        rot._aa, rot._ab, rot._ac = self._aa, self._ba, self._ca\n        rot._ba, rot._bb, rot._bc = self._ab, self._bb, self._cb\n        rot._ca, rot._cb, rot._cc = self._ac, self._bc, self._cc\n\n        return rot", 'replace': "        return type(self)._from_raw(\n            self._aa, self._ba, self._ca,\n            self._ab, self._bb, self._bc,\n            self._ac, self._bc, self._cc,\n        )", 'expect': 'C04.A3'},
    {'id': 'transpose_from_raw_correct', 'file': 'math.py', 'find': "        cls = type(self)\n        rot = cls.__new__(cls)\n\n        rot._aa, rot._ab, rot._ac = self._aa, self._ba, self._ca\n        rot._ba, rot._bb, rot._bc = self._ab, self._bb, self._cb\n        rot._ca, rot._cb, rot._cc = self._ac, self._bc, self._cc\n\n        return rot", 'replace': "        return type(self)._from_raw(\n            self._aa, self._ba, self._ca,\n            self._ab, self._bb, self._cb,\n            self._ac, self._bc, self._cc,\n        )", 'expect': None},
    {'id': 'inverse_first_nonzero_pivot', 'file': 'math.py', 'find': "                va: float = abs(mat_l[m][n])\n\n                if va > la:\n                    pivrow = m\n                    la = va\n", 'replace': "                if mat_l[m][n] != 0.0:\n                    pivrow = m\n                    break\n", 'expect': 'C04.A8'},
    {'id': 'mat_mul_rowwise_again', 'file': 'math.py', 'find': "        (\n            self._aa, self._ab, self._ac,\n            self._ba, self._bb, self._bc,\n            self._ca, self._cb, self._cc,\n        ) = (\n            self._aa * other._aa + self._ab * other._ba + self._ac * other._ca,\n            self._aa * other._ab + self._ab * other._bb + self._ac * other._cb,\n            self._aa * other._ac + self._ab * other._bc + self._ac * other._cc,\n", 'replace': "        self._aa, self._ab, self._ac = (\n            self._aa * other._aa + self._ab * other._ba + self._ac * other._ca,\n            self._aa * other._ab + self._ab * other._bb + self._ac * other._cb,\n            self._aa * other._ac + self._ab * other._bc + self._ac * other._cc,\n        )\n        (\n            self._ba, self._bb, self._bc,\n            self._ca, self._cb, self._cc,\n        ) = (\n", 'expect': 'C04.A7'},
    {'id': 'cython_imatmul_copies_operand', 'file': '_math.pyx', 'find': "        if mat_check(other):\n            mat_mul(self.mat, (<MatrixBase>other).mat)\n            return self", 'replace': "        if mat_check(other):\n            memcpy(temp, (<MatrixBase>other).mat, sizeof(mat_t))\n            mat_mul(self.mat, temp)\n            return self", 'expect': None, 'repairs': ['Matrix.__imatmul__']},
    {'id': 'from_angle_sign', 'file': 'math.py', 'find': "        rot._ba = sin_p * sin_r_cos_y - cos_r_sin_y", 'replace': "        rot._ba = sin_p * sin_r_cos_y + cos_r_sin_y", 'expect': 'C04.A1'},
    {'id': 'from_yaw_transposed', 'file': 'math.py', 'find': "        rot._aa, rot._ab, rot._ac = cos, sin, 0.0\n        rot._ba, rot._bb, rot._bc = -sin, cos, 0.0", 'replace': "        rot._aa, rot._ab, rot._ac = cos, -sin, 0.0\n        rot._ba, rot._bb, rot._bc = sin, cos, 0.0", 'expect': 'C04.A1'},
    {'id': 'axis_angle_term', 'file': 'math.py', 'find': "        mat._bc = y*z * icos - x*sin", 'replace': "        mat._bc = y*z * icos + x*sin", 'expect': 'C04.A2'},
    {'id': 'mat_mul_index', 'file': 'math.py', 'find': "            self._ba * other._ab + self._bb * other._bb + self._bc * other._cb,", 'replace': "            self._ba * other._ab + self._bb * other._bb + self._bc * other._bc,", 'expect': 'C04.A3'},
    {'id': 'vec_rot_column', 'file': 'math.py', 'find': "        vec._y = (x * self._ab) + (y * self._bb) + (z * self._cb)", 'replace': "        vec._y = (x * self._ba) + (y * self._bb) + (z * self._bc)", 'expect': 'C04.A3'},
    {'id': 'rmatmul_order_swapped', 'file': 'math.py', 'find': "                other._ca, other._cb, other._cc,\n            )\n            mat._mat_mul(self)\n            return mat", 'replace': "                other._ca, other._cb, other._cc,\n            )\n            mat = Py_Matrix.from_angle(self.to_angle())\n            mat._mat_mul(other)\n            return mat", 'expect': None, 'note': 'negative control: __rmatmul__ matrix arm is unreachable for the documented pairs (left __matmul__ handles them)'},
    {'id': 'matmul_order_swapped', 'file': 'math.py', 'find': "        mat = type(self)._from_raw(\n            self._aa, self._ab, self._ac,\n            self._ba, self._bb, self._bc,\n            self._ca, self._cb, self._cc,\n        )\n        mat._mat_mul(rot)\n        return mat", 'replace': "        mat = type(self)._from_raw(\n            rot._aa, rot._ab, rot._ac,\n            rot._ba, rot._bb, rot._bc,\n            rot._ca, rot._cb, rot._cc,\n        )\n        mat._mat_mul(self)\n        return mat", 'expect': 'C04.A4'},
    {'id': 'angle_rmatmul_skips_from_angle', 'file': 'math.py', 'find': "        elif isinstance(other, tuple):\n            return Vec(other) @ Py_Matrix.from_angle(self)", 'replace': "        elif isinstance(other, tuple):\n            return NotImplemented", 'expect': 'C04.A4'},
    {'id': 'matrix_imatmul_angle_wrong_receiver', 'file': 'math.py', 'find': "        elif isinstance(other, AngleBase):\n            self._mat_mul(Py_Matrix.from_angle(other))\n            return self", 'replace': "        elif isinstance(other, AngleBase):\n            Py_Matrix.from_angle(other)._mat_mul(self)\n            return self", 'expect': 'C04.A4'},
    {'id': 'to_angle_yaw_args_swapped', 'file': 'math.py', 'find': "            ang._yaw = math.degrees(math.atan2(for_y, for_x)) % 360.0", 'replace': "            ang._yaw = math.degrees(math.atan2(for_x, for_y)) % 360.0", 'expect': 'C04.A5'},
    {'id': 'to_angle_roll_wrong_row', 'file': 'math.py', 'find': "        left_z = self._bc", 'replace': "        left_z = self._cb", 'expect': 'C04.A5'},
    {'id': 'gimbal_threshold', 'file': 'math.py', 'find': "        if horiz_dist > 0.001:", 'replace': "        if horiz_dist > 0.01:", 'expect': 'C04.A5'},
    {'id': 'cy_from_angle', 'file': '_math.pyx', 'find': "    res[2][1] = sin(p) * cos(r) * sin(y) - sin(r) * cos(y)", 'replace': "    res[2][1] = sin(p) * cos(r) * sin(y) + sin(r) * cos(y)", 'expect': 'C04.A6'},
    {'id': 'cy_vec_rot', 'file': '_math.pyx', 'find': "    vec.z = (x * mat[0][2]) + (y * mat[1][2]) + (z * mat[2][2])", 'replace': "    vec.z = (x * mat[2][0]) + (y * mat[2][1]) + (z * mat[2][2])", 'expect': 'C04.A6'},
    {'id': 'cy_to_angle', 'file': '_math.pyx', 'find': "        ang.z = norm_ang(rad_2_deg(math.atan2(mat[1][2], mat[2][2])))", 'replace': "        ang.z = norm_ang(rad_2_deg(math.atan2(mat[2][1], mat[2][2])))", 'expect': 'C04.A6'},
    {'id': 'refactor_cos_names', 'file': 'math.py', 'find': "        rot._bc = sin_r * cos_p\n", 'replace': "        rot._bc = cos_p * sin_r\n", 'expect': None, 'note': 'negative control: commuted product'},
]
