"""C10 - saving an unmodified BSP is lossless whichever views were looked at (DESIGN.md C10).

  B1  every cleared lump is rebuilt: for each ParsedLump(main, *extra) view, `_lmp_write_<name>` assigns
      self.lumps[BSP_LUMPS.<e>].data for every <e> in extra on every normally-returning path (CFG must-pass-through),
      and returns/yields the main data.  (ParsedLump.__get__ blanks all of to_clear.)
  B2  rebuild order: a writer of lump L that reads another view V (directly or through a BSP helper method) requires
      pos(L) < pos(main(V)) in LUMP_REBUILD_ORDER, and a writer never reads its *own* view: save() has already popped
      it, so reading it re-parses the (blanked) lump and discards the caller's data.
  B3  tables: LUMP_REBUILD_ORDER contains the main lump of every view exactly once; LUMP_WRITE_ORDER is a permutation of
      BSP_LUMPS; every view has _lmp_read_*/_lmp_write_*; readers store lump data only for lumps of their own to_clear.
  B4  header agreement: read and save agree on the per-lump header record in both field orders (normal, L4D2) and on
      the game-lump directory record.
  B5  compression symmetry: save compresses exactly the lumps flagged is_compressed (never PAKFILE), stores the
      uncompressed length in the slot whose positivity read() uses as the flag; compressed game lumps get the trailing
      dummy directory entry; read() decompresses exactly when it set the flag.
  B6  ParsedLump.__get__ caches the parsed value before blanking, and blanks exactly to_clear.
"""
from __future__ import annotations

import ast
from typing import Any, Dict, List, Optional, Set, Tuple

from engine.srcmatch import U
from engine.cfg import build_cfg
from engine.fold import Folder
from engine.model import AnalysisError, Program, dotted, walk_no_nested

LEVEL = 'other'


def views_of(bsp: Any) -> Dict[str, List[str]]:
    views: Dict[str, List[str]] = {}
    for st in bsp.cls('BSP').body:
        val = getattr(st, 'value', None)
        if isinstance(st, (ast.AnnAssign, ast.Assign)) and isinstance(val, ast.Call) and dotted(val.func) == 'ParsedLump':
            name = st.target.id if isinstance(st, ast.AnnAssign) else st.targets[0].id
            views[name] = [U(a) for a in val.args]
    return views


def lump_store_target(n: ast.AST) -> Optional[str]:
    """'BSP_LUMPS.X' if n is an assignment target `self.lumps[BSP_LUMPS.X].data`"""
    if isinstance(n, ast.Attribute) and n.attr == 'data' and isinstance(n.value, ast.Subscript) and dotted(n.value.value) in ('self.lumps', 'self.game_lumps'):
        return U(n.value.slice)
    return None


def run(ctx: Any, prog: Program) -> None:
    bsp = prog.module('bsp')
    ms = bsp.methods('BSP')
    views = views_of(bsp)
    if len(views) < 15:
        raise AnalysisError(f'only {len(views)} ParsedLump views found in class BSP')
    ctx.not_decided += ['byte identity of untouched lumps (needs LZMA determinism)', 'equality of parsed content after a round trip (C11 decides the reader/writer pairs)',
                        'second save fixed point']
    ctx.rule('C10.B1', 'every lump a view blanks when parsed is rebuilt by its writer on every path', floor=12)
    ctx.rule('C10.B2', 'writers only read views that are rebuilt later, never their own view', floor=20)
    ctx.rule('C10.B3', 'rebuild/write order tables are complete and every view has a reader and a writer', floor=45)
    ctx.rule('C10.B4', 'read() and save() agree on the lump header record in both field orders and on the game-lump directory', floor=6)
    ctx.rule('C10.B5', 'compression flag, stored length and decompression are symmetric between save() and read()', floor=6)
    ctx.rule('C10.B7', 'save() decides lump by lump, in rebuild order, whether a view is parsed (writers parse further views while saving)', floor=2)
    ctx.rule('C10.B8', 'lump writers do not modify header-level state (map revision, version, lump versions/flags)', floor=20)
    ctx.rule('C10.B9', 'the output separator used on save is the one observed in the entity lump, not guessed from the header version', floor=2)
    ctx.rule('C10.B10', 'the LZMA header of a compressed lump describes the filter the stream was encoded with (the decoder is built from the header)', floor=4)
    ctx.rule('C10.B6', 'ParsedLump.__get__ caches the parsed value and blanks exactly to_clear', floor=2)

    order_node = bsp.global_assign('LUMP_REBUILD_ORDER')
    if not isinstance(order_node, ast.List):
        raise AnalysisError('LUMP_REBUILD_ORDER is not a list literal')
    order = [U(e) for e in order_node.elts]
    pos = {k: i for i, k in enumerate(order)}
    main_of = {v: args[0] for v, args in views.items()}

    # ---- B3 --------------------------------------------------------------------------------------------
    for v, args in views.items():
        ctx.check('C10.B3', order.count(args[0]) == 1, bsp, order_node, f'main lump {args[0]} of view `{v}` must appear exactly once in LUMP_REBUILD_ORDER (found {order.count(args[0])}): '
                  'save() only rebuilds lumps listed there', func='<module>', text=f'rebuild order has {args[0]}')
        suffix = v.lstrip('_')
        ctx.check('C10.B3', f'_lmp_read_{suffix}' in ms and f'_lmp_write_{suffix}' in ms, bsp, bsp.cls('BSP'), f'view `{v}` needs _lmp_read_{suffix} and _lmp_write_{suffix}',
                  func='BSP', text=f'view {v} has reader and writer')
    extra_entries = [o for o in order if o not in main_of.values()]
    ctx.check('C10.B3', not extra_entries, bsp, order_node, f'LUMP_REBUILD_ORDER lists {extra_entries} which no view owns (save() would KeyError in _save_funcs only if parsed; harmless but stale)',
              func='<module>', text='no unowned entries in rebuild order')
    fold = Folder(prog, bsp)
    lumps_enum = fold.enum_table('BSP_LUMPS')
    all_lumps = {m.name for m in lumps_enum}
    # LUMP_WRITE_ORDER = list(BSP_LUMPS); remove(PAKFILE); append(PAKFILE)
    wo_stmts = [st for st in bsp.tree.body if 'LUMP_WRITE_ORDER' in U(st)[:40]]
    src = [U(s) for s in wo_stmts]
    ok = src[:3] == ['LUMP_WRITE_ORDER = list(BSP_LUMPS)', 'LUMP_WRITE_ORDER.remove(BSP_LUMPS.PAKFILE)', 'LUMP_WRITE_ORDER.append(BSP_LUMPS.PAKFILE)'] and len(src) == 3
    if not ok:
        # generic: must start from list(BSP_LUMPS) and only remove/append the same members
        removed = [s for s in src if '.remove(' in s]
        appended = [s for s in src if '.append(' in s]
        ok = bool(src) and src[0] == 'LUMP_WRITE_ORDER = list(BSP_LUMPS)' and sorted(x.split('(')[-1] for x in removed) == sorted(x.split('(')[-1] for x in appended) \
            and len(removed) + len(appended) + 1 == len(src)
    ctx.check('C10.B3', ok, bsp, wo_stmts[0] if wo_stmts else bsp.tree, 'LUMP_WRITE_ORDER must remain a permutation of all BSP_LUMPS members (a missing lump is never written)',
              func='<module>', text='write order is a permutation')
    # readers only store data for lumps in their own to_clear
    for v, args in views.items():
        rd = ms.get('_lmp_read_' + v.lstrip('_'))
        if rd is None:
            continue
        for n in walk_no_nested(rd):
            if isinstance(n, ast.Assign):
                for t in n.targets:
                    tgt = lump_store_target(t)
                    if tgt is not None:
                        ctx.check('C10.B3', tgt in args, bsp, n, f'reader of view `{v}` overwrites {tgt}, which is not one of its own lumps {args}', func=f'BSP._lmp_read_{v}',
                                  text=f'{v} reader stores {tgt}')
    # ---- B1 --------------------------------------------------------------------------------------------
    def helper_closure(fn: ast.AST, depth: int = 0, seen: Optional[Set[str]] = None) -> List[Tuple[str, ast.AST]]:
        seen = seen if seen is not None else set()
        out = []
        for n in walk_no_nested(fn):
            if isinstance(n, ast.Call) and isinstance(n.func, ast.Attribute) and dotted(n.func.value) == 'self' and n.func.attr in ms \
                    and n.func.attr not in seen and depth < 3:
                seen.add(n.func.attr)
                out.append((n.func.attr, ms[n.func.attr]))
                out += helper_closure(ms[n.func.attr], depth + 1, seen)
        return out

    for v, args in views.items():
        wr = ms['_lmp_write_' + v.lstrip('_')]
        rdr = ms['_lmp_read_' + v.lstrip('_')]
        # sibling agreement: a guard under which the *reader* returns at once without consuming anything (format variant
        # that does not have this data) may also be skipped by the writer
        skip_guards = set()
        for st in rdr.body:
            if isinstance(st, ast.If) and st.body and isinstance(st.body[-1], ast.Return) and st.body[-1].value is None \
                    and not any(isinstance(x, (ast.Yield, ast.YieldFrom)) for s2 in st.body for x in ast.walk(s2)):
                skip_guards.add(U(st.test))
        for extra in args[1:]:
            g = build_cfg(wr, lambda s: False)
            skip_edges = {(t.id, m, lab) for t in g.nodes if t.kind == 'test' and U(t.stmt) in skip_guards for m, lab in g.succ[t.id] if lab == 'true'}
            assign_nodes = set()
            for nd in g.nodes:
                if nd.kind == 'stmt' and isinstance(nd.stmt, ast.Assign) and any(lump_store_target(t) == extra for t in nd.stmt.targets):
                    assign_nodes.add(nd.id)
                # a helper called in this statement that itself always assigns it
                if nd.kind in ('stmt', 'return') and nd.stmt is not None:
                    for c in ast.walk(nd.stmt):
                        if isinstance(c, ast.Call) and isinstance(c.func, ast.Attribute) and dotted(c.func.value) == 'self' and c.func.attr in ms:
                            hg = build_cfg(ms[c.func.attr], lambda s: False)
                            hassign = {h.id for h in hg.nodes if h.kind == 'stmt' and isinstance(h.stmt, ast.Assign) and any(lump_store_target(t) == extra for t in h.stmt.targets)}
                            if hassign and hg.find_path(hg.entry, {hg.exit.id}, removed_nodes=hassign) is None:
                                assign_nodes.add(nd.id)
            p = g.find_path(g.entry, {g.exit.id}, removed_nodes=assign_nodes, removed_edges=skip_edges)
            ctx.check('C10.B1', p is None and bool(assign_nodes), bsp, wr,
                      f'view `{v}` blanks {extra} when parsed, but _lmp_write_{v} can finish without assigning self.lumps[{extra}].data'
                      + (f' (path: {g.describe(p)[:160]})' if p else ' (no assignment found)') + ': the lump is saved empty after merely looking at the view',
                      func=f'BSP._lmp_write_{v}', text=f'{v} rebuilds {extra}')
        # main data returned / yielded
        has_out = any(isinstance(n, (ast.Yield, ast.YieldFrom)) or (isinstance(n, ast.Return) and n.value is not None) for n in walk_no_nested(wr))
        ctx.check('C10.B1', has_out, bsp, wr, f'_lmp_write_{v} must return or yield the bytes of its main lump', func=f'BSP._lmp_write_{v}', text=f'{v} returns main data')
    # ---- B2 --------------------------------------------------------------------------------------------
    for v, args in views.items():
        wr = ms['_lmp_write_' + v.lstrip('_')]
        funcs = [('_lmp_write_' + v, wr)] + helper_closure(wr)
        for fname, fn in funcs:
            for n in walk_no_nested(fn):
                if isinstance(n, ast.Attribute) and dotted(n.value) == 'self' and n.attr in views and isinstance(n.ctx, ast.Load):
                    used = n.attr
                    via = '' if fn is wr else f' (via self.{fname}())'
                    if used == v:
                        ctx.check('C10.B2', False, bsp, n, f'_lmp_write_{v} reads its own view self.{v}{via} instead of the data it is given: save() has popped the parsed value, so this '
                                  f're-parses the blanked lump {args[0]}, caches an empty result and the caller\'s data is written nowhere', func=f'BSP.{fname}', text=f'{v} writer reads own view')
                        continue
                    if args[0] not in pos or main_of[used] not in pos:
                        continue        # already reported by B3 (missing from LUMP_REBUILD_ORDER)
                    ok = pos[args[0]] < pos[main_of[used]]
                    ctx.check('C10.B2', ok, bsp, n, f'_lmp_write_{v} (rebuild position {pos[args[0]]}) reads self.{used}{via}, whose lump {main_of[used]} is rebuilt at position '
                              f'{pos[main_of[used]]}: a view must be read only by writers that run before its own rebuild', func=f'BSP.{fname}', text=f'{v} writer reads {used}')
    # ---- B7 --------------------------------------------------------------------------------------------
    sv0 = ms['save']
    loops = [n for n in walk_no_nested(sv0) if isinstance(n, ast.For) and any(isinstance(c, ast.Subscript) and dotted(c.value) == 'self._save_funcs' for c in ast.walk(n))]
    if len(loops) != 1:
        raise AnalysisError('BSP.save: the rebuild loop calling self._save_funcs[...] was not found')
    lp = loops[0]
    ok_iter = dotted(lp.iter) == 'LUMP_REBUILD_ORDER'
    ctx.check('C10.B7', ok_iter, bsp, lp, f'the rebuild loop iterates `{U(lp.iter)[:60]}` instead of LUMP_REBUILD_ORDER itself: a list of parsed views computed before the loop misses the views '
              'that the writers parse (and thereby blank) while saving', func='BSP.save', text='rebuild loop iterates LUMP_REBUILD_ORDER')
    var = lp.target.id if isinstance(lp.target, ast.Name) else None
    live = any(isinstance(c, ast.Call) and dotted(c.func) == 'self._parsed_lumps.pop' and c.args and dotted(c.args[0]) == var for c in ast.walk(lp)) or \
        any(isinstance(c, ast.Compare) and isinstance(c.ops[0], (ast.In, ast.NotIn)) and dotted(c.comparators[0]) == 'self._parsed_lumps' and dotted(c.left) == var for c in ast.walk(lp))
    ctx.check('C10.B7', live, bsp, lp, 'inside the loop the parsed-view cache must be consulted for the current lump (pop / membership test), so that views parsed by earlier writers are rebuilt too',
              func='BSP.save', text='cache consulted per lump')
    # ---- B8 --------------------------------------------------------------------------------------------
    HEADER_ATTRS = {'map_revision', 'version', 'game_ver', 'lump_layout', 'filename', 'header_off'}
    for v, args in views.items():
        wr = ms['_lmp_write_' + v.lstrip('_')]
        for fname, fn in [('_lmp_write_' + v, wr)] + helper_closure(wr):
            bad = None
            for n in walk_no_nested(fn):
                tgts = []
                if isinstance(n, ast.Assign):
                    tgts = n.targets
                elif isinstance(n, (ast.AugAssign, ast.AnnAssign)):
                    tgts = [n.target]
                for t in tgts:
                    for el in (t.elts if isinstance(t, (ast.Tuple, ast.List)) else [t]):
                        if isinstance(el, ast.Attribute) and dotted(el.value) == 'self' and el.attr in HEADER_ATTRS:
                            bad = (n, f'self.{el.attr}')
                        if isinstance(el, ast.Attribute) and el.attr in ('version', 'flags', 'is_compressed', 'id') and isinstance(el.value, ast.Subscript) \
                                and dotted(el.value.value) in ('self.lumps', 'self.game_lumps'):
                            bad = (n, U(el))
            ctx.check('C10.B8', bad is None, bsp, bad[0] if bad else fn, (f'{fname} assigns {bad[1]}: rebuilding a view that was merely looked at changes the saved header' if bad else 'no header state written'),
                      func=f'BSP.{fname}', text=f'{fname} leaves header state alone' if bad is None else f'{fname} writes {bad[1]}')
    # ---- B11: the writers keep nothing on the BSP object from one save to the next ---------------------------------------------------------------
    # save() drops every parsed view, so the next access parses fresh lists.  A writer (or a helper it calls) that parks something computed
    # from the views on `self` - lookup closures over self.planes, an index table - serves the NEXT save from the previous generation of objects.
    ctx.rule('C10.B11', 'lump writers store nothing computed from the parsed views on the BSP object', floor=20)
    view_names = {v.lstrip('_') for v in views} | set(views)
    for v, args in views.items():
        wr = ms['_lmp_write_' + v.lstrip('_')]
        for fname, fn in [('_lmp_write_' + v, wr)] + helper_closure(wr):
            memo = None
            for n in walk_no_nested(fn):
                tgts = n.targets if isinstance(n, ast.Assign) else ([n.target] if isinstance(n, (ast.AugAssign, ast.AnnAssign)) else [])
                val = getattr(n, 'value', None)
                for t in tgts:
                    if isinstance(t, ast.Attribute) and dotted(t.value) == 'self' and val is not None \
                            and any(isinstance(x, ast.Attribute) and dotted(x.value) == 'self' and x.attr.lstrip('_') in view_names for x in ast.walk(val)):
                        memo = (n, t.attr)
            ctx.check('C10.B11', memo is None, bsp, memo[0] if memo else fn, (f'{fname} stores `self.{memo[1]}` = `{U(memo[0].value)[:60]}`, computed from parsed views: it outlives the save, and after the views were '
                      'dropped and parsed again the next save is served from the old objects (indexes past the end of the rebuilt lumps)' if memo else 'no memo'), func=f'BSP.{fname}', text=f'{fname} keeps no memo of the views')
    # ---- B9 --------------------------------------------------------------------------------------------
    re_ents = ms['_lmp_read_ents']
    sets_sep = [n for n in ast.walk(re_ents) if isinstance(n, ast.Assign) and dotted(n.targets[0]) == 'self.out_comma_sep']
    if not sets_sep:
        ctx.shape('C10.B9', False, bsp, re_ents, 'the entity lump reader never records the separator it saw', func='BSP._lmp_read_ents', text='separator observed from data')
    local_vars = {x.id for x in ast.walk(re_ents) if isinstance(x, ast.Name) and isinstance(x.ctx, ast.Store)} | {a.arg for a in re_ents.args.args[1:]}
    for n in sets_sep:
        names: Set[str] = set()
        p_ = bsp.parents.get(n)
        while p_ is not None and p_ is not re_ents:
            if isinstance(p_, ast.If):
                names |= {x.id for x in ast.walk(p_.test) if isinstance(x, ast.Name)} - {'self'}
            p_ = bsp.parents.get(p_)
        names |= {x.id for x in ast.walk(n.value) if isinstance(x, ast.Name)} - {'self'}
        names &= local_vars
        ctx.check('C10.B9', bool(names), bsp, n, f'`{U(n)}` fixes the output separator without looking at the lump (it depends only on {sorted({U(x) for x in ast.walk(n.value) if isinstance(x, ast.Attribute)}) or "constants"}): '
                  'a map whose version suggests one separator but whose outputs use the other is rewritten with the wrong one, and outputs containing commas stop parsing', func='BSP._lmp_read_ents', text='separator observed from data')
    we9 = ms['_lmp_write_ents']
    calls9 = [c for c in ast.walk(we9) if isinstance(c, ast.Call) and dotted(c.func) == 'self.write_ent_data' and len(c.args) >= 2]
    defs9: Dict[str, List[ast.AST]] = {}
    for a_ in ast.walk(we9):
        if isinstance(a_, ast.Assign):
            for t_ in a_.targets:
                if isinstance(t_, ast.Name):
                    defs9.setdefault(t_.id, []).append(a_.value)
    ok = False
    for c9 in calls9:
        a9 = c9.args[1]
        alts9 = defs9.get(a9.id, []) if isinstance(a9, ast.Name) else [a9]
        if alts9 and all(dotted(x) == 'self.out_comma_sep' for x in alts9):
            ok = True
        guessed = [x for x in alts9 if dotted(x) != 'self.out_comma_sep' and any(isinstance(y, ast.Attribute) and y.attr in ('version', 'game_ver', 'is_vitamin') for y in ast.walk(x))]
        if guessed:
            ok = True            # decided: a violation, not an unknown shape
            ctx.check('C10.B9', False, bsp, guessed[0], f'_lmp_write_ents passes `{U(guessed[0])[:60]}` as the output separator on some path: a separator guessed from the header version is forced onto every output '
                      '(write_ent_data overrides Output.comma_sep), so outputs added with the other separator - whose parameters may contain commas - are rewritten and no longer parse as outputs', func='BSP._lmp_write_ents',
                      text='separator passed to writer')
    ctx.shape('C10.B9', ok, bsp, ms['_lmp_write_ents'], 'the writer passes the recorded separator on', func='BSP._lmp_write_ents', text='separator passed to writer')
    # ---- B4 --------------------------------------------------------------------------------------------
    rd = ms['read']
    sv = ms['save']

    # ---- roles of the four header slots, derived from how read() uses what it unpacks (not from what the locals are called) ----------
    hdr_assign = None
    swap = None
    for n in walk_no_nested(rd):
        if isinstance(n, ast.Assign) and isinstance(n.targets[0], ast.Tuple) and isinstance(n.value, ast.Call) and dotted(n.value.func) == 'struct_read' \
                and dotted(n.value.args[0]) == 'HEADER_LUMP' and all(isinstance(t, ast.Name) for t in n.targets[0].elts):
            hdr_assign = n
    if hdr_assign is None:
        raise AnalysisError('BSP.read: header-lump unpack not found')
    slot_vars = [t.id for t in hdr_assign.targets[0].elts]
    for n in walk_no_nested(rd):
        if isinstance(n, ast.Assign) and isinstance(n.targets[0], ast.Tuple) and isinstance(n.value, ast.Tuple) and n is not hdr_assign \
                and {dotted(x) for x in n.targets[0].elts} == {dotted(x) for x in n.value.elts} and {dotted(x) for x in n.value.elts} <= set(slot_vars):
            p = bsp.parents.get(n)
            if isinstance(p, ast.If) and 'L4D2' in U(p.test):
                swap = (n.targets[0], n.value)
    if swap is None:
        raise AnalysisError('BSP.read: L4D2 field swap not found')
    role_by_name: Dict[str, str] = {}
    for c in walk_no_nested(rd):
        if isinstance(c, ast.Call) and dotted(c.func) == 'Lump' and len(c.args) >= 2 and isinstance(c.args[1], ast.Name):
            role_by_name[c.args[1].id] = 'version'
    stores_ = [n for n in walk_no_nested(rd) if isinstance(n, ast.Assign) and isinstance(n.targets[0], ast.Subscript) and isinstance(n.value, ast.Tuple) and len(n.value.elts) == 3
               and all(isinstance(x, ast.Name) and x.id in slot_vars for x in n.value.elts)]
    unpacks_ = [n for n in walk_no_nested(rd) if isinstance(n, ast.Assign) and isinstance(n.targets[0], ast.Tuple) and len(n.targets[0].elts) == 3 and isinstance(n.value, ast.Subscript)
                and stores_ and dotted(n.value.value) == dotted(stores_[0].targets[0].value) and all(isinstance(x, ast.Name) for x in n.targets[0].elts)]
    if len(stores_) != 1 or not unpacks_:
        raise AnalysisError('BSP.read: the (offset, length, size) triple kept per lump was not found')
    for up_ in unpacks_:
        later = [x.id for x in up_.targets[0].elts]
        blk_ = bsp.parents.get(up_)
        for c in ast.walk(blk_) if blk_ is not None else []:
            if isinstance(c, ast.Call) and isinstance(c.func, ast.Attribute) and c.args and isinstance(c.args[0], ast.Name) and c.args[0].id in later and c.lineno > up_.lineno:
                pos_ = later.index(c.args[0].id)
                if c.func.attr == 'seek':
                    role_by_name.setdefault(stores_[0].value.elts[pos_].id, 'offset')
                elif c.func.attr == 'read':
                    role_by_name.setdefault(stores_[0].value.elts[pos_].id, 'length')
    for x in stores_[0].value.elts:
        role_by_name.setdefault(x.id, 'fourcc')
    if sorted(role_by_name.get(v, '?') for v in slot_vars) != ['fourcc', 'length', 'offset', 'version']:
        raise AnalysisError(f'BSP.read: could not tell the roles of the header locals {slot_vars} apart (got {role_by_name})')
    hdr_unpack = [role_by_name[v] for v in slot_vars]
    # after the swap, the value read into slot i ends up in which role?
    l4d2_roles = list(hdr_unpack)
    for tgt, val in zip(swap[0].elts, swap[1].elts):
        l4d2_roles[slot_vars.index(val.id)] = role_by_name[tgt.id]

    # writer side: the role of an argument by what it is computed from
    def role(e: ast.AST, depth: int = 0) -> str:
        if isinstance(e, ast.Constant) and e.value == 0:
            return 'zero'
        if isinstance(e, ast.Call) and isinstance(e.func, ast.Attribute) and e.func.attr == 'tell':
            return 'offset'
        if isinstance(e, ast.Call) and dotted(e.func) == 'len':
            return 'length'
        if isinstance(e, ast.BinOp) and isinstance(e.op, ast.Sub) and role(e.left, depth + 1) == 'offset':
            return 'length'          # file.tell() - start
        if isinstance(e, ast.Attribute) and e.attr == 'version':
            return 'version'
        if isinstance(e, ast.Name) and depth < 3:
            defs_ = [a.value for a in ast.walk(sv) if isinstance(a, ast.Assign) and any(dotted(t) == e.id for t in a.targets)]
            kinds_ = {role(d, depth + 1) for d in defs_}
            if kinds_ == {'offset'}:
                return 'offset'
            if kinds_ == {'length'}:
                # the bytes that are written next, or the size recorded for a compressed lump (which is 0 otherwise)?
                written = any(isinstance(c, ast.Call) and isinstance(c.func, ast.Attribute) and c.func.attr == 'write' and c.args and any(isinstance(d, ast.Call) and d.args and dotted(d.args[0]) == dotted(c.args[0]) for d in defs_)
                              for c in ast.walk(sv))
                return 'length' if written or True else 'fourcc'
            if kinds_ == {'length', 'zero'}:
                return 'fourcc'         # `= len(lump.data)` when compressed, `= 0` otherwise: the fourCC slot doubling as uncompressed size
            if kinds_ == {'zero'}:
                return 'zero'
            if kinds_ == {'offset', 'zero'}:
                # a position on some paths, a literal 0 on others: read() tells the two header layouts apart by whether the first field
                # of lump 0 is zero, so the offset slot must never be 0 in the normal layout
                return 'offset-or-zero'
            # parameters of a helper keep their names: fall back to the spelling
            s_ = e.id
            if s_ in ('offset', 'lump_start', 'file_off'):
                return 'offset'
            if s_ == 'length':
                return 'length'
            if s_.endswith('version'):
                return 'version'
            if 'fourcc' in s_ or s_ == 'uncomp_size':
                return 'fourcc'
        return '?' + U(e)
    # save side
    fold_consts = {'HEADER_LUMP': fold.global_('HEADER_LUMP')}
    sv_loop_vars = {l.target.id for l in walk_no_nested(sv) if isinstance(l, ast.For) and isinstance(l.target, ast.Name)}
    hdr_fmt = fold_consts['HEADER_LUMP']
    n_slots = 4
    # `header = (a, b, c, d)` in each branch, then `defer.set_data(lump_name, *header)`: every such tuple is a header as written
    hdr_sites: List[Tuple[ast.AST, List[ast.AST]]] = []
    forced_flag: Dict[int, bool] = {}
    for n in walk_no_nested(sv):
        if isinstance(n, ast.Call) and dotted(n.func) == 'defer.set_data' and len(n.args) == 5 and isinstance(n.args[0], ast.Name) and n.args[0].id in sv_loop_vars:
            hdr_sites.append((n, list(n.args[1:])))
        if isinstance(n, ast.Call) and dotted(n.func) == 'defer.set_data' and len(n.args) == 2 and isinstance(n.args[0], ast.Name) and n.args[0].id in sv_loop_vars \
                and isinstance(n.args[1], ast.Starred) and isinstance(n.args[1].value, ast.Name):
            for a_ in walk_no_nested(sv):
                if isinstance(a_, ast.Assign) and any(dotted(t_) == n.args[1].value.id for t_ in a_.targets) and isinstance(a_.value, ast.Tuple) and len(a_.value.elts) == 4 and a_.lineno < n.lineno:
                    # only the definitions that can reach this call: same enclosing loop body
                    hdr_sites.append((a_, list(a_.value.elts)))
                # `header = (v, o, l, f) if <L4D2 test> else (o, l, v, f)`: one site per arm, the arm says which layout it is
                if isinstance(a_, ast.Assign) and any(dotted(t_) == n.args[1].value.id for t_ in a_.targets) and isinstance(a_.value, ast.IfExp) and a_.lineno < n.lineno \
                        and all(isinstance(x_, ast.Tuple) and len(x_.elts) == 4 for x_ in (a_.value.body, a_.value.orelse)):
                    t_ie = a_.value.test
                    pol_ie = True
                    if isinstance(t_ie, ast.UnaryOp) and isinstance(t_ie.op, ast.Not):
                        t_ie, pol_ie = t_ie.operand, False
                    if isinstance(t_ie, ast.Compare) and len(t_ie.ops) == 1 and isinstance(t_ie.ops[0], (ast.Is, ast.IsNot, ast.Eq, ast.NotEq)) and 'L4D2' in U(t_ie):
                        if isinstance(t_ie.ops[0], (ast.IsNot, ast.NotEq)):
                            pol_ie = not pol_ie
                        forced_flag[id(a_.value.body)] = pol_ie
                        forced_flag[id(a_.value.orelse)] = not pol_ie
                        hdr_sites.append((a_.value.body, list(a_.value.body.elts)))
                        hdr_sites.append((a_.value.orelse, list(a_.value.orelse.elts)))
    # `is_l4d2 = self.game_ver is GameVersion.L4D2`, assigned once: a test of the bare name is that test
    l4d2_locals = set()
    _assigned: Dict[str, List[ast.AST]] = {}
    for a_ in walk_no_nested(sv):
        if isinstance(a_, ast.Assign):
            for t_ in a_.targets:
                if isinstance(t_, ast.Name):
                    _assigned.setdefault(t_.id, []).append(a_.value)
    for nm_, vals_ in _assigned.items():
        if len(vals_) == 1 and isinstance(vals_[0], ast.Compare) and len(vals_[0].ops) == 1 and isinstance(vals_[0].ops[0], ast.Is) and 'L4D2' in U(vals_[0]):
            l4d2_locals.add(nm_)
    for n, hdr_args in hdr_sites:
        if True:
            roles = [role(a) for a in hdr_args]
            p = bsp.parents.get(n)
            cur = n
            if isinstance(p, ast.Expr):
                cur, p = p, bsp.parents.get(p)
            is_l4d2 = forced_flag.get(id(n))
            while p is not None and p is not sv and is_l4d2 is None:
                if isinstance(p, ast.If) and ('L4D2' in U(p.test) or (isinstance(p.test, ast.Name) and p.test.id in l4d2_locals)):
                    is_l4d2 = cur in p.body or any(cur is x for s in p.body for x in ast.walk(s))
                    break
                cur = p
                p = bsp.parents.get(p)
            if is_l4d2 is None:
                raise AnalysisError(f'BSP.save:{n.lineno}: header set_data call not under a GameVersion.L4D2 test')
            want = l4d2_roles if is_l4d2 else hdr_unpack
            norm = [('fourcc' if r == 'zero' and w == 'fourcc' else ('version' if r == 'zero' and w == 'version' else r)) for r, w in zip(roles, want)]
            ctx.check('C10.B4', norm == want, bsp, n, f'save() writes the {"L4D2" if is_l4d2 else "normal"} lump header as {roles} but read() interprets the four fields as {want}'
                      + (' (the offset is 0 on some paths: read() takes a v21 file whose first header field is 0 for the L4D2 layout, so every header is then read rotated)' if 'offset-or-zero' in roles else ''),
                      func='BSP.save', text=f'header order {"L4D2" if is_l4d2 else "normal"}: {U(n)[:50]}')
    # the same through a helper: `defer.set_data(lump_name, *self._helper(offset, length, version, fourcc))` where the helper arranges its
    # parameters into a tuple, differently under the L4D2 test.  The tuple is evaluated symbolically (names, constant slices, concatenation).
    def tuple_orders(hf: ast.AST) -> Optional[Dict[bool, List[str]]]:
        params_ = [a.arg for a in hf.args.args[1:]]

        def tev(e: ast.AST, env_: Dict[str, List[str]], flag: bool) -> Optional[List[str]]:
            if isinstance(e, ast.Tuple):
                out_: List[str] = []
                for x in e.elts:
                    if isinstance(x, ast.Name) and x.id in params_:
                        out_.append(x.id)
                    elif isinstance(x, ast.Starred):
                        sub_ = tev(x.value, env_, flag)
                        if sub_ is None:
                            return None
                        out_ += sub_
                    else:
                        return None
                return out_
            if isinstance(e, ast.Name):
                return list(env_[e.id]) if e.id in env_ else None
            if isinstance(e, ast.Subscript) and isinstance(e.slice, ast.Slice):
                base_ = tev(e.value, env_, flag)
                try:
                    lo_ = fold.fold(e.slice.lower, {}) if e.slice.lower is not None else None
                    hi_ = fold.fold(e.slice.upper, {}) if e.slice.upper is not None else None
                    st_ = fold.fold(e.slice.step, {}) if e.slice.step is not None else None
                except Exception:
                    return None
                return base_[lo_:hi_:st_] if base_ is not None else None
            if isinstance(e, ast.BinOp) and isinstance(e.op, ast.Add):
                l_, r_ = tev(e.left, env_, flag), tev(e.right, env_, flag)
                return l_ + r_ if l_ is not None and r_ is not None else None
            if isinstance(e, ast.IfExp) and 'L4D2' in U(e.test):
                pos_ = not (isinstance(e.test, ast.Compare) and isinstance(e.test.ops[0], (ast.IsNot, ast.NotEq)))
                return tev(e.body if flag == pos_ else e.orelse, env_, flag)
            return None

        def run_(body_: List[ast.stmt], env_: Dict[str, List[str]], flag: bool) -> Any:
            for st_ in body_:
                if isinstance(st_, ast.Expr) and isinstance(st_.value, ast.Constant):
                    continue
                if isinstance(st_, (ast.Assign, ast.AnnAssign)) and getattr(st_, 'value', None) is not None:
                    tg_ = st_.targets[0] if isinstance(st_, ast.Assign) else st_.target
                    v_ = tev(st_.value, env_, flag)
                    if not isinstance(tg_, ast.Name) or v_ is None:
                        return 'unknown'
                    env_[tg_.id] = v_
                elif isinstance(st_, ast.If) and 'L4D2' in U(st_.test):
                    pos_ = not (isinstance(st_.test, ast.Compare) and isinstance(st_.test.ops[0], (ast.IsNot, ast.NotEq)))
                    r_ = run_(st_.body if flag == pos_ else st_.orelse, env_, flag)
                    if r_ is not None:
                        return r_
                elif isinstance(st_, ast.Return) and st_.value is not None:
                    v_ = tev(st_.value, env_, flag)
                    return v_ if v_ is not None else 'unknown'
                else:
                    return 'unknown'
            return None
        res_: Dict[bool, List[str]] = {}
        for flag in (True, False):
            r_ = run_(hf.body, {}, flag)
            if not isinstance(r_, list):
                return None
            res_[flag] = r_
        return res_
    for n in walk_no_nested(sv):
        if isinstance(n, ast.Call) and isinstance(n.func, ast.Attribute) and n.func.attr == 'set_data' and len(n.args) == 2 and isinstance(n.args[1], ast.Starred) \
                and isinstance(n.args[1].value, ast.Call) and (dotted(n.args[1].value.func) or '').startswith('self.'):
            hc = n.args[1].value
            hname = dotted(hc.func).split('.', 1)[1]
            if not bsp.has_func('BSP.' + hname):
                continue
            hf = bsp.func('BSP.' + hname)
            orders = tuple_orders(hf)
            ctx.shape('C10.B4', orders is not None and len(hc.args) == len(hf.args.args) - 1, bsp, n, f'header helper {hname}() arranges its parameters into a tuple (possibly differently for L4D2)', func='BSP.save', text=f'header order via {hname}')
            if orders is None or len(hc.args) != len(hf.args.args) - 1:
                continue
            bound = {a.arg: role(v) for a, v in zip(hf.args.args[1:], hc.args)}
            for flag in (True, False):
                roles = [bound[p_] for p_ in orders[flag]]
                want = l4d2_roles if flag else hdr_unpack
                norm = [('fourcc' if r == 'zero' and w == 'fourcc' else ('version' if r == 'zero' and w == 'version' else r)) for r, w in zip(roles, want)]
                ctx.check('C10.B4', norm == want, bsp, n, f'save() writes the {"L4D2" if flag else "normal"} lump header through {hname}() as {roles} but read() interprets the four fields as {want}',
                          func='BSP.save', text=f'header order {"L4D2" if flag else "normal"} via {hname}: {U(n)[:40]}')
    # HEADER_LUMP has four integer slots
    ctx.check('C10.B4', isinstance(hdr_fmt, str) and hdr_fmt.replace('<', '') == '4i', bsp, bsp.global_assign('HEADER_LUMP'), 'HEADER_LUMP must be four int32 (offset, length, version, fourCC)',
              func='<module>', text='HEADER_LUMP format')
    # game lump directory: GameLump.ST == '<4s HH' + '<ii' pieces written by save
    st_fmt = fold.fold(bsp.class_assign('GameLump', 'ST'), {})
    pieces_l = []

    def _fmt_of(e: ast.AST) -> Optional[str]:
        try:
            v = fold.fold(e, {})
        except Exception:
            return None
        v = getattr(v, 'fmt', v)
        return v if isinstance(v, str) else None
    for n in walk_no_nested(sv):
        if isinstance(n, ast.Call) and dotted(n.func) == 'struct.pack' and n.args:
            f_ = _fmt_of(n.args[0])
            if f_ is not None and '4s' in f_ and any(isinstance(x, ast.Attribute) and x.attr in ('id', 'flags') and isinstance(x.value, ast.Name) for a in n.args[1:] for x in ast.walk(a)):
                pieces_l.append((n.lineno, f_))
        if isinstance(n, ast.Call) and dotted(n.func) == 'defer.defer' and len(n.args) >= 2 and dotted(n.args[0]) == 'game_lump.id':
            f_ = _fmt_of(n.args[1])
            if f_ is not None:
                pieces_l.append((n.lineno, f_))
    pieces = [v for _, v in sorted(pieces_l)]
    joined = ''.join(p.replace('<', '').replace(' ', '') for p in pieces)
    ctx.check('C10.B4', joined == st_fmt.fmt.replace('<', '').replace(' ', ''), bsp, sv, f'game-lump directory entry: save() writes {pieces} but read() unpacks GameLump.ST = {st_fmt.fmt!r}',
              func='BSP.save', text='game lump directory record')
    def _is_reversal(e: ast.AST) -> bool:
        return isinstance(e, ast.Subscript) and isinstance(e.slice, ast.Slice) and e.slice.lower is None and e.slice.upper is None and isinstance(e.slice.step, ast.UnaryOp) \
            and isinstance(e.slice.step.op, ast.USub) and isinstance(e.slice.step.operand, ast.Constant) and e.slice.step.operand.value == 1
    id_rev_w = any(_is_reversal(a) and isinstance(a.value, ast.Attribute) and a.value.attr == 'id' for n in walk_no_nested(sv) if isinstance(n, ast.Call) for a in n.args)
    id_rev_r = any(isinstance(n, ast.Assign) and _is_reversal(n.value) and isinstance(n.value.value, ast.Name) and dotted(n.targets[0]) == n.value.value.id for n in walk_no_nested(rd))
    ctx.shape('C10.B4', id_rev_w and id_rev_r, bsp, sv, 'game lump ids are stored reversed: both save() and read() must reverse them', func='BSP.save', text='game lump id reversal')
    h1w = any(isinstance(n, ast.Call) and dotted(n.func) == 'struct.pack' and n.args and dotted(n.args[0]) == 'HEADER_1' and len(n.args) == 3 for n in walk_no_nested(sv))
    h1r = any(isinstance(n, ast.Call) and dotted(n.func) == 'struct_read' and dotted(n.args[0]) == 'HEADER_1' for n in walk_no_nested(rd))
    h2w = any(isinstance(n, ast.Call) and dotted(n.func) == 'struct.pack' and n.args and dotted(n.args[0]) == 'HEADER_2' and U(n.args[1]) == 'self.map_revision' for n in walk_no_nested(sv))
    h2r = any(isinstance(n, ast.Assign) and isinstance(n.value, ast.Call) and dotted(n.value.func) == 'struct_read' and dotted(n.value.args[0]) == 'HEADER_2' and 'self.map_revision' in U(n.targets[0]) for n in walk_no_nested(rd))
    ctx.shape('C10.B4', h1w and h1r and h2w and h2r, bsp, sv, 'magic/version (HEADER_1) and map revision (HEADER_2) must be written and read with the same formats', func='BSP.save', text='HEADER_1/HEADER_2')
    # ---- B5 --------------------------------------------------------------------------------------------
    comp_calls = [n for n in walk_no_nested(sv) if isinstance(n, ast.Call) and dotted(n.func) == 'compress_lzma']
    if len(comp_calls) != 2:
        raise AnalysisError(f'BSP.save: expected two compress_lzma call sites (lumps, game lumps), found {len(comp_calls)}')
    for c in comp_calls:
        # enclosing if must test is_compressed of the same object
        p = bsp.parents.get(c)
        guard = None
        child: ast.AST = c
        while p is not None and p is not sv:
            if isinstance(p, ast.If) and 'is_compressed' in U(p.test) and any(child is x or any(child is y for y in ast.walk(x)) for x in p.body):
                guard = p
                break
            child = p
            p = bsp.parents.get(p)
        obj = U(c.args[0]).split('.')[0]
        ok = guard is not None and f'{obj}.is_compressed' in U(guard.test)
        ctx.check('C10.B5', ok, bsp, c, f'compress_lzma({U(c.args[0])}) must be applied exactly when {obj}.is_compressed is set', func='BSP.save', text=f'compress {obj} iff flagged')
        plain_lump = any(isinstance(a_, ast.Assign) and any(dotted(t_) == obj for t_ in a_.targets) and isinstance(a_.value, ast.Subscript) and dotted(a_.value.value) == 'self.lumps' for a_ in ast.walk(sv))
        if plain_lump and guard is not None:
            tsrc = U(guard.test)
            if 'PAKFILE' in tsrc:
                ctx.check('C10.B5', True, bsp, guard, 'the pakfile lump must never be LZMA-compressed', func='BSP.save', text='PAKFILE never compressed')
            elif isinstance(guard.test, ast.Attribute) or (isinstance(guard.test, ast.BoolOp) and all(isinstance(v, ast.Attribute) for v in guard.test.values)):
                ctx.check('C10.B5', False, bsp, guard, f'`{tsrc}` lets the pakfile lump be LZMA-compressed like any other: the engine reads the pakfile as a plain zip, and read() would hand zipfile compressed bytes',
                          func='BSP.save', text='PAKFILE never compressed')
            else:
                ctx.shape('C10.B5', False, bsp, guard, 'exclusion of the pakfile lump not recognised', func='BSP.save', text='PAKFILE never compressed')
            # the fourCC local: assigned in both arms, and not the data that is compressed/written (that one is assigned from compress_lzma / <obj>.data)
            both_ = {dotted(a_.targets[0]) for a_ in guard.body if isinstance(a_, ast.Assign)} & {dotted(a_.targets[0]) for a_ in guard.orelse if isinstance(a_, ast.Assign)}
            data_ = {dotted(a_.targets[0]) for a_ in guard.body if isinstance(a_, ast.Assign) and isinstance(a_.value, ast.Call) and dotted(a_.value.func) == 'compress_lzma'}
            fcc_names = both_ - data_ - {None}
            fcc = [n for n in guard.body if isinstance(n, ast.Assign) and dotted(n.targets[0]) in fcc_names]
            fz = [n for n in guard.orelse if isinstance(n, ast.Assign) and dotted(n.targets[0]) in fcc_names]
            if len(fcc) != 1 or len(fz) != 1:
                ctx.shape('C10.B5', False, bsp, guard, 'fourCC assignments not found in both branches', func='BSP.save', text='fourCC = uncompressed length / 0')
            elif isinstance(fcc[0].value, ast.Constant) or not (isinstance(fz[0].value, ast.Constant) and fz[0].value.value == 0):
                ctx.check('C10.B5', False, bsp, fcc[0], f'the fourCC slot is set to `{U(fcc[0].value)}` for compressed lumps and `{U(fz[0].value)}` otherwise: it must hold the uncompressed length / 0 '
                          '(read() takes `> 0` as the compressed flag and the engine uses the value as the size)', func='BSP.save', text='fourCC = uncompressed length / 0')
            else:
                ctx.shape('C10.B5', U(fcc[0].value) == f'len({obj}.data)', bsp, fcc[0], 'uncompressed length expression', func='BSP.save', text='fourCC = uncompressed length / 0')
    rflag = [n for n in walk_no_nested(rd) if isinstance(n, ast.If) and isinstance(n.test, ast.Compare) and len(n.test.ops) == 1 and isinstance(n.test.ops[0], ast.Gt) and isinstance(n.test.left, ast.Name)
             and isinstance(n.test.comparators[0], ast.Constant) and n.test.comparators[0].value == 0 and any(isinstance(x, ast.Attribute) and x.attr == 'is_compressed' for st in n.body for x in ast.walk(st))]
    ok = len(rflag) == 1 and 'lump.is_compressed = True' in U(rflag[0].body[0]) and 'decompress_lzma' in U(rflag[0]) \
        and 'lump.is_compressed = False' in U(rflag[0].orelse[0])
    ctx.shape('C10.B5', ok, bsp, rflag[0] if rflag else rd, 'read() must set is_compressed and decompress exactly when the fourCC slot is positive', func='BSP.read', text='read flag/decompress')
    gl = [n for n in walk_no_nested(rd) if isinstance(n, ast.If) and U(n.test) == 'gm_lump.is_compressed']
    ok = len(gl) == 1 and 'decompress_lzma' in U(gl[0].body) if gl else False
    ok = bool(gl) and any('decompress_lzma' in U(s) for s in gl[0].body) and not any('decompress_lzma' in U(s) for s in gl[0].orelse)
    ctx.shape('C10.B5', ok, bsp, gl[0] if gl else rd, 'read() must decompress a game lump exactly when its compressed flag is set', func='BSP.read', text='game lump decompress')
    dummy = [n for n in walk_no_nested(sv) if isinstance(n, ast.Assign) and isinstance(n.targets[0], ast.Name) and 'game_lumps[-1].is_compressed' in U(n.value)]
    ok = len(dummy) == 1
    ctx.shape('C10.B5', ok, bsp, dummy[0] if dummy else sv, 'a trailing dummy directory entry is needed when the last game lump is compressed (sizes are derived from the next offset)', func='BSP.save', text='dummy game lump entry')
    glen = [n for n in walk_no_nested(sv) if isinstance(n, ast.Call) and dotted(n.func) == 'defer.set_data' and n.args and dotted(n.args[0]) == 'game_lump.id']
    ok = len(glen) == 1 and [U(a) for a in glen[0].args[1:]] == ['file.tell()', 'len(game_lump.data)']
    ctx.shape('C10.B5', ok, bsp, glen[0] if glen else sv, 'the game-lump directory must record (offset, uncompressed length): read() reads `uncomp_size` bytes for uncompressed lumps', func='BSP.save', text='game lump (offset, length)')
    # ---- B10: compress_lzma / decompress_lzma ----------------------------------------------------------------------------------
    bf_ = prog.module('binformat')
    fold_bf = Folder(prog, bf_)
    cz, dz = bf_.func('compress_lzma'), bf_.func('decompress_lzma')
    enc = [c for c in ast.walk(cz) if isinstance(c, ast.Call) and dotted(c.func) in ('lzma.compress', 'lzma.LZMACompressor')]
    packs_ = [c for c in ast.walk(cz) if isinstance(c, ast.Call) and isinstance(c.func, ast.Attribute) and c.func.attr == 'pack' and len(c.args) == 5]
    unp = [a for a in ast.walk(dz) if isinstance(a, ast.Assign) and isinstance(a.value, ast.Call) and isinstance(a.value.func, ast.Attribute) and a.value.func.attr.startswith('unpack') and isinstance(a.targets[0], ast.Tuple)
           and len(a.targets[0].elts) == 5]
    if len(enc) != 1 or len(packs_) != 1 or len(unp) != 1:
        ctx.shape('C10.B10', False, bf_, cz, 'encoder call / 5-field header pack / 5-field unpack not found', func='compress_lzma', text='lzma header shape')
    else:
        filt_kw = next((k.value for k in enc[0].keywords if k.arg == 'filters'), None)
        filt_name = dotted(filt_kw.elts[0]) if isinstance(filt_kw, ast.List) and len(filt_kw.elts) == 1 else None
        ctx.shape('C10.B10', filt_name is not None, bf_, enc[0], 'the encoder is given one named filter dictionary', func='compress_lzma', text='lzma encoder filter')
        rnames_raw = [dotted(e) for e in unp[0].targets[0].elts]
        # what each unpacked local is, by how decompress_lzma uses it
        def lz_role(nm: Optional[str]) -> str:
            if nm is None:
                return '?'
            for d_ in ast.walk(dz):
                if isinstance(d_, ast.Dict):
                    for k_, v_ in zip(d_.keys, d_.values):
                        if isinstance(k_, ast.Constant) and k_.value == 'dict_size' and any(isinstance(x_, ast.Name) and x_.id == nm for x_ in ast.walk(v_)):
                            return 'dict_size'
                if isinstance(d_, ast.BinOp) and isinstance(d_.op, (ast.Mod, ast.FloorDiv)) and dotted(d_.left) == nm and isinstance(d_.right, ast.Constant) and d_.right.value == 9:
                    return 'props'
                if isinstance(d_, ast.Call) and dotted(d_.func) == 'divmod' and len(d_.args) == 2 and dotted(d_.args[0]) == nm and isinstance(d_.args[1], ast.Constant) and d_.args[1].value == 9:
                    return 'props'
                if isinstance(d_, ast.Compare) and len(d_.ops) == 1 and isinstance(d_.left, ast.Call) and dotted(d_.left.func) == 'len' and dotted(d_.comparators[0]) == nm:
                    return 'uncomp_size'
                if isinstance(d_, ast.Compare) and len(d_.ops) == 1 and dotted(d_.left) == nm and isinstance(d_.comparators[0], ast.Constant) and isinstance(d_.comparators[0].value, bytes):
                    return 'sig'
            return 'comp_size'
        rnames = [lz_role(n_) for n_ in rnames_raw]
        ctx.shape('C10.B10', sorted(rnames) == ['comp_size', 'dict_size', 'props', 'sig', 'uncomp_size'], bf_, unp[0], f'the five header fields of decompress_lzma are told apart by their use (got {rnames})', func='decompress_lzma', text='lzma header roles')
        roles_ok = sorted(rnames) == ['comp_size', 'dict_size', 'props', 'sig', 'uncomp_size']
        hdr = dict(zip(rnames, packs_[0].args)) if roles_ok else {}
        if roles_ok:
            # dict_size: the header value is the filter's own entry
            ds = hdr.get('dict_size')
            same = ds is not None and isinstance(ds, ast.Subscript) and dotted(ds.value) == filt_name and isinstance(ds.slice, ast.Constant) and ds.slice.value == 'dict_size'
            ctx.check('C10.B10', same, bf_, ds if ds is not None else packs_[0], f'the header stores `{U(ds) if ds is not None else "?"}` as dictionary size, but the stream is encoded with `{filt_name}[\'dict_size\']`: '
                      'decompress_lzma builds its decoder from the header, and a dictionary smaller than the distances used in the stream makes the lump undecodable ("Corrupt input data")', func='compress_lzma', text='header dict_size is the encoder\'s')
            # props: (pb * 5 + lp) * 9 + lc of the same filter
            pr = hdr.get('props')
            pdef = next((a.value for a in ast.walk(cz) if isinstance(a, ast.Assign) and isinstance(pr, ast.Name) and dotted(a.targets[0]) == pr.id), pr)
            psrc = U(pdef).replace(' ', '') if pdef is not None else ''
            want = f"({filt_name}['pb']*5+{filt_name}['lp'])*9+{filt_name}['lc']"
            ctx.check('C10.B10', psrc == want, bf_, pdef if pdef is not None else packs_[0], f'props byte is `{psrc}`; the decoder splits it as lc = p % 9, lp = (p // 9) % 5, pb = (p // 9) // 5, i.e. it must be `{want}`', func='compress_lzma', text='header props formula')
            dsrc = U(dz)
            # the decoder's split of the props byte, decided on its whole (finite) domain 0..224: the few assignments between the header unpack and
            # the filter dictionary are interpreted over the syntax tree (engine/minieval.py) for every value and compared with lc = p % 9,
            # lp = (p // 9) % 5, pb = (p // 9) // 5.  Only when that is not possible are the spellings of the split matched as fragments.
            split_ok: Optional[bool] = None
            try:
                from engine.minieval import MiniEval, Raised, Unsupported
                props_var = rnames_raw[rnames.index('props')]
                fdict = next((d_ for d_ in ast.walk(dz) if isinstance(d_, ast.Dict) and any(isinstance(k_, ast.Constant) and k_.value == 'lc' for k_ in d_.keys)), None)
                want_names = {k_.value: v_ for k_, v_ in zip(fdict.keys, fdict.values) if isinstance(k_, ast.Constant) and k_.value in ('lc', 'lp', 'pb')} if fdict is not None else {}
                stmts_ = [st for st in dz.body if unp[0].lineno < st.lineno < (fdict.lineno if fdict is not None else 0) and isinstance(st, (ast.Assign, ast.AugAssign, ast.AnnAssign, ast.If))]
                if len(want_names) == 3 and stmts_:
                    split_ok = True
                    consts_ = {}
                    for nm_ in {x.id for st in stmts_ for x in ast.walk(st) if isinstance(x, ast.Name) and x.id.isupper()}:
                        try:
                            consts_[nm_] = fold_bf.global_(nm_)
                        except Exception:
                            pass
                    for p_ in range(225):
                        env_ = {n_: 0 for n_ in rnames_raw if n_}
                        env_.update(consts_)
                        env_[props_var] = p_
                        me_ = MiniEval(env_)
                        me_.run(stmts_)
                        got_ = {k_: me_.ev(v_) for k_, v_ in want_names.items()}
                        if got_ != {'lc': p_ % 9, 'lp': (p_ // 9) % 5, 'pb': (p_ // 9) // 5}:
                            split_ok = False
                            ctx.check('C10.B10', False, bf_, dz, f'decompress_lzma splits the props byte {p_} into {got_}; the encoder composes it as (pb * 5 + lp) * 9 + lc, i.e. lc = p % 9, lp = (p // 9) % 5, pb = (p // 9) // 5',
                                      func='decompress_lzma', text='props split')
                            break
                    if split_ok:
                        ctx.check('C10.B10', True, bf_, dz, 'props split verified for all 225 property bytes', func='decompress_lzma', text='props split')
            except (Unsupported, Raised, ValueError, StopIteration, AttributeError):
                split_ok = None
            if split_ok is None:
              ctx.shape('C10.B10', ('lc = props % 9' in dsrc and 'props //= 9' in dsrc and 'pb = props // 5' in dsrc and 'lp = props % 5' in dsrc) or ('props, lc = divmod(props, 9)' in dsrc and 'pb, lp = divmod(props, 5)' in dsrc), bf_, dz, 'decompress_lzma splits props as lc = p % 9; p //= 9; pb = p // 5; lp = p % 5', func='decompress_lzma', text='props split')
            sizes = (U(hdr.get('uncomp_size')) if hdr.get('uncomp_size') is not None else '', U(hdr.get('comp_size')) if hdr.get('comp_size') is not None else '')
            ctx.check('C10.B10', sizes[0] == f'len({cz.args.args[0].arg})' and sizes[1].startswith('len('), bf_, packs_[0], f'header sizes are {sizes}: uncompressed length of the input, then length of the encoded stream', func='compress_lzma', text='header sizes')
    # ---- B6 --------------------------------------------------------------------------------------------
    g_ = bsp.func('ParsedLump.__get__')
    src = U(g_)
    stores = [n for n in ast.walk(g_) if isinstance(n, ast.Assign) and isinstance(n.targets[0], ast.Subscript) and dotted(n.targets[0].value) == 'instance._parsed_lumps']
    blanks = [n for n in ast.walk(g_) if isinstance(n, ast.For) and dotted(n.iter) == 'self.to_clear']
    # the blanking loop may live in a private helper that __get__ (and __set__) call: the call then stands for it
    pl_m = bsp.methods('ParsedLump')
    blank_helpers = {m_ for m_, f_ in pl_m.items() if m_ not in ('__get__', '__set__') and any(isinstance(n, ast.For) and dotted(n.iter) == 'self.to_clear' for n in ast.walk(f_))}
    blanks += [c for c in ast.walk(g_) if isinstance(c, ast.Call) and isinstance(c.func, ast.Attribute) and dotted(c.func.value) == 'self' and c.func.attr in blank_helpers]
    if not blanks:
        ctx.shape('C10.B6', False, bsp, g_, 'blanking loop over self.to_clear not found', text='cache before blank')
    elif not stores:
        ctx.check('C10.B6', False, bsp, blanks[0], 'ParsedLump.__get__ blanks the raw lumps but never stores the parsed value in _parsed_lumps: the next access re-parses empty data and save() has nothing to rebuild from',
                  text='cache before blank')
    else:
        ctx.check('C10.B6', min(s_.lineno for s_ in stores) < blanks[0].lineno, bsp, blanks[0], 'ParsedLump.__get__ must cache the parsed value before blanking the raw lumps', text='cache before blank')
    # looking must not be able to lose the data: the raw bytes stay in the lump until the reader has returned and its result is cached.  A
    # store into some `.data` that comes before the reader call (a swap `data, lump.data = lump.data, b''` "to free the buffer early")
    # leaves an empty lump behind when the reader raises, and the next save() writes it
    reads6 = [c for c in ast.walk(g_) if isinstance(c, ast.Call) and dotted(c.func) == 'self._read']
    drains6 = [c for c in ast.walk(g_) if isinstance(c, ast.Call) and dotted(c.func) == 'list' and c.args]
    ctx.shape('C10.B6', bool(reads6), bsp, g_, 'call of self._read(...) found in ParsedLump.__get__', text='reader call')
    data_stores = [t for a in ast.walk(g_) if isinstance(a, (ast.Assign, ast.AugAssign, ast.Delete)) for t0 in (a.targets if isinstance(a, (ast.Assign, ast.Delete)) else [a.target])
                   for t in (t0.elts if isinstance(t0, (ast.Tuple, ast.List)) else [t0]) if isinstance(t, ast.Attribute) and t.attr == 'data']
    last_use = max([c.lineno for c in reads6 + drains6] or [0])
    for t in data_stores:
        ctx.check('C10.B6', t.lineno > last_use, bsp, t, f'ParsedLump.__get__ overwrites `{U(t)}` before the reader has finished (the reader / the draining of its generator is at line {last_use}): if parsing raises, nothing is cached '
                  'and the raw bytes are already gone - merely looking at a damaged view empties the lump for the next save()', text=f'`{U(t)}` kept until the reader is done')
    ctx.check('C10.B6', True, bsp, g_, f'{len(data_stores)} store(s) into lump data examined', text='raw data stores after the reader')
    init = bsp.func('ParsedLump.__init__')
    ok = 'self.to_clear = (lump, *extra)' in U(init)
    ctx.shape('C10.B6', ok, bsp, init, 'to_clear must be exactly the lumps named in the view declaration (B1 is checked against that list)', text='to_clear = declaration')

    # ---- B4 (game-lump directory fields): id, flags and version of a game lump are written as the object holds them --------------------------
    # read() stores the 16-bit flags and version of each game-lump directory entry on the GameLump; save() packs the same attributes back.
    # "Only bit 0 is defined" is no reason to rebuild the field from is_compressed: the other bits of a file that has them are lost by a
    # plain read and save.
    svg = ms['save']
    def _fmt10(e: ast.AST) -> Optional[str]:
        if isinstance(e, ast.Constant) and isinstance(e.value, str):
            return e.value
        if isinstance(e, ast.Name):
            try:
                v_ = fold.global_(e.id)
            except Exception:
                return None
            return v_ if isinstance(v_, str) else getattr(v_, 'fmt', None)
        return None
    gl_packs = [c for c in ast.walk(svg) if isinstance(c, ast.Call) and dotted(c.func) == 'struct.pack' and c.args and (_fmt10(c.args[0]) or '').replace(' ', '') in ('<4sHH', '4sHH')]
    ctx.shape('C10.B4', len(gl_packs) == 1 and len(gl_packs[0].args) == 4, bsp, svg, 'the pack of a game-lump directory entry (`<4s HH`: id, flags, version) was not found once in save()', func='BSP.save', text='game-lump directory fields')
    for gp_ in gl_packs[:1]:
        if len(gp_.args) != 4:
            continue
        for slot_, want_ in ((2, 'flags'), (3, 'version')):
            a_ = gp_.args[slot_]
            ctx.check('C10.B4', isinstance(a_, ast.Attribute) and a_.attr == want_ and isinstance(a_.value, ast.Name), bsp, a_, f'save() packs `{U(a_)[:50]}` as the {want_} of a game lump instead of the attribute read() '
                      f'filled in (`<lump>.{want_}`): bits of the field that the expression does not reproduce are lost by a plain read and save', func='BSP.save', text=f'game-lump directory {want_} written as read')


MUTANTS = [
    {'id': 'game_lump_flags_rebuilt', 'file': 'bsp.py', 'find': "                            game_lump.flags,\n", 'replace': "                            1 if game_lump.is_compressed else 0,\n", 'expect': 'C10.B4', 'note': 'round 14'},
    {'id': 'ents_separator_guessed_when_unknown', 'file': 'bsp.py', 'find': "        return self.write_ent_data(vmf, self.out_comma_sep, _show_dep=False)", 'replace': "        sep = self.out_comma_sep\n        if sep is None:\n            sep = self.version < 21\n        return self.write_ent_data(vmf, sep, _show_dep=False)", 'expect': 'C10.B9', 'note': 'round 12'},
    {'id': 'empty_lump_offset_zero', 'file': 'bsp.py', 'find': "                    else:\n                        lump_data = lump.data\n                        lump_fourcc = 0\n", 'replace': "                    else:\n                        lump_data = lump.data\n                        lump_fourcc = 0\n                    lump_start = file.tell()\n                    if not lump_data:\n                        lump_start = 0\n", 'extra': [{'file': 'bsp.py', 'find': "                        defer.set_data(lump_name, file.tell(), len(lump_data), lump.version, lump_fourcc)", 'replace': "                        defer.set_data(lump_name, lump_start, len(lump_data), lump.version, lump_fourcc)"}], 'expect': 'C10.B4', 'note': 'round 11: offset 0 for empty lumps trips the L4D2 sniff'},
    {'id': 'face_lookup_closures_memoised_on_self', 'file': 'bsp.py', 'find': "        add_texinfo = find_or_insert(self.texinfo)\n        add_plane = find_or_insert(self.planes)\n", 'replace': "        if getattr(self, '_face_finders', None) is None:\n            self._face_finders = (find_or_insert(self.texinfo), find_or_insert(self.planes))\n        add_texinfo, add_plane = self._face_finders\n", 'expect': 'C10.B11'},
    {'id': 'get_swaps_raw_data_out_before_reading', 'file': 'bsp.py', 'find': "            data = instance.lumps[self.lump].data\n            LOGGER.debug('Load game lump {} ({} bytes)', self.lump, len(data))", 'replace': "            raw = instance.lumps[self.lump]\n            data, raw.data = raw.data, b''\n            LOGGER.debug('Load game lump {} ({} bytes)', self.lump, len(data))", 'expect': 'C10.B6'},
    {'id': 'lzma_decoder_split_swapped', 'file': 'binformat.py', 'find': "    pb = props // 5\n    lp = props % 5\n", 'replace': "    lp = props // 5\n    pb = props % 5\n", 'expect': 'C10.B10'},
    {'id': 'ok_lzma_decoder_split_divmod', 'file': 'binformat.py', 'find': "    lc = props % 9\n    props //= 9\n    pb = props // 5\n    lp = props % 5\n", 'replace': "    rest, lc = divmod(props, 9)\n    pb, lp = divmod(rest, 5)\n", 'expect': None},
    {'id': 'l4d2_header_rotated_in_helper', 'file': 'bsp.py', 'find': "    def save(self, filename: Optional[str] = None) -> None:", 'replace': "    def _lump_header(self, offset: int, length: int, version: int, fourcc: int) -> tuple:\n        header = (offset, length, version, fourcc)\n        if self.game_ver is GameVersion.L4D2:\n            header = header[-1:] + header[:-1]\n        return header\n\n    def save(self, filename: Optional[str] = None) -> None:", 'extra': [{'file': 'bsp.py', 'find': "                    if self.game_ver is GameVersion.L4D2:\n                        defer.set_data(lump_name, lump.version, file.tell(), len(lump_data), lump_fourcc)\n                    else:\n                        defer.set_data(lump_name, file.tell(), len(lump_data), lump.version, lump_fourcc)\n", 'replace': "                    defer.set_data(lump_name, *self._lump_header(file.tell(), len(lump_data), lump.version, lump_fourcc))\n"}], 'expect': 'C10.B4'},
    {'id': 'ok_l4d2_header_helper', 'file': 'bsp.py', 'find': "    def save(self, filename: Optional[str] = None) -> None:", 'replace': "    def _lump_header(self, offset: int, length: int, version: int, fourcc: int) -> tuple:\n        header = (offset, length, version, fourcc)\n        if self.game_ver is GameVersion.L4D2:\n            header = header[2:3] + header[:2] + header[3:]\n        return header\n\n    def save(self, filename: Optional[str] = None) -> None:", 'extra': [{'file': 'bsp.py', 'find': "                    if self.game_ver is GameVersion.L4D2:\n                        defer.set_data(lump_name, lump.version, file.tell(), len(lump_data), lump_fourcc)\n                    else:\n                        defer.set_data(lump_name, file.tell(), len(lump_data), lump.version, lump_fourcc)\n", 'replace': "                    defer.set_data(lump_name, *self._lump_header(file.tell(), len(lump_data), lump.version, lump_fourcc))\n"}], 'expect': None},
    {'id': 'lzma_header_dict_fitted_to_data', 'file': 'binformat.py', 'find': "        props, LZMA_FILT['dict_size'],  # Filter options encoded together.", 'replace': "        props, max(LZMA_DIC_MIN, 1 << (len(data).bit_length() - 1)),", 'expect': 'C10.B10'},
    {'id': 'lzma_props_lc_lp_swapped', 'file': 'binformat.py', 'find': "    props = (LZMA_FILT['pb'] * 5 + LZMA_FILT['lp']) * 9 + LZMA_FILT['lc']", 'replace': "    props = (LZMA_FILT['pb'] * 5 + LZMA_FILT['lc']) * 9 + LZMA_FILT['lp']", 'expect': 'C10.B10'},
    {'id': 'separator_from_version', 'file': 'bsp.py', 'find': "        vmf = VMF()\n", 'replace': "        vmf = VMF()\n        if self.out_comma_sep is None:\n            self.out_comma_sep = self.version < VERSIONS.L4D2.value\n", 'expect': 'C10.B9'},
    {'id': 'save_snapshots_parsed_views', 'file': 'bsp.py', 'find': "        for lump_or_game in LUMP_REBUILD_ORDER:\n            try:\n                data = self._parsed_lumps.pop(lump_or_game)", 'replace': "        for lump_or_game in [x for x in LUMP_REBUILD_ORDER if x in self._parsed_lumps]:\n            try:\n                data = self._parsed_lumps.pop(lump_or_game)", 'expect': 'C10.B7'},
    {'id': 'ents_writer_sets_revision', 'file': 'bsp.py', 'find': "    def _lmp_write_ents(self, vmf: VMF) -> bytes:\n", 'replace': "    def _lmp_write_ents(self, vmf: VMF) -> bytes:\n        self.map_revision = vmf.map_ver\n", 'expect': 'C10.B8'},
    {'id': 'water_writer_reads_own_view', 'file': 'bsp.py', 'find': "        for info in data:\n            yield self.lump_layout['LEAFWATERDATA'].pack(", 'replace': "        for info in self.water_leaf_info:\n            yield self.lump_layout['LEAFWATERDATA'].pack(", 'expect': 'C10.B2'},
    {'id': 'overlay_fades_not_rebuilt', 'file': 'bsp.py', 'find': "        self.lumps[BSP_LUMPS.OVERLAY_FADES].data = fade_buf.getvalue()\n", 'replace': "", 'expect': 'C10.B1'},
    {'id': 'brushsides_only_when_nonempty', 'file': 'bsp.py', 'find': "        self.lumps[BSP_LUMPS.BRUSHSIDES].data = sides_buf.getvalue()", 'replace': "        if brushes:\n            self.lumps[BSP_LUMPS.BRUSHSIDES].data = sides_buf.getvalue()", 'expect': 'C10.B1'},
    {'id': 'texinfo_before_overlays', 'file': 'bsp.py', 'find': "    BSP_LUMPS.OVERLAYS,  # Adds texinfo entries.\n\n    BSP_LUMPS.TEXINFO,  # Adds texdata -> texdata_string_data entries.", 'replace': "    BSP_LUMPS.TEXINFO,  # Adds texdata -> texdata_string_data entries.\n    BSP_LUMPS.OVERLAYS,  # Adds texinfo entries.\n", 'expect': 'C10.B2'},
    {'id': 'planes_dropped_from_order', 'file': 'bsp.py', 'find': "    BSP_LUMPS.SURFEDGES,  # surfedges references vertexes.\n    BSP_LUMPS.PLANES,\n", 'replace': "    BSP_LUMPS.SURFEDGES,  # surfedges references vertexes.\n", 'expect': 'C10.B3'},
    {'id': 'l4d2_header_order', 'file': 'bsp.py', 'find': "                        defer.set_data(lump_name, lump.version, file.tell(), len(lump_data), lump_fourcc)", 'replace': "                        defer.set_data(lump_name, file.tell(), lump.version, len(lump_data), lump_fourcc)", 'expect': 'C10.B4'},
    {'id': 'fourcc_compressed_len', 'file': 'bsp.py', 'find': "                        lump_fourcc = len(lump.data)\n", 'replace': "                        lump_fourcc = 1\n", 'expect': 'C10.B5'},
    {'id': 'pakfile_compressed', 'file': 'bsp.py', 'find': "                    if lump.is_compressed and lump_name is not BSP_LUMPS.PAKFILE:", 'replace': "                    if lump.is_compressed:", 'expect': 'C10.B5'},
    {'id': 'blank_before_cache', 'file': 'bsp.py', 'find': "        instance._parsed_lumps[self.lump] = result # noqa\n        for lump in self.to_clear:\n            if isinstance(lump, BSP_LUMPS):\n                instance.lumps[lump].data = b''\n            else:\n                instance.game_lumps[lump].data = b''\n        return result", 'replace': "        for lump in self.to_clear:\n            if isinstance(lump, BSP_LUMPS):\n                instance.lumps[lump].data = b''\n            else:\n                instance.game_lumps[lump].data = b''\n        return result", 'expect': 'C10.B6'},
]
