"""C16 - FGD text export, binary engine database, lazy loading: structural clauses (DESIGN.md C16).

  Q1  binary database wire agreement (engine/tokwire.py): kv_serialise/kv_unserialise (spawnflags and plain), iodef_*,
      resource records (tagged / untagged), write_tags/read_tags, BinStrDict.serialise/unserialise, serialise/unserialise
      (header and block table): equal token sequences; the entity header slots link to the same collections on both sides and
      each count equals the number of records the writer emits for that collection (no skip path that the count ignores);
      every high-bit flag the writer ORs into a byte is tested (& 128) and masked off (& 127) by the reader on the same slot.
  Q2  code tables: VALUE_TYPE_ORDER / FILE_TYPE_ORDER list every member once (index fits 7 bits); every EntityTypes member has a
      TYPE_<name> flag, distinct within MASK_TYPE; IS_ALIAS lies outside MASK_TYPE; *_INDEX tables are the enumerations.
  Q3  text tables: VALUE_TYPE_LOOKUP maps every ValueTypes.value back to its member; every name in RESTYPE_TO_NAME maps back to
      the same FileType through RESTYPE_BY_NAME; every HelperTypes member is implemented by exactly one Helper class in
      _fgd_helpers whose TYPE is that member; every EntityTypes value written by EntityDef.export ('@' + title-cased value) is
      accepted by parse_file's `EntityTypes(token[1:])` after case folding; writer keywords = parser keywords.
  Q4  text writer discipline: line-token emission of KVDef.export / IODef.export / EntityDef.export is evaluated for every
      combination of empty / non-empty display name, default, description and value-type kind: a colon is never the last token
      before the end of line or `=` (the parser continues a list across the newline); every quoted slot is escaped with
      _fgd_escape / escape_text or goes through _write_longstring; _write_longstring never cuts at a fixed position without
      checking for a trailing escape character; parse_file enables colon / plus operators and disables bracket strings.
  Q5  lazy loading: get_ent/_parse_block only replace integer placeholders by freshly unserialised entities, blank the block
      slot on the parsing path, return early on a blank slot; get_fgd goes through the same _parse_block.
"""
from __future__ import annotations

import ast
import itertools
import re
from typing import Any, Dict, Iterator, List, Optional, Sequence, Set, Tuple

from engine.srcmatch import U
from engine.fold import EnumMember, Folder, FoldError
from engine.model import AnalysisError, Program, base_names, dotted, walk_no_nested
from engine.tokwire import Tok, TokWire, flat, merge_slots, toks
from engine.wire import UNKNOWN, Config, Extractor

def _at(src: str, frag: str) -> float:
    """position of a fragment in unparsed source; NaN (every comparison false, i.e. 'idiom not recognised') when it does not occur"""
    i = src.find(frag)
    return float(i) if i >= 0 else float('nan')


LEVEL = 'other'


# ---- Q4: line-token emission ---------------------------------------------------------------------------------------------------
def lex_const(s: str, state: Dict[str, bool]) -> List[str]:
    """tokens of literal text written to the FGD: COLON, EQ, NL, BRO, BRC, PLUS, STR (complete quoted string), WORD"""
    out: List[str] = []
    i = 0
    while i < len(s):
        ch = s[i]
        if state['inq']:
            if ch == '"':
                state['inq'] = False
                out.append('STR')
            i += 1
            continue
        if ch == '"':
            state['inq'] = True
        elif ch == ':':
            out.append('COLON')
        elif ch == '=':
            out.append('EQ')
        elif ch == '\n':
            out.append('NL')
        elif ch == '+':
            out.append('PLUS')
        elif ch == '[':
            out.append('BRO')
        elif ch == ']':
            out.append('BRC')
        elif ch == '/' and s[i:i + 2] == '//':
            j = s.find('\n', i)
            i = len(s) if j < 0 else j
            continue
        elif not ch.isspace():
            j = i
            while j < len(s) and not s[j].isspace() and s[j] not in '":=[]+\n':
                j += 1
            out.append('WORD')
            i = j
            continue
        i += 1
    return out


class LineEmit:
    """Abstractly run a text writer under a configuration and return the token stream it writes."""

    def __init__(self, mod: Any, fold: Folder, values: Dict[str, Any], raw_slots: List[Tuple[ast.AST, str]]) -> None:
        self.ex = Extractor(mod, fold, Config(dict(values), None), None)
        self.mod = mod
        self.state = {'inq': False}
        self.out: List[str] = []
        self.raw_slots = raw_slots

    def truthy(self, e: ast.AST) -> Any:
        v = self.ex.ev(e)
        if v is UNKNOWN:
            return UNKNOWN
        return bool(v)

    def write(self, x: ast.AST, node: ast.AST) -> None:
        if isinstance(x, ast.Constant) and isinstance(x.value, str):
            self.out += lex_const(x.value, self.state)
        elif isinstance(x, ast.JoinedStr):
            for v in x.values:
                if isinstance(v, ast.Constant):
                    self.out += lex_const(str(v.value), self.state)
                else:
                    inner = v.value                                          # type: ignore[attr-defined]
                    if self.state['inq']:
                        esc = isinstance(inner, ast.Call) and dotted(inner.func) in ('_fgd_escape', 'escape_text')
                        self.raw_slots.append((node, U(inner)) if not esc else (node, ''))
                    else:
                        self.out.append('WORD')
        elif isinstance(x, ast.BinOp) and isinstance(x.op, ast.Add):
            self.write(x.left, node)
            self.write(x.right, node)
        elif isinstance(x, ast.IfExp):
            t = self.truthy(x.test)
            if t is UNKNOWN:
                # both alternatives must lex alike
                a = lex_const(x.body.value, dict(self.state)) if isinstance(x.body, ast.Constant) else None
                b = lex_const(x.orelse.value, dict(self.state)) if isinstance(x.orelse, ast.Constant) else None
                if a is None or a != b:
                    raise AnalysisError(f'line {x.lineno}: undecided conditional text `{U(x)[:50]}`')
                self.out += a
            else:
                self.write(x.body if t else x.orelse, node)
        elif isinstance(x, (ast.Name, ast.Attribute, ast.Call)):
            self.out.append('WORD')
        else:
            raise AnalysisError(f'line {getattr(x, "lineno", 0)}: written text `{U(x)[:50]}` not recognised')

    def block(self, stmts: Sequence[ast.stmt]) -> None:
        for st in stmts:
            self.stmt(st)

    def stmt(self, st: ast.stmt) -> None:
        if isinstance(st, ast.Expr) and isinstance(st.value, ast.Call):
            c = st.value
            d = dotted(c.func) or ''
            if d == 'file.write' and c.args:
                self.write(c.args[0], c)
                return
            if d == '_write_longstring' and len(c.args) >= 3:
                t = self.truthy(c.args[2])
                if t is UNKNOWN:
                    # loop items (flag / choice names): assumed non-empty
                    t = True
                if t:
                    self.out.append('STR')
                return
            if d.endswith('.export') or d in ('warnings.warn',):
                self.out.append('SUB')
                return
            return
        if isinstance(st, ast.Expr):
            return
        if isinstance(st, ast.If):
            t = self.truthy(st.test)
            if t is UNKNOWN:
                raise AnalysisError(f'line {st.lineno}: gate `{U(st.test)[:60]}` is not decided by the configuration')
            self.block(st.body if t else st.orelse)
            return
        if isinstance(st, ast.Assign) and len(st.targets) == 1 and isinstance(st.targets[0], ast.Name):
            v = self.ex.ev(st.value)
            if v is not UNKNOWN:
                self.ex.env[st.targets[0].id] = v
            else:
                self.ex.env.pop(st.targets[0].id, None)
            return
        if isinstance(st, (ast.Assign, ast.AnnAssign, ast.AugAssign, ast.Pass)):
            return
        if isinstance(st, ast.For):
            self.out.append('LOOP(')
            self.block(st.body)
            self.out.append(')')
            return
        if isinstance(st, ast.Try):
            self.block(st.orelse)      # `try: float(value) except ValueError: value = '"..."'` - value tokens are WORD/STR alike
            return
        if isinstance(st, ast.Raise):
            return
        raise AnalysisError(f'line {st.lineno}: statement {type(st).__name__} not handled by the line emitter')


def dangling_colon(tokens: List[str]) -> Optional[int]:
    for i, t in enumerate(tokens):
        if t == 'COLON':
            nxt = tokens[i + 1] if i + 1 < len(tokens) else 'END'
            if nxt in ('NL', 'EQ', 'END', 'BRO', 'BRC', 'LOOP(', ')'):
                return i
    return None


def _ancestors(mod: Any, node: ast.AST) -> Iterator[ast.AST]:
    cur = mod.parents.get(node)
    while cur is not None:
        yield cur
        cur = mod.parents.get(cur)



def stale_loop_values(fn, record_ctors):
    """(use node, var, loop) where a local assigned before the loop and re-assigned only conditionally inside it is used to build a record"""
    out=[]
    for lp in [l for l in ast.walk(fn) if isinstance(l,(ast.For,ast.While))]:
        # plain assignments to names in loop body (any depth, not nested loops' own targets)
        assigned_in = {}
        for n in ast.walk(lp):
            if isinstance(n,(ast.Assign,ast.AnnAssign)) and getattr(n,'value',None) is not None:
                for t in (n.targets if isinstance(n,ast.Assign) else [n.target]):
                    for e in ast.walk(t):
                        if isinstance(e,ast.Name) and isinstance(e.ctx,ast.Store): assigned_in.setdefault(e.id,[]).append(n)
        loop_targets = {e.id for e in ast.walk(lp.target) if isinstance(e,ast.Name)} if isinstance(lp,ast.For) else set()
        def block(stmts, must):
            must=set(must)
            for st in stmts:
                # uses first
                uses(st, must)
                if isinstance(st,(ast.Assign,ast.AnnAssign)) and getattr(st,'value',None) is not None:
                    for t in (st.targets if isinstance(st,ast.Assign) else [st.target]):
                        for e in ast.walk(t):
                            if isinstance(e,ast.Name): must.add(e.id)
                elif isinstance(st,ast.If):
                    a=block(st.body, must); b=block(st.orelse, must)
                    ta = ends(st.body); tb = ends(st.orelse)
                    if ta and tb: return must
                    must = b if ta else (a if tb else a & b)
                elif isinstance(st,ast.Try):
                    a=block(st.body, must)
                    hs=[block(h.body, must) for h in st.handlers if not ends(h.body)]
                    must = a if not hs else a.intersection(*hs) if not ends(st.body) else set.intersection(*hs)
                    must = block(st.orelse, must); must = block(st.finalbody, must)
                elif isinstance(st,(ast.For,ast.While)):
                    pass
                elif isinstance(st, ast.With):
                    must=block(st.body, must)
            return must
        def ends(stmts):
            return bool(stmts) and isinstance(stmts[-1],(ast.Continue,ast.Break,ast.Return,ast.Raise))
        def uses(st, must):
            if isinstance(st,(ast.If,ast.Try,ast.For,ast.While,ast.With)):
                tests=[st.test] if isinstance(st,(ast.If,ast.While)) else []
                nodes=tests
            else:
                nodes=[st]
            for nd in nodes:
                for c in ast.walk(nd):
                    if isinstance(c,ast.Call):
                        d=dotted(c.func) or ''
                        is_ctor = d.split('.')[-1] in record_ctors
                        if not is_ctor: continue
                        for a in list(c.args)+[k.value for k in c.keywords]:
                            for x in ast.walk(a):
                                if isinstance(x,ast.Name) and x.id in assigned_in and x.id not in must and x.id not in loop_targets:
                                    out.append((c,x.id,lp))
        block(lp.body, set())
    return out



def _anc16(mod: Any, n: ast.AST, stop: Any) -> List[ast.AST]:
    out = []
    p = mod.parents.get(n)
    while p is not None and p is not stop:
        out.append(p)
        p = mod.parents.get(p)
    return out


def _root16(e: ast.AST) -> Optional[str]:
    while isinstance(e, (ast.Attribute, ast.Subscript)):
        e = e.value
    return e.id if isinstance(e, ast.Name) else None


def run(ctx: Any, prog: Program) -> None:
    db = prog.module('_engine_db')
    fgd = prog.module('fgd')
    hlp = prog.module('_fgd_helpers')
    fold = Folder(prog, db)
    ffold = Folder(prog, fgd)
    ctx.not_decided += ['equality of definitions after a text round trip (value dependent)', 'content of the shipped fgd.lzma', 'entity ordering of a second export', 'block packing heuristics of serialise()']
    ctx.rule('C16.Q1', 'binary database: reader and writer token sequences agree; header counts equal records written; flag bits tested and masked', floor=20)
    ctx.rule('C16.Q2', 'binary code tables are complete, duplicate free and fit their bit fields', floor=8)
    ctx.rule('C16.Q3', 'text name tables and keywords agree between FGD writer and parser', floor=25)
    ctx.rule('C16.Q4', 'text writers: no dangling colon, quoted slots escaped, long strings not cut inside an escape, parser options', floor=40)
    ctx.rule('C16.Q5', 'lazy block parsing only fills placeholders with fresh objects, is idempotent, and is shared by get_fgd', floor=8)
    # Q4 clause: "written without quotes if it is a number" must not apply to the EMPTY text.  A digit test of the form `all(c in DIGITS for c in s)`
    # is vacuously true for '', so wherever KVDef.export chooses the bare form by such a test the text is known to be non-empty (an enclosing
    # truth test of it) - otherwise `"" : "None"` in a choices list is written as ` : "None"`, which the parser rejects.
    kve_ = fgd.func('KVDef.export')

    def _vacuous_pred(e: ast.AST) -> Optional[str]:
        """name of the variable whose characters an `all(...)` test (inline or through a one-line module helper) ranges over"""
        if isinstance(e, ast.Call) and dotted(e.func) == 'all' and e.args and isinstance(e.args[0], ast.GeneratorExp) and isinstance(e.args[0].generators[0].iter, ast.Name):
            return e.args[0].generators[0].iter.id
        if isinstance(e, ast.Call) and isinstance(e.func, ast.Name) and fgd.has_func(e.func.id) and len(e.args) == 1 and isinstance(e.args[0], ast.Name):
            hf = fgd.func(e.func.id)
            rets_ = [r.value for r in walk_no_nested(hf) if isinstance(r, ast.Return)]
            if len(rets_) == 1 and len(hf.args.args) == 1 and _vacuous_pred(rets_[0]) == hf.args.args[0].arg:
                return e.args[0].id
        return None
    n_vac = 0
    for if_ in [n for n in ast.walk(kve_) if isinstance(n, ast.If)]:
        t_ = if_.test.operand if isinstance(if_.test, ast.UnaryOp) and isinstance(if_.test.op, ast.Not) else if_.test
        var_ = _vacuous_pred(t_)
        if var_ is None:
            continue
        n_vac += 1
        # the variable, or what it was str()-ed from, is tested for truth by an enclosing `if`
        srcs_ = {var_} | {x.id for a in ast.walk(kve_) if isinstance(a, ast.Assign) and any(dotted(t) == var_ for t in a.targets) for x in ast.walk(a.value) if isinstance(x, ast.Name)}
        guarded_ = any(isinstance(a_, ast.If) and a_ is not if_ and any(isinstance(x, ast.Name) and x.id in srcs_ for x in ast.walk(a_.test)) and any(if_ is y for b in a_.body for y in ast.walk(b)) for a_ in _anc16(fgd, if_, kve_))
        ctx.check('C16.Q4', guarded_, fgd, if_, f'KVDef.export writes `{var_}` without quotes when `{U(t_)[:50]}` - a test that is also true for the empty string - and nothing here rules the empty string out: an empty '
                  'choice value is written as nothing at all in front of the colon, which the parser refuses', func='KVDef.export', text=f'bare form of `{var_}` excludes the empty text')
    ctx.shape('C16.Q4', n_vac >= 1, fgd, kve_, 'no `all(...)`-style digit test found in KVDef.export (the default value test confirmed by hand)', func='KVDef.export', text='bare-number tests')
    # per-object state that methods change in place must not be a class-level container shared by every instance (see engine.model)
    from engine.model import shared_mutable_class_attrs as _smca
    for _m in (db, fgd):
        _hits = _smca(_m.tree, [c.name for c in _m.tree.body if isinstance(c, ast.ClassDef)])
        for _cn, _attr, _st in _hits:
            ctx.check('C16.Q5', False, _m, _st, f'{_cn}.{_attr} is a class-level container (`{U(_st.value)[:30]}`) that methods change in place and no __init__ assigns: all {_cn} objects share it, so what one database or FGD object has loaded changes what another one returns',
                      func=_cn, text=f'{_cn}.{_attr} is per-object state')
        ctx.check('C16.Q5', True, _m, _m.tree, f'{len(_hits)} shared class-level containers in {_m.relpath}', func='<module>', text=f'{_m.relpath}: class-level containers examined')

    from rules.c16_helpers import q6_helper_args
    q6_helper_args(ctx, prog)

    # Q8: kv_order names keys of `keyvalues`.  The keyvalues dict is keyed by the casefolded name and export() sorts its items by
    # `kv_order.get(<key>)`: an entry of kv_order that is not casefolded matches no key, that keyvalue sorts to the end, and the exported
    # order (hence the re-exported text) differs from the file that was read.
    ctx.rule('C16.Q8', 'names recorded in kv_order are the casefolded keys under which the keyvalue is stored', floor=1)
    n_q8 = 0
    for q_, fns_ in fgd.all_funcs().items():
        for fn_ in fns_:
            for c8 in [c for c in walk_no_nested(fn_) if isinstance(c, ast.Call) and isinstance(c.func, ast.Attribute) and c.func.attr in ('append', 'insert') and isinstance(c.func.value, ast.Attribute) and c.func.value.attr == 'kv_order' and c.args]:
                e8 = c8.args[-1]
                defs8 = [a.value for a in walk_no_nested(fn_) if isinstance(a, ast.Assign) and any(isinstance(t, ast.Name) and isinstance(e8, ast.Name) and t.id == e8.id for t in a.targets)]
                forms8 = defs8 if isinstance(e8, ast.Name) and defs8 else [e8]
                folded = all(isinstance(f8, ast.Call) and isinstance(f8.func, ast.Attribute) and f8.func.attr in ('casefold', 'lower') for f8 in forms8)
                n_q8 += 1
                if not folded and isinstance(e8, ast.Name) and not defs8:
                    # a parameter or loop variable: whether the caller folded it is not visible here
                    ctx.shape('C16.Q8', False, fgd, c8, f'{q_}: where `{e8.id}` appended to kv_order comes from was not recognised', func=q_, text=f'{q_}: kv_order entry is the casefolded key')
                    continue
                ctx.check('C16.Q8', folded, fgd, c8, f'{q_} records `{U(forms8[0])[:40]}` in kv_order, but the keyvalue is stored under the casefolded name: export() looks the key up in kv_order to sort, finds nothing for a name '
                          'with capitals and writes that keyvalue last - the definition order of the file is lost', func=q_, text=f'{q_}: kv_order entry is the casefolded key')
    ctx.shape('C16.Q8', n_q8 >= 1, fgd, fgd.tree, f'{n_q8} appends to kv_order found (two confirmed by hand in EntityDef.parse)', text='kv_order appends')
    # Q9: export() writes every helper.  The only helpers it may leave out are the extension helpers when custom syntax is off (documented);
    # any other `continue` in the helper loop drops a helper that parse() would have read back.
    ctx.rule('C16.Q9', 'EntityDef.export writes every helper; only extension helpers are skipped, and only without custom syntax', floor=1)
    ex9 = fgd.func('EntityDef.export')
    loops9 = [l for l in walk_no_nested(ex9) if isinstance(l, ast.For) and any(isinstance(x, ast.Attribute) and x.attr == 'helpers' for x in ast.walk(l.iter))]
    ctx.shape('C16.Q9', len(loops9) == 1 and dotted(loops9[0].iter) == 'self.helpers', fgd, ex9, 'one `for helper in self.helpers` loop expected in EntityDef.export', func='EntityDef.export', text='helper loop')
    for lp9 in loops9[:1]:
        if dotted(lp9.iter) != 'self.helpers':
            break
        skips = [x for x in ast.walk(lp9) if isinstance(x, (ast.Continue, ast.Break))]
        for sk in skips:
            # `file.write(<the helper in its special form>); continue` is another way of writing the helper, not a skip
            hold9 = fgd.parents.get(sk)
            blk9 = next((getattr(hold9, f_) for f_ in ('body', 'orelse') if isinstance(getattr(hold9, f_, None), list) and sk in getattr(hold9, f_)), [])
            if any(isinstance(c_, ast.Call) and isinstance(c_.func, ast.Attribute) and c_.func.attr in ('write', 'writelines') for st_ in blk9[:blk9.index(sk)] for c_ in ast.walk(st_)):
                continue
            tests = [a.test for a in _anc16(fgd, sk, lp9) if isinstance(a, ast.If)]
            conj = [v for t in tests for v in (t.values if isinstance(t, ast.BoolOp) and isinstance(t.op, ast.And) else [t])]
            documented = any(isinstance(v, ast.UnaryOp) and isinstance(v.op, ast.Not) and dotted(v.operand) == 'custom_syntax' for v in conj) and any(isinstance(v, ast.Attribute) and v.attr == 'IS_EXTENSION' for v in conj)
            ctx.check('C16.Q9', documented, fgd, sk, f'EntityDef.export leaves the helper loop by `{U(sk)}` under `{" and ".join(U(t)[:50] for t in tests) or "no condition"}`: a helper other than an extension helper (without custom syntax) '
                      'is not written, so the parsed-back definition has fewer helpers than the exported one', func='EntityDef.export', text=f'skip under `{" and ".join(U(t)[:30] for t in tests)}` is the documented one')
        ctx.shape('C16.Q9', bool(skips), fgd, lp9, 'the extension-helper skip was not found in the helper loop', func='EntityDef.export', text='extension helpers skipped without custom syntax')

    # Q10: every comma-separated piece of a helper's argument text is an argument.  `helper()` gives the single blank piece `['']`, which is
    # reduced to no arguments; blank pieces among others (`line(255 255 255, targetname, )`) are arguments the exporter wrote and have to stay,
    # otherwise the arguments behind them shift (or a fixed-arity helper refuses text the library produced).
    ctx.rule('C16.Q10', 'EntityDef.parse keeps every comma-separated helper argument, blank ones included', floor=1)
    ep10 = fgd.func('EntityDef.parse')
    splits10 = [c for c in ast.walk(ep10) if isinstance(c, ast.Call) and isinstance(c.func, ast.Attribute) and c.func.attr == 'split' and c.args and isinstance(c.args[0], ast.Constant) and c.args[0].value == ',']
    ctx.shape('C16.Q10', len(splits10) >= 1, fgd, ep10, 'the split of the helper argument text on commas was not found in EntityDef.parse', func='EntityDef.parse', text='helper arguments split on commas')
    for sp10 in splits10:
        comp10 = next((a for a in _anc16(fgd, sp10, ep10) if isinstance(a, (ast.ListComp, ast.GeneratorExp))), None)
        filt10 = [i_ for g in comp10.generators for i_ in g.ifs] if comp10 is not None else []
        filt10 += [c for c in _anc16(fgd, sp10, ep10) if isinstance(c, ast.Call) and dotted(c.func) == 'filter']
        ctx.check('C16.Q10', not filt10, fgd, filt10[0] if filt10 else sp10, f'EntityDef.parse drops helper arguments for which `{U(filt10[0])[:40] if filt10 else ""}` is false: a blank argument between others is an argument '
                  '(the exporter writes it), dropping it shifts the following ones - the parsed helper differs from the exported one, or a fixed-arity helper raises on text the library wrote', func='EntityDef.parse',
                  text='helper arguments are not filtered')
    # Q5 (whole database): get_fgd() builds the FGD from the complete entity map.  The block table is consumed by lazy parsing - a block
    # decoded for an earlier engine_def() lookup has been replaced by an empty entry - so an FGD assembled from the blocks' class lists lacks
    # every entity of those blocks.
    gf10 = edb.func('EngineDB.get_fgd') if 'edb' in dir() else prog.module('_engine_db').func('EngineDB.get_fgd')
    edbm = prog.module('_engine_db')
    st10 = [a for a in ast.walk(gf10) if isinstance(a, ast.Assign) and any(isinstance(t, ast.Subscript) and isinstance(t.value, ast.Attribute) and t.value.attr == 'entities' for t in a.targets)]
    ctx.shape('C16.Q5', len(st10) >= 1, edbm, gf10, 'get_fgd stores the entities into the FGD', func='EngineDB.get_fgd', text='get_fgd fills FGD.entities')
    for a10 in st10:
        lps = [l for l in _anc16(edbm, a10, gf10) if isinstance(l, ast.For)]
        from_map = any('ent_map' in U(l.iter) for l in lps)
        from_blocks = any('unparsed' in U(l.iter) for l in lps)
        if not lps:
            continue            # a single named entity stored besides the loop
        ctx.check('C16.Q5', from_map and not from_blocks, edbm, a10, f'get_fgd fills FGD.entities inside a loop over `{U(lps[0].iter)[:50]}`: blocks that an earlier engine_def() lookup has already decoded are blank in the block table, so '
                  'their entities are missing from the whole database (and the incomplete FGD is cached)', func='EngineDB.get_fgd', text='get_fgd takes the entities from the complete map')

    # Q1 (strings as they are): what the database writers hand to str_dict() / write() is the field itself.  A writer that folds the case of a
    # string (to share dictionary entries) stores another string than the definition holds; unserialise() hands that one back.
    edb11 = prog.module('_engine_db')
    n_sd = 0
    for q11, fl11 in edb11.all_funcs().items():
        if 'serialise' not in q11 or 'unserialise' in q11:
            continue
        for f11 in fl11:
            ld11: Dict[str, List[ast.AST]] = {}
            for a in walk_no_nested(f11):
                if isinstance(a, ast.Assign):
                    for t in a.targets:
                        if isinstance(t, ast.Name):
                            ld11.setdefault(t.id, []).append(a.value)
            for c11 in [c for c in walk_no_nested(f11) if isinstance(c, ast.Call) and dotted(c.func) in ('str_dict', 'file.write') and c.args]:
                n_sd += 1
                todo11, seen11, folds = [c11.args[0]], set(), []
                while todo11:
                    e = todo11.pop()
                    for x in ast.walk(e):
                        if isinstance(x, ast.Call) and isinstance(x.func, ast.Attribute) and x.func.attr in ('casefold', 'lower', 'upper', 'title', 'capitalize', 'swapcase') and x is not c11:
                            folds.append(x)
                        if isinstance(x, ast.Name) and x.id in ld11 and x.id not in seen11:
                            seen11.add(x.id)
                            todo11 += ld11[x.id]
                if folds:
                    ctx.check('C16.Q1', False, edb11, folds[0], f'{q11} writes `{U(folds[0])[:50]}` into the database instead of the string itself: the definition read back has the folded spelling '
                              '(`models/swarm/Bayonet/...` comes back lower-cased), so the binary format does not round-trip what the text format does', func=q11, text=f'{q11}: strings written unfolded')
    ctx.shape('C16.Q1', n_sd >= 10, edb11, edb11.tree, f'{n_sd} str_dict()/write() calls found in the serialisers of _engine_db.py', text='database string writes')

    # Q1 (order): the binary serialisers write collections in the order the definition holds them.  `sorted(...)` over a field (spawnflags by
    # mask) gives a canonical file but another definition: flags_list order is what the text export writes.
    for q11, fl11 in prog.module('_engine_db').all_funcs().items():
        if 'serialise' not in q11 or 'unserialise' in q11:
            continue
        for f11 in fl11:
            for lp11 in [l for l in walk_no_nested(f11) if isinstance(l, ast.For)]:
                it11 = lp11.iter
                if isinstance(it11, ast.Call) and dotted(it11.func) in ('sorted', 'reversed', 'set', 'frozenset') and it11.args and isinstance(it11.args[0], ast.Attribute) and isinstance(it11.args[0].value, ast.Name) \
                        and it11.args[0].value.id not in ('self',) and not (isinstance(it11.args[0], ast.Call)):
                    ctx.check('C16.Q1', False, prog.module('_engine_db'), it11, f'{q11} writes `{U(it11.args[0])}` in `{U(it11)[:40]}` order: the list comes back reordered from the database, while the text format keeps the '
                              'order of the definition - the two formats no longer hold the same information', func=q11, text=f'{q11}: `{U(it11.args[0])[:30]}` written in stored order')

    # Q3 (record-local values): every argument of a record constructor inside a parse loop is assigned in the same iteration before it is used
    ctx.rule('C16.Q7', 'values put into a parsed record (Resource / KVDef / IODef) are assigned in the iteration that builds the record, never carried over from the previous one', floor=1)
    RECORDS = {'Resource', 'KVDef', 'IODef'}
    n_rec = 0
    for q_, fns_ in fgd.all_funcs().items():
        for fn_ in fns_:
            in_loop = [c for l in ast.walk(fn_) if isinstance(l, (ast.For, ast.While)) for c in ast.walk(l) if isinstance(c, ast.Call) and (dotted(c.func) or '').split('.')[-1] in RECORDS]
            if not in_loop:
                continue
            n_rec += len({id(c) for c in in_loop})
            hz = stale_loop_values(fn_, RECORDS)
            for c, v, lp in hz:
                ctx.check('C16.Q7', False, fgd, c, f'`{U(c)[:60]}` uses `{v}`, which this iteration only assigns on some paths: on the others the record gets the value left over from the previous record '
                          '(an untagged resource after a tagged one inherits its tags)', func=q_, text=f'{q_}: {v} assigned per record')
            if not hz:
                ctx.check('C16.Q7', True, fgd, in_loop[0], 'record arguments assigned per iteration', func=q_, text=f'{q_}: record arguments assigned per record')
    if n_rec < 1:
        raise AnalysisError('Q7: no record constructor inside a parse loop found (Resource(...) in EntityDef.parse confirmed by hand)')
    # ---- Q1 --------------------------------------------------------------------------------------------------
    vt = ffold.enum_table('ValueTypes')
    common = dict(stream=('file',), dict_read=('from_dict',), dict_write=('str_dict', 'dic'), ignore=('make_lookup',))

    def tw(values: Dict[str, Any], **kw: Any) -> TokWire:
        return TokWire(db, fold, values, **{**common, **kw})
    spawn, plain = vt.members['SPAWNFLAGS'], vt.members['STRING']
    for label, member in (('spawnflags', spawn), ('plain', plain)):
        w = tw({'kvdef.type': member, 'kvdef.type is ValueTypes.SPAWNFLAGS': member is spawn, 'kvdef.type is ValueTypes.CHOICES': False, 'kvdef.readonly': False, 'tags': False, 'default': False})
        r = tw({'value_type': member, 'value_type is ValueTypes.SPAWNFLAGS': member is spawn})
        ws, rs = merge_slots(flat(w.block(db.func('kv_serialise').body))), merge_slots(flat(r.block(db.func('kv_unserialise').body)))
        resolved_ = '[' not in ws and '[' not in rs
        ctx.shape('C16.Q1', resolved_, db, db.func('kv_serialise'), f'keyvalue record ({label}): every branch is decided by the configuration (reader `{rs}`, writer `{ws}`)', func='kv_serialise', text=f'kv record {label}')
        if resolved_:
            ctx.check('C16.Q1', ws == rs, db, db.func('kv_serialise'), f'keyvalue record ({label}): reader consumes `{rs}`, writer produces `{ws}`', func='kv_serialise', text=f'kv record {label}')
    ws = merge_slots(flat(tw({}).block(db.func('iodef_serialise').body)))
    rs = merge_slots(flat(tw({}).block(db.func('iodef_unserialise').body)))
    ctx.check('C16.Q1', ws == rs, db, db.func('iodef_serialise'), f'I/O record: reader `{rs}`, writer `{ws}`', func='iodef_serialise', text='io record')
    bsd = db.methods('BinStrDict')
    ws = merge_slots(flat(tw({}).block(bsd['write_tags'].body)))
    rs = merge_slots(flat(tw({}).block(bsd['read_tags'].body)))
    ctx.check('C16.Q1', ws == rs, db, bsd['write_tags'], f'tag list: reader `{rs}`, writer `{ws}`', func='BinStrDict.write_tags', text='tag list')
    ws = merge_slots(flat(tw({}).block(bsd['serialise'].body)))
    rs = merge_slots(flat(tw({}).block(bsd['unserialise'].body)))
    ctx.check('C16.Q1', ws == rs, db, bsd['serialise'], f'string dictionary: reader `{rs}`, writer `{ws}`', func='BinStrDict.serialise', text='string dictionary')
    ok = 'STRING_SEP.join(inv_list)' in U(bsd['serialise']) and '.split(STRING_SEP)' in U(bsd['unserialise']) and 'lzma.compress' in U(bsd['serialise']) and 'lzma.decompress' in U(bsd['unserialise'])
    ctx.shape('C16.Q1', ok, db, bsd['serialise'], 'dictionary strings are joined / split with STRING_SEP and lzma (de)compressed', func='BinStrDict.serialise', text='dictionary payload coding')
    # resource records inside ent_(un)serialise
    es, eu = db.func('ent_serialise'), db.func('ent_unserialise')
    # the loops are found by what they do (tag lists + the file-type tables), not by the names of their variables
    def _mentions(n: ast.AST, *names: str) -> bool:
        txt = {dotted(x) for x in ast.walk(n) if isinstance(x, (ast.Name, ast.Attribute))}
        return all(any((t or '').endswith(nm) for t in txt) for nm in names)
    wres = [n for n in walk_no_nested(es) if isinstance(n, ast.For) and _mentions(n, 'write_tags', 'FILE_TYPE_INDEX')]
    rres = [n for n in ast.walk(eu) if isinstance(n, (ast.While, ast.For)) and _mentions(n, 'read_tags', 'FILE_TYPE_ORDER')]
    rres = [n for n in rres if not any(o is not n and any(x is o for x in ast.walk(n)) for o in rres)] or rres
    if len(wres) != 1 or len(rres) != 1:
        raise AnalysisError('resource loops not found in ent_serialise / ent_unserialise')
    ent_param = es.args.args[0].arg
    w_iter = wres[0].iter
    direct = dotted(w_iter) == f'{ent_param}.resources'
    if not direct:
        # a local derived from ent.resources (a de-duplicating dict, a filtered list): records of the entity are then missing from the file
        base_names = {x.id for x in ast.walk(w_iter) if isinstance(x, ast.Name)}
        derived = any(isinstance(a, (ast.Assign, ast.AnnAssign, ast.For, ast.Expr)) and any(isinstance(x, ast.Name) and x.id in base_names for x in ast.walk(a))
                      and any(dotted(x) == f'{ent_param}.resources' for x in ast.walk(a)) for a in ast.walk(es))
        ctx.shape('C16.Q1', derived, db, wres[0], f'the resource loop iterates `{U(w_iter)[:40]}`, which is neither {ent_param}.resources nor derived from it', func='ent_serialise', text='every resource serialised')
        if derived:
            ctx.check('C16.Q1', False, db, wres[0], f'ent_serialise writes the resources from `{U(w_iter)[:40]}`, a collection derived from {ent_param}.resources, not the list itself: entries the derivation merges or drops '
                      '(the same file under two tag conditions, repeated entries) are missing after unserialise()', func='ent_serialise', text='every resource serialised')
    else:
        ctx.check('C16.Q1', True, db, wres[0], 'resources written from the entity\'s own list', func='ent_serialise', text='every resource serialised')
    sub = {'BinStrDict.write_tags': 'TAGS', 'BinStrDict.read_tags': 'TAGS'}
    # the branch that carries the tag list, on either side: the `if` whose body calls write_tags / read_tags (its test is the configuration key)
    def tag_test(loop: ast.AST, meth: str) -> Optional[str]:
        ifs_ = [n for n in ast.walk(loop) if isinstance(n, ast.If) and any(isinstance(c, ast.Call) and (dotted(c.func) or '').endswith('.' + meth) for st in n.body for c in ast.walk(st))]
        return U(ifs_[0].test) if len(ifs_) == 1 else None
    w_key, r_key = tag_test(wres[0], 'write_tags'), tag_test(rres[0], 'read_tags')
    ctx.shape('C16.Q1', w_key is not None and r_key is not None, db, wres[0], 'one tag-list branch in the resource loop of ent_serialise and of ent_unserialise', func='ent_serialise', text='resource record tag branch')
    for tagged in (True, False):
        if w_key is None or r_key is None:
            break
        ws = merge_slots(flat(tw({w_key: tagged}, sub=sub).block(wres[0].body)))
        rs = merge_slots(flat(tw({r_key: tagged}, sub=sub).block(rres[0].body)))
        resolved_ = '[' not in ws and '[' not in rs
        ctx.shape('C16.Q1', resolved_, db, wres[0], f'resource record ({"tagged" if tagged else "untagged"}): every branch is decided by the configuration (reader `{rs}`, writer `{ws}`)', func='ent_serialise', text=f'resource record tagged={tagged}')
        if resolved_:
            ctx.check('C16.Q1', ws == rs, db, wres[0], f'resource record ({"tagged" if tagged else "untagged"}): reader `{rs}`, writer `{ws}`', func='ent_serialise', text=f'resource record tagged={tagged}')
    # entity header linkage
    hw = [c for c in walk_no_nested(es) if isinstance(c, ast.Call) and dotted(c.func) == '_fmt_ent_header.pack']
    hr = [n for n in walk_no_nested(eu) if isinstance(n, ast.Assign) and isinstance(n.value, ast.Call) and dotted(n.value.func) == '_fmt_ent_header.unpack']
    if len(hw) != 1 or len(hr) != 1:
        raise AnalysisError('entity header pack/unpack not found')
    rnames = [dotted(e) for e in hr[0].targets[0].elts]                      # type: ignore[attr-defined]
    # locals assigned exactly once stand for their definition (`kv_count = sum(...)`; `pack(flag_bits, base_count, kv_count, ...)`)
    _defs: Dict[str, List[ast.AST]] = {}
    for n_ in walk_no_nested(es):
        if isinstance(n_, (ast.Assign, ast.AnnAssign)) and n_.value is not None:
            for t_ in (n_.targets if isinstance(n_, ast.Assign) else [n_.target]):
                if isinstance(t_, ast.Name):
                    _defs.setdefault(t_.id, []).append(n_.value)
        elif isinstance(n_, ast.AugAssign) and isinstance(n_.target, ast.Name):
            _defs.setdefault(n_.target.id, []).extend([n_.value, n_.value])

    class _Subst(ast.NodeTransformer):
        def visit_Name(self, node: ast.Name) -> ast.AST:
            if isinstance(node.ctx, ast.Load) and len(_defs.get(node.id, [])) == 1:
                return self.visit(ast.parse(U(_defs[node.id][0]), mode='eval').body)
            return node
    wargs = [ast.fix_missing_locations(ast.copy_location(_Subst().visit(ast.parse(U(a), mode='eval').body), a)) for a in hw[0].args]
    ctx.check('C16.Q1', len(rnames) == len(wargs) == 6, db, hw[0], f'entity header: {len(wargs)} values packed, {len(rnames)} unpacked', func='ent_serialise', text='entity header arity')
    # reader: count variable -> collection filled by the loop it bounds
    rcoll: Dict[str, str] = {}
    for n in ast.walk(eu):
        if isinstance(n, ast.While) and isinstance(n.test, ast.Name):
            stores = {t.value.attr if isinstance(t, ast.Subscript) and isinstance(t.value, ast.Attribute) else None for s in ast.walk(n) if isinstance(s, ast.Assign) for t in s.targets}
            appends = {c.func.value.attr for c in ast.walk(n) if isinstance(c, ast.Call) and isinstance(c.func, ast.Attribute) and c.func.attr == 'append' and isinstance(c.func.value, ast.Attribute)}
            for c in ast.walk(n):
                if isinstance(c, ast.Call) and isinstance(c.func, ast.Attribute) and c.func.attr == 'append' and isinstance(c.func.value, ast.Name):
                    # a local list: it stands for the attribute it is stored into (`ent.resources = <list>`), else for its own name
                    lst_ = c.func.value.id
                    into_ = {t.attr for a_ in ast.walk(eu) if isinstance(a_, ast.Assign) and dotted(a_.value) == lst_ for t in a_.targets if isinstance(t, ast.Attribute)}
                    appends.add(into_.pop() if len(into_) == 1 else lst_)
            coll = (stores | appends) - {None}
            if len(coll) == 1:
                rcoll[n.test.id] = coll.pop()
    order_w: List[str] = []
    for i, (rn, wa) in enumerate(zip(rnames, wargs)):
        if i == 0:
            ctx.shape('C16.Q1', rn == 'flags' and 'flags' in U(wa), db, wa, 'first header byte carries the entity flags', func='ent_serialise', text='entity header slot 0 flags')
            continue
        wcoll = sorted({x.attr for x in ast.walk(wa) if isinstance(x, ast.Attribute) and dotted(x.value) == 'ent'})
        if not wcoll:
            # the counted collection may be a local taken out of a list of the attribute maps: `[keyvalues, inputs, outputs] = attr_maps`
            resolved_, verdict_ = None, None
            for nm_ in [x.id for x in ast.walk(wa) if isinstance(x, ast.Name) and isinstance(x.ctx, ast.Load)]:
                for a_ in ast.walk(es):
                    if isinstance(a_, ast.Assign) and isinstance(a_.targets[0], (ast.List, ast.Tuple)) and any(isinstance(e, ast.Name) and e.id == nm_ for e in a_.targets[0].elts) and isinstance(a_.value, ast.Name):
                        pos_ = next(k for k, e in enumerate(a_.targets[0].elts) if isinstance(e, ast.Name) and e.id == nm_)
                        srcs_ = [d.value for d in ast.walk(es) if isinstance(d, ast.Assign) and any(dotted(t) == a_.value.id for t in d.targets)]
                        empties = [d for d in srcs_ if isinstance(d, (ast.List, ast.Tuple)) and pos_ < len(d.elts) and isinstance(d.elts[pos_], (ast.Dict, ast.List)) and not getattr(d.elts[pos_], 'keys', getattr(d.elts[pos_], 'elts', None))]
                        attrs_ = [d for d in srcs_ if '_iter_attrs()' in U(d)]
                        if empties:
                            verdict_ = (False, f'`{nm_}` is element {pos_} of `{a_.value.id}`, which on one path is `{U(empties[0])[:40]}`: for those entities the writer counts and writes an EMPTY map')
                        elif attrs_ and len(attrs_) == len(srcs_):
                            ia = fgd.func('EntityDef._iter_attrs')
                            lst_ = next((x for r in ast.walk(ia) if isinstance(r, ast.Return) and r.value is not None for x in ast.walk(r.value) if isinstance(x, (ast.List, ast.Tuple))), None)
                            if lst_ is not None and pos_ < len(lst_.elts) and isinstance(lst_.elts[pos_], ast.Attribute):
                                resolved_ = lst_.elts[pos_].attr
            if verdict_ is not None:
                ctx.check('C16.Q1', False, db, wa, f'entity header slot {i}: {verdict_[1]}, where the reader fills `{rcoll.get(rn or "")}` from the file - what the entity itself defined is lost', func='ent_serialise',
                          text=f'entity header slot {i} {rn}')
                continue
            if resolved_ is not None:
                wcoll = [resolved_]
            elif any(isinstance(x, ast.Name) for x in ast.walk(wa)) and rcoll.get(rn or ''):
                ctx.shape('C16.Q1', False, db, wa, f'entity header slot {i}: the counted collection `{U(wa)[:50]}` was not resolved', func='ent_serialise', text=f'entity header slot {i} {rn}')
                continue
        order_w += wcoll
        ctx.check('C16.Q1', wcoll == [rcoll.get(rn or '')], db, wa, f'entity header slot {i}: the writer counts {wcoll} but the reader uses it (`{rn}`) to bound the loop filling `{rcoll.get(rn or "")}`', func='ent_serialise',
                  text=f'entity header slot {i} {rn}')
        # count equals records written: a collection whose writing loop can skip an entry must not be counted with len()
        if wcoll and wcoll[0] in ('keyvalues', 'inputs', 'outputs'):
            skip = [s for s in ast.walk(es) if isinstance(s, ast.If) and U(s.test) == 'not tag_map' and any(isinstance(b, ast.Continue) for b in s.body)]
            plain_len = isinstance(wa, ast.Call) and dotted(wa.func) == 'len'
            filtered = 'if tag_map' in U(wa)
            ctx.check('C16.Q1', not (skip and plain_len) and (filtered or not skip), db, wa, f'entity header slot {i}: `{U(wa)}` counts every name of ent.{wcoll[0]}, but the writing loop skips names whose tag map is empty: '
                      'the reader then consumes the following bytes as extra definitions', func='ent_serialise', text=f'entity header slot {i} counts records written')
    it = fgd.func('EntityDef._iter_attrs')
    yielded = [dotted(y.value).split('.')[-1] for y in ast.walk(it) if isinstance(y, ast.Yield) and y.value is not None]
    for r_ in ast.walk(it):
        if isinstance(r_, ast.Return) and isinstance(r_.value, ast.Call) and dotted(r_.value.func) == 'iter' and isinstance(r_.value.args[0], ast.List):
            yielded = [(dotted(e) or '').split('.')[-1] for e in r_.value.args[0].elts]
    loops_r = [n.test.id for n in eu.body if isinstance(n, ast.While) and isinstance(n.test, ast.Name)]
    ctx.check('C16.Q1', yielded == ['keyvalues', 'inputs', 'outputs'] and [rcoll.get(x) for x in loops_r] == ['bases', 'keyvalues', 'inputs', 'outputs'], db, es,
              f'record order: writer iterates {yielded} (after bases), reader loops fill {[rcoll.get(x) for x in loops_r]}', func='ent_serialise', text='collection order')
    # flag bits: a byte into which the writer ORs 128 must be tested with & 128 and masked with & 127 by the reader
    def cint(n: ast.AST) -> Optional[int]:
        if isinstance(n, ast.Constant) and isinstance(n.value, int) and not isinstance(n.value, bool):
            return n.value
        if isinstance(n, (ast.Name, ast.Attribute)):
            try:
                v = fold.fold(n, {})
            except Exception:
                return None
            return v if isinstance(v, int) and not isinstance(v, bool) else None
        return None

    def and_consts(fn: ast.AST, var: str) -> Set[int]:
        return {cint(n.right) for n in ast.walk(fn) if isinstance(n, ast.BinOp) and isinstance(n.op, ast.BitAnd) and dotted(n.left) == var and cint(n.right) is not None}      # type: ignore[misc]

    def or_consts(fn: ast.AST, var: str) -> Set[int]:
        out = {cint(n.value) for n in ast.walk(fn) if isinstance(n, ast.AugAssign) and isinstance(n.op, ast.BitOr) and dotted(n.target) == var and cint(n.value) is not None}
        out |= {cint(n.right) for n in ast.walk(fn) if isinstance(n, ast.BinOp) and isinstance(n.op, ast.BitOr) and var in U(n.left) and cint(n.right) is not None}
        return out      # type: ignore[return-value]
    for wfn, rfn, wvar, rvar in (('kv_serialise', 'kv_unserialise', 'value_type', 'value_ind'), ('kv_serialise', 'kv_unserialise', 'power', 'power'), ('ent_serialise', 'ent_unserialise', 'FILE_TYPE_INDEX[res.type]', 'file_ind')):
        wo, ra = or_consts(db.func(wfn), wvar), and_consts(db.func(rfn), rvar)
        if not wo or not ra:
            ctx.shape('C16.Q1', False, db, db.func(wfn), f'flag bit of `{wvar}` / `{rvar}` not found', func=wfn, text=f'flag bit {wvar}')
            continue
        bit = max(wo)
        ctx.check('C16.Q1', bit in ra and (bit - 1) in ra and bit == 128, db, db.func(rfn), f'the writer sets bit {bit} of `{wvar}`; the reader combines `{rvar}` with {sorted(ra)}: it must test & {bit} and mask & {bit - 1}', func=wfn, text=f'flag bit {wvar}')
    # the flag is merged before the byte is written, on every path that writes it
    def _chain(fn: ast.AST, target: ast.AST) -> List[Tuple[int, int]]:
        """[(id of statement list, index)] from the function body down to the statement holding `target`."""
        def go(stmts: List[ast.stmt]) -> Optional[List[Tuple[int, int]]]:
            for i, st in enumerate(stmts):
                if not any(n is target for n in ast.walk(st)):
                    continue
                for fld in ('body', 'orelse', 'finalbody'):
                    sub = getattr(st, fld, None)
                    if isinstance(sub, list) and sub and isinstance(sub[0], ast.stmt):
                        r = go(sub)
                        if r is not None:
                            return [(id(stmts), i)] + r
                for h in getattr(st, 'handlers', []):
                    r = go(h.body)
                    if r is not None:
                        return [(id(stmts), i)] + r
                return [(id(stmts), i)]
            return None
        return go(fn.body) or []       # type: ignore[attr-defined]
    for wfn, wvar in (('kv_serialise', 'value_type'), ('kv_serialise', 'power')):
        f_ = db.func(wfn)
        ors = [n for n in ast.walk(f_) if isinstance(n, ast.AugAssign) and isinstance(n.op, ast.BitOr) and dotted(n.target) == wvar]
        packs = [c for c in ast.walk(f_) if isinstance(c, ast.Call) and isinstance(c.func, ast.Attribute) and c.func.attr == 'pack' and any(dotted(a) == wvar for a in c.args)]
        if len(ors) != 1 or not packs:
            ctx.shape('C16.Q1', False, db, f_, f'`{wvar} |= <bit>` / pack({wvar}) not found once', func=wfn, text=f'flag merged before {wvar} is written')
            continue
        oc = _chain(f_, ors[0])
        for pk in packs:
            pc = _chain(f_, pk)
            before = any(a[0] == b[0] and a[1] < b[1] for a in oc for b in pc)
            ctx.check('C16.Q1', before, db, pk, f'`{U(pk)}` writes `{wvar}` on a path that has not passed `{U(ors[0])}` (line {ors[0].lineno}): records written here lose the flag the reader tests for',
                      func=wfn, text=f'flag merged before {wvar} is written')
    ok = 'flags & EntFlags.MASK_TYPE' in U(eu) and 'EntFlags.IS_ALIAS & flags' in U(eu) and 'flags |= EntFlags.IS_ALIAS' in U(es) and 'ENTITY_TYPE_2_FLAG[ent.type]' in U(es)
    ctx.shape('C16.Q1', ok, db, es, 'entity flags: type bits through ENTITY_TYPE_2_FLAG / MASK_TYPE, alias bit both ways', func='ent_serialise', text='entity flag bits')
    # top level
    sw = tw({}, sub={'ent_serialise': 'ENT', 'ent_unserialise': 'ENT', 'base_dict.serialise': 'DICT', 'dictionary.serialise': 'DICT', 'BinStrDict.unserialise': 'DICT', 'build_blocks': '', 'compute_ent_strings': ''})
    sfn, ufn = db.func('serialise'), db.func('unserialise')
    hdr_w = [c for c in walk_no_nested(sfn) if isinstance(c, ast.Call) and dotted(c.func) == '_fmt_header.pack']
    hdr_r = [c for c in walk_no_nested(ufn) if isinstance(c, ast.Call) and dotted(c.func) == '_fmt_header.unpack']
    ok = len(hdr_w) == 1 and len(hdr_r) == 1 and [U(a) for a in hdr_w[0].args] == ['BIN_FORMAT_VERSION', 'len(blocks)'] and "file.read(3) != b'FGD'" in U(ufn) and "b'FGD' + _fmt_header.pack" in U(sfn)
    ctx.shape('C16.Q1', ok, db, sfn, 'file header: magic, format version, block count', func='serialise', text='file header')
    ok = 'format_version != BIN_FORMAT_VERSION' in U(ufn)
    ctx.shape('C16.Q1', ok, db, ufn, 'the reader rejects other format versions', func='unserialise', text='version check')
    wsrc, usrc = U(sfn), U(ufn)
    ok = ('file.write(_fmt_16bit.pack(len(classnames)))' in wsrc and 'file.write(classnames)' in wsrc and "deferred.defer(('block', id(block_ents)), _fmt_block_pos, write=True)" in wsrc
          and '[cls_size] = _fmt_16bit.unpack(file.read(2))' in usrc and 'file.read(cls_size)' in usrc and '_fmt_block_pos.unpack(file.read(_fmt_block_pos.size))' in usrc)
    ctx.shape('C16.Q1', ok, db, sfn, 'block table entry: 16-bit length, class names, (offset, size)', func='serialise', text='block table entry')
    sd = [c for c in ast.walk(sfn) if isinstance(c, ast.Call) and dotted(c.func) == 'deferred.set_data' and len(c.args) == 3]
    ru = [n for n in ast.walk(ufn) if isinstance(n, ast.Assign) and isinstance(n.value, ast.Call) and dotted(n.value.func) == '_fmt_block_pos.unpack' and isinstance(n.targets[0], ast.Tuple) and len(n.targets[0].elts) == 2]
    if len(sd) != 1 or len(ru) != 1:
        ctx.shape('C16.Q1', False, db, sfn, 'block position set_data / unpack not found', func='serialise', text='block position linkage')
    else:
        sdefs = {t.id: U(n.value) for n in ast.walk(sfn) if isinstance(n, ast.Assign) for t in n.targets if isinstance(t, ast.Name)}
        def role(a: ast.AST) -> str:
            d = sdefs.get(dotted(a) or '', '')
            return 'pos' if d == 'file.tell()' else ('len' if 'file.tell() -' in d else '?')
        roles = (role(sd[0].args[1]), role(sd[0].args[2]))
        r_off, r_size = [dotted(e) for e in ru[0].targets[0].elts]
        seeks = any(isinstance(c, ast.Call) and dotted(c.func) == 'file.seek' and c.args and dotted(c.args[0]) == r_off for c in ast.walk(ufn))
        reads = any(isinstance(c, ast.Call) and dotted(c.func) == 'file.read' and c.args and dotted(c.args[0]) == r_size for c in ast.walk(ufn))
        if '?' in roles or not (seeks and reads):
            ctx.shape('C16.Q1', False, db, sd[0], 'roles of the block position fields not recognised', func='serialise', text='block position linkage')
        else:
            ctx.check('C16.Q1', roles == ('pos', 'len'), db, sd[0], f'block position: the writer stores ({U(sd[0].args[1])}, {U(sd[0].args[2])}) = {roles}; the reader seeks to the first field and reads as many bytes as the second',
                      func='serialise', text='block position linkage')
    # the block table lists the class names of a block, the block itself holds the bodies; the reader pairs the i-th name with the i-th body.
    # Both are therefore produced from the same list in the same order: the listing is `SEP.join(<e>.classname for <e> in X)` over exactly the
    # sequence X that the body loop `for <e> in X: ent_serialise(<e>, ...)` walks (an ordering applied to one of them only shifts definitions
    # onto other entities' names).
    joins = [c for c in ast.walk(sfn) if isinstance(c, ast.Call) and isinstance(c.func, ast.Attribute) and c.func.attr == 'join' and dotted(c.func.value) == 'STRING_SEP' and len(c.args) == 1]
    body_loops = [l_ for l_ in ast.walk(sfn) if isinstance(l_, ast.For) and any(isinstance(c, ast.Call) and dotted(c.func) == 'ent_serialise' and c.args and dotted(c.args[0]) == dotted(l_.target) for b in l_.body for c in ast.walk(b))]
    if len(joins) != 1 or len(body_loops) != 1 or '.split(STRING_SEP)' not in usrc:
        ctx.shape('C16.Q1', False, db, sfn, f'class name listing ({len(joins)} STRING_SEP.join) / body loop ({len(body_loops)}) / split not found once', func='serialise', text='class name list coding')
    else:
        arg = joins[0].args[0]
        plain = isinstance(arg, ast.GeneratorExp) and len(arg.generators) == 1 and not arg.generators[0].ifs and isinstance(arg.elt, ast.Attribute) and arg.elt.attr == 'classname' \
            and dotted(arg.elt.value) == dotted(arg.generators[0].target)
        seq_l = U(arg.generators[0].iter) if plain else None
        seq_b = U(body_loops[0].iter)
        if plain:
            ctx.check('C16.Q1', seq_l == seq_b, db, joins[0], f'the class names of a block are listed in the order of `{seq_l}` but its bodies are written in the order of `{seq_b}`', func='serialise', text='class name list coding')
        else:
            inner = [g for g in ast.walk(arg) if isinstance(g, ast.GeneratorExp)]
            reordered = isinstance(arg, ast.Call) and dotted(arg.func) in ('sorted', 'reversed') and inner
            if reordered:
                ctx.check('C16.Q1', False, db, joins[0], f'the class names of a block are listed in the order of `{U(arg)[:70]}` but its bodies are written in the order of `{seq_b}`: the reader gives the i-th listed name '
                          'the i-th body, so wherever the two orders differ (names that differ in letter case) entities receive each other\'s definitions', func='serialise', text='class name list coding')
            else:
                ctx.shape('C16.Q1', False, db, joins[0], f'class name listing `{U(arg)[:60]}` not recognised', func='serialise', text='class name list coding')
        # nothing re-orders the block between the two loops (the only sort is in front of the listing)
        sorts = [c for c in ast.walk(sfn) if isinstance(c, ast.Call) and isinstance(c.func, ast.Attribute) and c.func.attr in ('sort', 'reverse') and U(c.func.value) == seq_b]
        ctx.check('C16.Q1', all(c.lineno < joins[0].lineno for c in sorts), db, sorts[-1] if sorts else sfn, f'`{seq_b}` is re-ordered after its class names were listed', func='serialise', text='block order fixed before the listing')
    ok = _at(wsrc, 'base_dict.serialise(file)') < _at(wsrc, 'ent_serialise(CBaseEntity, file, base_dict)') and _at(usrc, 'BinStrDict.unserialise(file, [])') < _at(usrc, "ent_unserialise(file, '_CBaseEntity_', from_dict)")
    ctx.shape('C16.Q1', ok, db, sfn, 'shared dictionary then CBaseEntity', func='serialise', text='base block order')
    # ---- Q2 --------------------------------------------------------------------------------------------------
    for tbl, enum_name, enum_mod in (('VALUE_TYPE_ORDER', 'ValueTypes', fgd), ('FILE_TYPE_ORDER', 'FileType', prog.module('const'))):
        node = db.global_assign(tbl)
        if not isinstance(node, ast.List):
            raise AnalysisError(f'{tbl} is not a list literal')
        names = [e.attr for e in node.elts if isinstance(e, ast.Attribute)]
        et = Folder(prog, enum_mod).enum_table(enum_name)
        canon = {n: m.name for n, m in et.members.items()}
        listed = [canon.get(n) for n in names]
        ctx.check('C16.Q2', len(names) == len(node.elts) and None not in listed, db, node, f'{tbl} must list enum members only', func='<module>', text=f'{tbl} members')
        # aliases may be listed twice (the later index wins in *_INDEX and decodes to the same member): what matters is ORDER[INDEX[m]] is m
        index = {m_: i for i, m_ in enumerate(listed)}
        ctx.check('C16.Q2', all(listed[index[m_]] == m_ for m_ in index), db, node, f'{tbl}: some member does not decode back to itself', func='<module>', text=f'{tbl} index round trip')
        ctx.check('C16.Q2', set(listed) == set(canon.values()), db, node, f'{tbl} misses {sorted(set(canon.values()) - set(x for x in listed if x))}', func='<module>', text=f'{tbl} complete')
        ctx.check('C16.Q2', len(listed) <= 128, db, node, f'{tbl} has {len(listed)} entries; the index shares a byte with a flag bit', func='<module>', text=f'{tbl} fits 7 bits')
        idx = db.global_assign(tbl.replace('_ORDER', '_INDEX'))
        ctx.shape('C16.Q2', U(idx) == f'{{val: ind for ind, val in enumerate({tbl})}}', db, idx, f'{tbl.replace("_ORDER", "_INDEX")} must be the enumeration of {tbl}', func='<module>', text=f'{tbl} index table')
    # string slots: what goes into the dictionary is the field itself (None may become ''), never a substitute taken from another field
    n_str = 0
    for sub_ in ast.walk(db.tree):
        if not (isinstance(sub_, ast.Call) and dotted(sub_.func) in ('str_dict', 'dic') and len(sub_.args) == 1):
            continue
        fn_name = next((a.name for a in _ancestors(db, sub_) if isinstance(a, (ast.FunctionDef, ast.AsyncFunctionDef))), '<module>')
        if fn_name not in ('kv_serialise', 'iodef_serialise', 'ent_serialise'):
            continue
        a_ = sub_.args[0]
        n_str += 1
        if isinstance(a_, ast.BoolOp) and isinstance(a_.op, ast.Or):
            others = [v for v in a_.values[1:] if not (isinstance(v, ast.Constant) and v.value == '')]
            ctx.check('C16.Q2', not others, db, sub_, f'`{U(sub_)}` stores `{U(others[0]) if others else ""}` in place of an empty `{U(a_.values[0])}`: the reader hands the substitute back as the '
                      'field value, so a blank value does not survive the binary format', func=fn_name, text=f'{fn_name}: {U(a_.values[0])} written as it is')
        else:
            ctx.check('C16.Q2', True, db, sub_, 'field written as it is', func=fn_name, text=f'{fn_name}: {U(a_)[:40]} written as it is')
    if n_str < 7:
        raise AnalysisError(f'only {n_str} dictionary string writes found in the serialisers (8 confirmed by hand)')
    # the coded value is the stored field itself: <X>_INDEX[obj.field] on the writing side, <X>_ORDER[<int expr>] used as-is on the reading side
    n_idx = 0
    for tblname in ('VALUE_TYPE', 'FILE_TYPE'):
        for sub in ast.walk(db.tree):
            if True:
                fn_name = next((a.name for a in _ancestors(db, sub) if isinstance(a, (ast.FunctionDef, ast.AsyncFunctionDef))), '<module>')
                if fn_name == '<module>' or not (isinstance(sub, ast.Subscript) and isinstance(sub.ctx, ast.Load) and dotted(sub.value) in (tblname + '_INDEX', tblname + '_ORDER')):
                    continue
                n_idx += 1
                if dotted(sub.value).endswith('_INDEX'):
                    plain = dotted(sub.slice) is not None and '.' in dotted(sub.slice)
                    ctx.check('C16.Q2', plain, db, sub, f'`{U(sub)}`: the index written is not that of the stored field but of a value derived from it, so the reader reconstructs something else',
                              func=fn_name, text=f'{tblname}_INDEX of a plain field')
                else:
                    par = db.parents.get(sub)
                    direct = isinstance(par, (ast.Assign, ast.AnnAssign, ast.keyword, ast.Return)) or (isinstance(par, ast.Call) and sub in par.args)
                    ctx.check('C16.Q2', direct, db, sub, f'`{U(par)[:70]}`: the decoded member is transformed before it is stored', func=fn_name, text=f'{tblname}_ORDER result stored as-is')
    if n_idx < 5:
        raise AnalysisError(f'only {n_idx} uses of the *_INDEX / *_ORDER tables found (7 confirmed by hand; a hoisted lookup shared by two branches counts once)')
    ef = fold.enum_table('EntFlags')
    ent_types = ffold.enum_table('EntityTypes')
    mask = ef.members['MASK_TYPE'].value
    seen: Dict[int, str] = {}
    for m in {mm.name: mm for mm in ent_types}.values():
        flag = ef.members.get('TYPE_' + m.name)
        ok = flag is not None and flag.value & ~mask == 0 and flag.value not in seen
        ctx.check('C16.Q2', ok, db, db.cls('EntFlags'), f'EntityTypes.{m.name} needs a distinct TYPE_{m.name} flag within MASK_TYPE', func='EntFlags', text=f'type flag {m.name}')
        if flag is not None:
            seen[flag.value] = m.name
    ctx.check('C16.Q2', ef.members['IS_ALIAS'].value & mask == 0, db, db.cls('EntFlags'), 'IS_ALIAS overlaps the type bits', func='EntFlags', text='alias bit outside type mask')
    ok = U(db.global_assign('ENTITY_FLAG_2_TYPE')) == '{flag: kind for kind, flag in ENTITY_TYPE_2_FLAG.items()}' and "EntFlags['TYPE_' + kind.name]" in U(db.global_assign('ENTITY_TYPE_2_FLAG'))
    ctx.shape('C16.Q2', ok, db, db.global_assign('ENTITY_FLAG_2_TYPE'), 'ENTITY_FLAG_2_TYPE inverts ENTITY_TYPE_2_FLAG', func='<module>', text='entity flag tables inverse')
    # ---- Q3 --------------------------------------------------------------------------------------------------
    lk = fgd.global_assign('VALUE_TYPE_LOOKUP')
    ctx.shape('C16.Q3', U(lk) == '{typ.value: typ for typ in ValueTypes}', fgd, lk, 'VALUE_TYPE_LOOKUP must map every ValueTypes.value to its member', func='<module>', text='VALUE_TYPE_LOOKUP from enum')
    vals = [m.value for m in {mm.name: mm for mm in vt}.values()]
    ctx.check('C16.Q3', len(set(vals)) == len(vals) and all(isinstance(v, str) and v == v.casefold() and re.fullmatch(r'[a-z0-9_]+', v) for v in vals), fgd, fgd.cls('ValueTypes'),
              'ValueTypes values are written bare inside (...) and looked up case-folded: they must be distinct lower-case words', func='ValueTypes', text='ValueTypes values distinct lower-case')
    by_name = ffold.global_('RESTYPE_BY_NAME')
    to_name_node = fgd.global_assign('RESTYPE_TO_NAME')
    ctx.shape('C16.Q3', U(to_name_node) == '{restype: name for name, restype in RESTYPE_BY_NAME.items()}', fgd, to_name_node, 'RESTYPE_TO_NAME is derived from RESTYPE_BY_NAME (every written name parses back to the same type)',
              func='<module>', text='RESTYPE_TO_NAME derived')
    if not isinstance(by_name, dict) or len(by_name) < 10:
        raise AnalysisError('RESTYPE_BY_NAME could not be folded')
    for nm in by_name:
        ctx.check('C16.Q3', isinstance(nm, str) and re.fullmatch(r'[a-z_]+', nm) is not None, fgd, fgd.global_assign('RESTYPE_BY_NAME'), f'resource keyword {nm!r} must be a bare lower-case word', func='<module>', text=f'resource keyword {nm}')
    ep = fgd.func('EntityDef.parse')
    ok = 'RESTYPE_BY_NAME[' in U(ep) or 'RESTYPE_BY_NAME.get' in U(ep)
    ctx.shape('C16.Q3', ok, fgd, ep, 'EntityDef.parse resolves @resources keywords through RESTYPE_BY_NAME', func='EntityDef.parse', text='resources parsed through RESTYPE_BY_NAME')
    # helpers
    ht = ffold.enum_table('HelperTypes')
    impl: Dict[str, List[str]] = {}
    for cname, c in hlp.all_classes().items():
        for st in c.body:
            tgt = st.target if isinstance(st, ast.AnnAssign) else (st.targets[0] if isinstance(st, ast.Assign) else None)
            val = getattr(st, 'value', None)
            if isinstance(tgt, ast.Name) and tgt.id == 'TYPE' and isinstance(val, ast.Attribute) and dotted(val.value) == 'HelperTypes':
                impl.setdefault(val.attr, []).append(cname)
    canon_h = {n: m.name for n, m in ht.members.items()}
    impl_c: Dict[str, List[str]] = {}
    for k, v in impl.items():
        impl_c.setdefault(canon_h.get(k, k), []).extend(v)
    for m in {mm.name: mm for mm in ht}.values():
        ctx.check('C16.Q3', len(impl_c.get(m.name, [])) == 1, fgd, fgd.cls('HelperTypes'), f'HelperTypes.{m.name} is implemented by {impl_c.get(m.name, [])}: exactly one class with TYPE = HelperTypes.{m.name} must exist '
                  '(the last one registered wins silently)', func='HelperTypes', text=f'helper {m.name} implemented once')
    ee = fgd.func('EntityDef.export')
    ok = "self.type.value.title().replace('class', 'Class')" in U(ee) and 'EntityTypes(token_value[1:])' in U(fgd.func('FGD.parse_file')) and 'token_value = token_value.casefold()' in U(fgd.func('FGD.parse_file'))
    ctx.shape('C16.Q3', ok, fgd, ee, 'entity kind: written as @<Title-cased value>, parsed by EntityTypes(case-folded token without @)', func='EntityDef.export', text='entity kind keyword')
    for m in {mm.name: mm for mm in ent_types}.values():
        ctx.check('C16.Q3', isinstance(m.value, str) and m.value == m.value.casefold() and m.value.endswith('class'), fgd, fgd.cls('EntityTypes'), f'EntityTypes.{m.name} = {m.value!r} must be a lower-case word ending in "class"', func='EntityTypes',
                  text=f'entity kind {m.name}')
    # keywords: readonly / report / input / output / base / @resources / halfgridsnap
    kp = U(fgd.func('KVDef._parse'))
    ke = U(fgd.func('KVDef.export'))
    for kw in ('readonly', 'report'):
        ctx.shape('C16.Q3', f"file.write('{kw} ')" in ke and f"key_flag.casefold() == '{kw}'" in kp, fgd, fgd.func('KVDef.export'), f'keyword `{kw}` written and recognised', func='KVDef.export', text=f'keyword {kw}')
    def const_line(fn: ast.AST, value: str) -> Optional[int]:
        # position in document order (depth-first), not the line number: statements produced by unrolling a table loop share their lines
        order: List[ast.AST] = []

        def dfs(n: ast.AST) -> None:
            order.append(n)
            for ch in ast.iter_child_nodes(n):
                dfs(ch)
        dfs(fn)
        ls = [i for i, n in enumerate(order) if isinstance(n, ast.Constant) and isinstance(n.value, str) and n.value.strip() == value.strip() and n.value.strip()]
        return min(ls) if ls else None
    w_ro, w_rp = const_line(fgd.func('KVDef.export'), 'readonly '), const_line(fgd.func('KVDef.export'), 'report ')
    p_ro, p_rp = const_line(fgd.func('KVDef._parse'), 'readonly'), const_line(fgd.func('KVDef._parse'), 'report')
    if None in (w_ro, w_rp, p_ro, p_rp):
        ctx.shape('C16.Q3', False, fgd, fgd.func('KVDef.export'), 'readonly/report keywords not found as literals', func='KVDef.export', text='keyword order readonly/report')
    else:
        ctx.check('C16.Q3', (w_ro < w_rp) == (p_ro < p_rp), fgd, fgd.func('KVDef.export'), 'the writer emits `readonly` and `report` in the opposite order to the one the parser looks for them in (the parser reads them in a fixed order)',
                  func='KVDef.export', text='keyword order readonly/report')
    # each of the two keywords is the text form of one boolean of the definition and the parser recognises it whatever options the file was
    # written with: its write is decided by that field alone (an export option in the guard - `custom_syntax`, a tag filter - drops the flag
    # from some outputs that the parser would have read it from)
    kve = fgd.func('KVDef.export')
    for kw, field in (('readonly ', 'readonly'), ('report ', 'reportable')):
        wcalls = [c for c in ast.walk(kve) if isinstance(c, ast.Call) and isinstance(c.func, ast.Attribute) and c.func.attr == 'write' and c.args and isinstance(c.args[0], ast.Constant) and c.args[0].value == kw]
        if len(wcalls) != 1:
            continue          # the shape clause above has already declined
        gtests = [a.test for a in _anc16(fgd, wcalls[0], kve) if isinstance(a, ast.If)]
        names = {x.id for g in gtests for x in ast.walk(g) if isinstance(x, ast.Name) and x.id != 'self'}
        attrs = {x.attr for g in gtests for x in ast.walk(g) if isinstance(x, ast.Attribute) and dotted(x.value) == 'self'}
        ctx.check('C16.Q3', attrs == {field} and not names, fgd, wcalls[0], f'KVDef.export writes `{kw.strip()}` under `{" and ".join(U(g) for g in gtests)[:80]}`: besides self.{field} that depends on {sorted(names | (attrs - {field}))}, '
                  f'so some exports of a keyvalue with {field}=True lack the keyword although KVDef._parse reads it in every mode - the definition read back differs', func='KVDef.export', text=f'keyword {kw.strip()} written iff {field}')
    eps = U(ep)
    ees = U(ee)
    for kw, wr in (('input', "inp.export(file, 'input'"), ('output', "out.export(file, 'output'")):
        ctx.shape('C16.Q3', wr in ees and f"'{kw}'" in eps, fgd, ee, f'keyword `{kw}`', func='EntityDef.export', text=f'keyword {kw}')
    hvals = {m.name: m.value for m in ht}
    ctx.shape('C16.Q3', "file.write('base(')" in ees and hvals.get('INHERIT') == 'base' and 'help_type is HelperTypes.INHERIT' in eps, fgd, ee, 'keyword `base`: written literally, parsed as HelperTypes.INHERIT', func='EntityDef.export', text='keyword base')
    written_dir = set(re.findall(r'(@[a-z_]+)', ' '.join(str(n.value) for n in ast.walk(ee) if isinstance(n, ast.Constant) and isinstance(n.value, str))))
    compared_dir = {n.comparators[0].value for n in ast.walk(ep) if isinstance(n, ast.Compare) and len(n.ops) == 1 and isinstance(n.ops[0], ast.Eq) and isinstance(n.left, ast.Name) and isinstance(n.comparators[0], ast.Constant)
                    and isinstance(n.comparators[0].value, str)}
    if not written_dir or not compared_dir:
        ctx.shape('C16.Q3', False, fgd, ee, 'directive keywords not found', func='EntityDef.export', text='keyword @resources')
    # the @resources block is written exactly when resources were defined - `()` means "not defined", an empty list means "defined, nothing
    # needed" (resources_defined() tells them apart).  A truthiness test drops the block for the empty list and the entity reads back undefined.
    res_ifs = [i for i in ast.walk(ee) if isinstance(i, ast.If) and any(isinstance(c, ast.Constant) and isinstance(c.value, str) and '@resources' in c.value for st in i.body for c in ast.walk(st))]
    ctx.shape('C16.Q3', len(res_ifs) == 1, fgd, ee, 'EntityDef.export writes the @resources block under one test', func='EntityDef.export', text='resources block written when defined')
    for ri in res_ifs:
        ops_ = ri.test.values if isinstance(ri.test, ast.BoolOp) and isinstance(ri.test.op, ast.And) else [ri.test]
        on_res = [o for o in ops_ if any(isinstance(x, ast.Attribute) and x.attr in ('resources', 'resources_defined') for x in ast.walk(o))]
        def defined_test(o: ast.AST) -> Optional[bool]:
            if isinstance(o, ast.Call) and dotted(o.func) == 'self.resources_defined' and not o.args:
                return True
            if isinstance(o, ast.Compare) and len(o.ops) == 1 and isinstance(o.ops[0], (ast.NotEq, ast.IsNot)) and dotted(o.left) == 'self.resources' and isinstance(o.comparators[0], ast.Tuple) and not o.comparators[0].elts:
                return True
            if dotted(o) == 'self.resources' or (isinstance(o, ast.Call) and dotted(o.func) in ('len', 'bool') and o.args and dotted(o.args[0]) == 'self.resources') \
                    or (isinstance(o, ast.Compare) and isinstance(o.left, ast.Call) and dotted(o.left.func) == 'len'):
                return False
            return None
        kinds_ = [defined_test(o) for o in on_res]
        ctx.shape('C16.Q3', bool(on_res) and None not in kinds_, fgd, ri, f'the test `{U(ri.test)[:60]}` on the resources is an enumerated form', func='EntityDef.export', text='resources block written when defined')
        if on_res and None not in kinds_:
            ctx.check('C16.Q3', all(kinds_), fgd, ri, f'EntityDef.export writes the @resources block only when `{U(on_res[kinds_.index(False)])[:40] if False in kinds_ else ""}` is true: an entity whose resources are defined but empty '
                      '(`@resources [ ]`) is written without the block and reads back as "not defined" (resources_defined() flips)', func='EntityDef.export', text='resources block written when defined')
    for kw_ in sorted(written_dir):
        ctx.check('C16.Q3', kw_ in compared_dir, fgd, ee, f'EntityDef.export writes the directive `{kw_}` but EntityDef.parse only recognises {sorted(compared_dir)}', func='EntityDef.export', text=f'keyword {kw_}')
    ctx.shape('C16.Q3', "file.write('\\n\\thalfgridsnap')" in ees and hvals.get('HALF_GRID_SNAP') == 'halfgridsnap', fgd, ee, 'keyword `halfgridsnap`: written literally, parsed as HelperTypes.HALF_GRID_SNAP', func='EntityDef.export', text='keyword halfgridsnap')
    # the name may first go into a local (`helper_name = helper.TYPE.value` in one arm, `helper.name` in the UnknownHelper arm)
    type_locals = {t.id for a in ast.walk(ee) if isinstance(a, ast.Assign) and dotted(a.value) == 'helper.TYPE.value' for t in a.targets if isinstance(t, ast.Name)}
    fmt_type = any(isinstance(c, ast.Call) and dotted(c.func) == 'file.write' and c.args and isinstance(c.args[0], ast.JoinedStr)
                   and any(isinstance(v, ast.FormattedValue) and (dotted(v.value) == 'helper.TYPE.value' or (isinstance(v.value, ast.Name) and v.value.id in type_locals)) for v in c.args[0].values)
                   and any(isinstance(v, ast.Constant) and str(v.value).endswith('(') for v in c.args[0].values) for c in ast.walk(ee))
    ctx.shape('C16.Q3', 'HelperTypes(token_value)' in eps and fmt_type, fgd, ee, 'helpers are written by HelperTypes value and parsed by HelperTypes(value)', func='EntityDef.export', text='helper name coding')
    ok = "file.write('(bool)')" in U(fgd.func('IODef.export')) and "VALUE_TYPE_LOOKUP['bool'] = ValueTypes.BOOL" in fgd.text
    ctx.shape('C16.Q3', ok, fgd, fgd.func('IODef.export'), 'I/O boolean is written as (bool), which the lookup table accepts', func='IODef.export', text='io bool alias')
    # ---- Q4 --------------------------------------------------------------------------------------------------
    kinds = {'SPAWNFLAGS': vt.members['SPAWNFLAGS'], 'CHOICES': vt.members['CHOICES'], 'BOOL': vt.members['BOOL'], 'STRING': vt.members['STRING']}
    raw_slots: List[Tuple[ast.AST, str]] = []
    kexp = fgd.func('KVDef.export')
    # per-row tag sets: the last element unpacked from self.flags_list / self.choices_list rows (whatever it is called); taken as empty
    row_tags = {l.target.elts[-1].id: () for l in ast.walk(kexp) if isinstance(l, ast.For) and dotted(l.iter) in ('self.flags_list', 'self.choices_list')
                and isinstance(l.target, ast.Tuple) and isinstance(l.target.elts[-1], ast.Name)}
    row_defaults = {l.target.elts[2].id: True for l in ast.walk(kexp) if isinstance(l, ast.For) and dotted(l.iter) == 'self.flags_list' and isinstance(l.target, ast.Tuple) and len(l.target.elts) == 4
                    and isinstance(l.target.elts[2], ast.Name)}
    for (kname, km), dn, df, ds in itertools.product(kinds.items(), ('', 'x'), ('', 'x'), ('', 'x')):
        vals = {**row_tags, **row_defaults, 'self._type': km, 'self.type': km, 'self.disp_name': dn, 'self.default': df, 'self.desc': ds, 'self.readonly': False, 'self.reportable': False, 'tags': (), 'custom_syntax': True, 'label_spawnflags': True,
                'isinstance(self._type, ValueTypes)': True, 'self._type.has_list': kname in ('SPAWNFLAGS', 'CHOICES'), 'flag_default': True, 'all((x in \'0123456789-\' for x in default_str))': False}
        le = LineEmit(fgd, ffold, vals, raw_slots)
        le.block(kexp.body)
        pos = dangling_colon(le.out)
        label = f'KVDef.export type={kname} name={"set" if dn else "empty"} default={"set" if df else "empty"} desc={"set" if ds else "empty"}'
        ctx.check('C16.Q4', pos is None, fgd, kexp, f'{label}: the line is written as `{" ".join(le.out[:pos + 2] if pos is not None else le.out[:8])}`: a colon directly before the end of the line (or `=`) makes the parser continue the '
                  'list on the next line, swallowing the following definition', func='KVDef.export', text=label)
    # bare (unquoted) default: allowed only behind a test that confines the text to characters that are safe outside quotes.  The FGD
    # tokenizer treats '+' as the string-concatenation operator and drops surrounding whitespace, so `int(text)` succeeding is not enough.
    SAFE_BARE = set('0123456789-.')
    for w_ in [c for c in ast.walk(kexp) if isinstance(c, ast.Call) and dotted(c.func) == 'file.write' and c.args and isinstance(c.args[0], ast.BinOp) and isinstance(c.args[0].op, ast.Add)
               and isinstance(c.args[0].left, ast.Constant) and isinstance(c.args[0].right, ast.Name) and '"' not in str(c.args[0].left.value)]:
        var_ = w_.args[0].right.id
        guard_ok: Optional[bool] = None
        why_ = ''
        cur_ = fgd.parents.get(w_)
        child_: ast.AST = w_
        while cur_ is not None and cur_ is not kexp and guard_ok is None:
            if isinstance(cur_, ast.If) and any(child_ is b or any(child_ is x for x in ast.walk(b)) for b in cur_.body):
                t_ = cur_.test
                if isinstance(t_, ast.Call) and dotted(t_.func) == 'all' and t_.args and isinstance(t_.args[0], ast.GeneratorExp):
                    ge = t_.args[0]
                    if isinstance(ge.elt, ast.Compare) and isinstance(ge.elt.ops[0], ast.In) and isinstance(ge.elt.comparators[0], ast.Constant) and dotted(ge.generators[0].iter) == var_:
                        chars = set(str(ge.elt.comparators[0].value))
                        guard_ok = chars <= SAFE_BARE
                        why_ = f'allowed characters {sorted(chars - SAFE_BARE)} are not safe outside quotes' if not guard_ok else ''
            if isinstance(cur_, ast.Try) and any(child_ is b or any(child_ is x for x in ast.walk(b)) for b in cur_.orelse):
                conv = [c for b in cur_.body for c in ast.walk(b) if isinstance(c, ast.Call) and dotted(c.func) in ('int', 'float') and c.args and dotted(c.args[0]) == var_]
                if conv:
                    guard_ok = False
                    why_ = (f'`{dotted(conv[0].func)}({var_})` succeeding does not confine the text: it also accepts a leading "+" (the FGD string-concatenation token - the exported file no longer parses) and surrounding '
                            'whitespace or a trailing newline (silently dropped when parsed back)')
            child_, cur_ = cur_, fgd.parents.get(cur_)
        if guard_ok is None:
            ctx.shape('C16.Q4', False, fgd, w_, f'guard of the unquoted write `{U(w_)[:50]}` not recognised', func='KVDef.export', text=f'bare slot {var_} guarded')
        else:
            ctx.check('C16.Q4', guard_ok, fgd, w_, f'`{U(w_)[:50]}` writes `{var_}` without quotes: {why_}', func='KVDef.export', text=f'bare slot {var_} guarded')
    iexp = fgd.func('IODef.export')
    for ds in ('', 'x'):
        le = LineEmit(fgd, ffold, {'self.desc': ds, 'tags': (), 'custom_syntax': True, 'self._type': vt.members['STRING'], 'self._type is ValueTypes.BOOL': False, 'isinstance(self._type, ValueTypes)': True}, raw_slots)
        le.block(iexp.body)
        ctx.check('C16.Q4', dangling_colon(le.out) is None, fgd, iexp, f'IODef.export desc={"set" if ds else "empty"}: dangling colon in `{" ".join(le.out)}`', func='IODef.export', text=f'IODef.export desc={"set" if ds else "empty"}')
    # quoted slots of every writer in fgd.py that takes custom_syntax
    n_slots = 0
    for qual in ('KVDef.export', 'IODef.export', 'EntityDef.export'):          # FGD.export writes visgroups / exclusions: outside the property
        fn = fgd.func(qual)
        for c in ast.walk(fn):
            if isinstance(c, ast.Call) and dotted(c.func) == 'file.write' and c.args:
                for js in [n for n in ast.walk(c.args[0]) if isinstance(n, ast.JoinedStr)]:
                    st = {'inq': False}
                    for v in js.values:
                        if isinstance(v, ast.Constant):
                            lex_const(str(v.value), st)
                        elif st['inq']:
                            n_slots += 1
                            inner = v.value                                  # type: ignore[attr-defined]
                            esc = isinstance(inner, ast.Call) and dotted(inner.func) in ('_fgd_escape', 'escape_text')
                            ctx.check('C16.Q4', esc, fgd, c, f'`{U(inner)}` is written between quotes without _fgd_escape()/escape_text(): a double quote in it ends the string early and backslash sequences are decoded by the parser',
                                      func=qual, text=f'quoted slot {U(inner)[:40]}')
            # values quoted by hand: value = f'"{value}"'
            if isinstance(c, ast.Assign) and isinstance(c.value, ast.JoinedStr):
                st = {'inq': False}
                for v in c.value.values:
                    if isinstance(v, ast.Constant):
                        lex_const(str(v.value), st)
                    elif st['inq']:
                        n_slots += 1
                        inner = v.value                                      # type: ignore[attr-defined]
                        esc = isinstance(inner, ast.Call) and dotted(inner.func) in ('_fgd_escape', 'escape_text')
                        ctx.check('C16.Q4', esc, fgd, c, f'`{U(inner)}` is quoted by hand without _fgd_escape()/escape_text()', func=qual, text=f'quoted slot {U(inner)[:40]}')
    if n_slots < 3:
        raise AnalysisError('FGD writers: quoted slots not found')
    # the escaping mode follows the caller's custom_syntax everywhere (the parser always decodes escapes)
    for qual in ('KVDef.export', 'IODef.export', 'EntityDef.export'):
        for c in ast.walk(fgd.func(qual)):
            if isinstance(c, ast.Call) and dotted(c.func) == '_write_longstring' and len(c.args) >= 3:
                ok = dotted(c.args[1]) == 'custom_syntax'
                ctx.check('C16.Q4', ok, fgd, c, f'`{U(c)[:90]}` fixes the escaping mode to `{U(c.args[1])}`: with custom syntax enabled the legacy mode turns " into \'\' and leaves backslashes raw, '
                          'which the escape-decoding parser reads back differently', func=qual, text=f'longstring mode follows custom_syntax: {U(c.args[2])[:40]}')
    # _write_longstring
    wl = fgd.func('_write_longstring')
    wsrc = U(wl)
    ctx.shape('C16.Q4', 'remaining = _fgd_escape(extended, text)' in wsrc, fgd, wl, 'long strings are escaped before they are split', func='_write_longstring', text='escape before split')
    fixed = [n for n in ast.walk(wl) if isinstance(n, ast.Assign) and dotted(n.targets[0]) == 'split_pos' and dotted(n.value) == 'LIMIT']
    if len(fixed) != 1:
        raise AnalysisError('_write_longstring: fixed-position cut not found')
    par = wl
    for n in ast.walk(wl):
        if isinstance(n, ast.If) and fixed[0] in n.body:
            par = n
    after = par.body[par.body.index(fixed[0]) + 1:] if isinstance(par, ast.If) else []
    guard = any("'\\\\'" in U(s) and ('rstrip' in U(s) or 'endswith' in U(s)) for s in after) and any(isinstance(x, ast.AugAssign) and dotted(x.target) == 'split_pos' for s in after for x in ast.walk(s))
    ctx.check('C16.Q4', guard, fgd, fixed[0], 'the cut at exactly LIMIT characters may fall between a backslash and the character it escapes; the two pieces are tokenised separately, so the cut position must be moved off '
              'an odd run of trailing backslashes', func='_write_longstring', text='fixed cut checks for a split escape')
    ok = "sections.append(f'\"{remaining[:split_pos]}\"')" in wsrc and "(' +\\n' + indent).join(sections)" in wsrc
    ctx.shape('C16.Q4', ok, fgd, wl, 'pieces are quoted individually and joined with +', func='_write_longstring', text='pieces quoted and joined with +')
    ok = "split_pos = remaining.rfind('\\\\n', 0, LIMIT) + 2" in wsrc and "split_pos = remaining.rfind(' ', 0, LIMIT) + 1" in wsrc
    ctx.shape('C16.Q4', ok, fgd, wl, 'separator cuts are placed after the complete separator', func='_write_longstring', text='separator cuts')
    pf = fgd.func('FGD.parse_file')
    tk = [c for c in ast.walk(pf) if isinstance(c, ast.Call) and dotted(c.func) == 'Tokenizer']
    kws = {k.arg: (k.value.value if isinstance(k.value, ast.Constant) else None) for k in tk[0].keywords} if tk else {}
    ctx.check('C16.Q4', len(tk) == 1 and kws.get('string_bracket') is False and kws.get('colon_operator') is True and kws.get('plus_operator') is True and kws.get('allow_escapes', True) is True, fgd, tk[0] if tk else pf,
              'parse_file must tokenise with colon and plus operators, without bracket strings, decoding escapes', func='FGD.parse_file', text='tokenizer options')
    rc = U(fgd.func('_read_colon_list'))
    ctx.shape('C16.Q4', 'token is Token.PLUS' in rc and 'strings[-1] += tok.expect(Token.STRING)' in rc, fgd, fgd.func('_read_colon_list'), 'the reader concatenates +-joined pieces', func='_read_colon_list', text='reader joins + pieces')
    # ---- Q3 (helpers in the entity header): a helper name is followed by its parenthesised arguments ---------------------------------------
    # The header parser only completes a pending *known* helper when the next name arrives; a pending unknown name is simply overwritten.
    # So the writer may leave the parentheses out only for a name it spells out and that is a HelperTypes member.
    from engine.kvtext import flatten as _flat
    exp_fn = fgd.func('EntityDef.export')
    hloops = [n for n in walk_no_nested(exp_fn) if isinstance(n, ast.For) and (dotted(n.iter) or '').endswith('.helpers')]
    ctx.shape('C16.Q3', len(hloops) == 1, fgd, exp_fn, 'EntityDef.export has one loop over self.helpers', func='EntityDef.export', text='helper loop')
    try:
        helper_names = {str(m.value) for m in Folder(prog, fgd).enum_table('HelperTypes')}
    except Exception:  # noqa: BLE001
        helper_names = set()
    ctx.shape('C16.Q3', bool(helper_names), fgd, exp_fn, 'HelperTypes could not be folded', func='<module>', text='HelperTypes members')
    for hl in hloops:
        for c in [x for b in hl.body for x in ast.walk(b) if isinstance(x, ast.Call) and isinstance(x.func, ast.Attribute) and x.func.attr == 'write' and x.args]:
            pieces = _flat(c.args[0])
            lits = ''.join(p_.text for p_ in pieces if p_.kind == 'lit')
            if '(' in lits:
                ctx.check('C16.Q3', True, fgd, c, 'name followed by parenthesised arguments', func='EntityDef.export', text=f'helper written as `{U(c.args[0])[:40]}`')
            elif all(p_.kind == 'lit' for p_ in pieces):
                ctx.check('C16.Q3', lits.strip() in helper_names, fgd, c, f'the bare keyword {lits.strip()!r} is not a HelperTypes member: the parser keeps it pending as an unknown helper and drops it when the next '
                          'helper name arrives', func='EntityDef.export', text=f'helper written as `{U(c.args[0])[:40]}`')
            else:
                ctx.check('C16.Q3', False, fgd, c, f'`{U(c.args[0])[:60]}` writes a helper name that is not spelled out without parentheses: the header parser overwrites a pending unknown helper name when the next name '
                          'arrives, so this helper (and the arguments of the following one) are misread unless it is the last helper', func='EntityDef.export', text=f'helper written as `{U(c.args[0])[:40]}`')

    # ---- Q1 (grouping into blocks): every entity ends up in a block that is written ---------------------------------------------------------
    # build_blocks returns the list of blocks; a block taken out of that list must not be filled afterwards - what goes into it is never
    # serialised (the entity is silently missing from the database, while the count of blocks and the string tables look fine).
    bb = db.func('build_blocks')
    rem_calls = [c for c in walk_no_nested(bb) if isinstance(c, ast.Call) and isinstance(c.func, ast.Attribute) and c.func.attr == 'remove' and isinstance(c.func.value, ast.Name) and len(c.args) == 1 and isinstance(c.args[0], ast.Name)]
    ret_lists = {x.id for r in walk_no_nested(bb) if isinstance(r, ast.Return) and r.value is not None for x in ast.walk(r.value) if isinstance(x, ast.Name)}
    n_rem = 0
    for rc in rem_calls:
        lst, var = rc.func.value.id, rc.args[0].id
        n_rem += 1
        later_fill = [c for c in walk_no_nested(bb) if isinstance(c, ast.Call) and isinstance(c.func, ast.Attribute) and c.func.attr in ('add_ent', 'append', 'extend', 'add') and _root16(c.func.value) == var and c.lineno > rc.lineno]
        reassigned = [a for a in walk_no_nested(bb) if isinstance(a, ast.Assign) and any(isinstance(t, ast.Name) and t.id == var for t in a.targets) and a.lineno > rc.lineno]
        readded = [c for c in walk_no_nested(bb) if isinstance(c, ast.Call) and isinstance(c.func, ast.Attribute) and c.func.attr in ('append', 'insert') and isinstance(c.func.value, ast.Name) and c.func.value.id == lst
                   and any(isinstance(a, ast.Name) and a.id == var for a in c.args) and c.lineno > rc.lineno]
        # filled after removal, before the variable names another block / the block is put back
        first_fill = min((c.lineno for c in later_fill), default=None)
        safe = first_fill is None or any(x.lineno < first_fill for x in reassigned + readded)
        ctx.check('C16.Q1', safe, db, later_fill[0] if later_fill and not safe else rc, f'build_blocks removes `{var}` from `{lst}` and afterwards still puts entities into it (`{U(later_fill[0])[:40] if later_fill else ""}`): those entities are in '
                  'no block that is written, so they are missing from the serialised database', func='build_blocks', text=f'block `{var}` not filled after it left `{lst}`')
    ctx.shape('C16.Q1', n_rem >= 1, db, bb, 'build_blocks removes merged / empty blocks from its list', func='build_blocks', text='block removals examined')

    # ---- Q3 (export order): a class is written after all its bases -----------------------------------------------------------------------------
    # sorted_ents works in passes: a pass collects the entities whose bases were all yielded in EARLIER passes, sorts that batch by name and
    # yields it.  The sort is only harmless because nothing in a batch depends on anything else in it - which holds as long as the set that
    # "ready" is tested against is not extended while the pass is still collecting.
    se = fgd.func('FGD.sorted_ents')
    ready_sets = {c.comparators[0].id for c in ast.walk(se) if isinstance(c, ast.Compare) and len(c.ops) == 1 and isinstance(c.ops[0], ast.NotIn) and isinstance(c.comparators[0], ast.Name)
                  and isinstance(c.left, ast.Name)}
    scan_loops = [l for l in ast.walk(se) if isinstance(l, ast.For) and any(isinstance(c, ast.Compare) and isinstance(c.ops[0], ast.NotIn) and isinstance(c.comparators[0], ast.Name) and c.comparators[0].id in ready_sets for c in ast.walk(l))]
    sorts_batch = any(isinstance(c, ast.Call) and ((isinstance(c.func, ast.Attribute) and c.func.attr == 'sort') or dotted(c.func) == 'sorted') for c in ast.walk(se))
    ctx.shape('C16.Q3', bool(scan_loops) and sorts_batch, fgd, se, 'sorted_ents: a scanning loop testing `base not in <done set>` and a sort of the batch', func='FGD.sorted_ents', text='sorted_ents passes')
    if scan_loops:
        outer = max(scan_loops, key=lambda l: sum(1 for _ in ast.walk(l)))
        # the set(s) that decide readiness: `base not in X` where X is never the set being iterated
        it_names = {x.id for x in ast.walk(outer.iter) if isinstance(x, ast.Name)}
        done_sets = {c.comparators[0].id for c in ast.walk(outer) if isinstance(c, ast.Compare) and isinstance(c.ops[0], ast.NotIn) and isinstance(c.comparators[0], ast.Name)} - it_names
        grown = [c for c in ast.walk(outer) if isinstance(c, ast.Call) and isinstance(c.func, ast.Attribute) and c.func.attr in ('add', 'update') and isinstance(c.func.value, ast.Name) and c.func.value.id in done_sets
                 and any(isinstance(t_, ast.If) and any(isinstance(x, ast.Name) and x.id != c.func.value.id for x in ast.walk(t_.test)) for t_ in _anc16(fgd, c, outer)) or
                 (isinstance(c, ast.Call) and isinstance(c.func, ast.Attribute) and c.func.attr in ('add', 'update') and isinstance(c.func.value, ast.Name) and c.func.value.id in done_sets)]
        # only a growth that happens when an entity was found ready matters (deferring adds to other sets)
        grown = [c for c in grown if not any(isinstance(a_, ast.If) and any(isinstance(x, ast.Compare) and isinstance(x.ops[0], ast.NotIn) for x in ast.walk(a_.test)) and c in [y for b in a_.body for y in ast.walk(b)] for a_ in _anc16(fgd, c, outer))]
        ctx.check('C16.Q3', not grown, fgd, grown[0] if grown else outer, f'sorted_ents extends the set it tests readiness against (`{U(grown[0])[:40] if grown else ""}`) while the pass is still collecting: an entity visited later in the same '
                  'pass joins the batch of its own base, the batch is then sorted by name, and a class whose name sorts first is written before the base it refers to (the exported text does not parse)',
                  func='FGD.sorted_ents', text='readiness set grows only between passes')

    # ---- Q5 --------------------------------------------------------------------------------------------------
    edb = db.methods('EngineDB')
    pb, ge, gf = edb['_parse_block'], edb['get_ent'], edb['get_fgd']
    psrc = U(pb)
    stores = [n for n in ast.walk(pb) if isinstance(n, ast.Assign) and any(isinstance(t, ast.Subscript) and dotted(t.value) == 'self.ent_map' for t in n.targets)]
    def stored_value(a_: ast.Assign) -> ast.AST:
        # `tbl[k] = ent` with `ent = ent_unserialise(...)` just before: the local's single definition is what is stored
        v_ = a_.value
        if isinstance(v_, ast.Name):
            d_ = [x.value for x in walk_no_nested(pb) if isinstance(x, ast.Assign) and any(isinstance(t, ast.Name) and t.id == v_.id for t in x.targets)]
            if len(d_) == 1:
                v_ = d_[0]
        return v_
    if len(stores) == 1:
        sv5 = stored_value(stores[0])
        if isinstance(sv5, ast.Call):
            ctx.check('C16.Q5', dotted(sv5.func) == 'ent_unserialise', db, stores[0], f'_parse_block stores `{U(sv5)[:60]}` into ent_map: only freshly unserialised entities belong there', func='EngineDB._parse_block', text='only fresh entities stored')
        else:
            ctx.shape('C16.Q5', False, db, stores[0], f'value stored into ent_map (`{U(sv5)[:50]}`) is not a recognisable call', func='EngineDB._parse_block', text='only fresh entities stored')
    else:
        ctx.shape('C16.Q5', False, db, pb, f'_parse_block stores into ent_map at {len(stores)} sites (1 expected)', func='EngineDB._parse_block', text='only fresh entities stored')
    # unserialise functions hand out objects created in that very call: a definition shared between entities (a cache) makes what
    # one lookup returns depend on which block was parsed first, and lets one caller's edits leak into another entity
    for fname, cname in (('kv_unserialise', 'KVDef'), ('iodef_unserialise', 'IODef'), ('ent_unserialise', 'EntityDef')):
        fn = db.func(fname)
        fresh = {t.id for n in ast.walk(fn) if isinstance(n, ast.Assign) and isinstance(n.value, ast.Call) and dotted(n.value.func) in (f'{cname}.__new__', cname) for t in n.targets if isinstance(t, ast.Name)}
        rets = [r for r in ast.walk(fn) if isinstance(r, ast.Return) and r.value is not None]
        bad = [r for r in rets if not (isinstance(r.value, ast.Name) and r.value.id in fresh) and not (isinstance(r.value, ast.Call) and dotted(r.value.func) == cname)]
        ctx.check('C16.Q5', bool(rets) and not bad, db, bad[0] if bad else fn, f'{fname} returns `{U(bad[0].value)[:50] if bad else "?"}`, which is not an object created in this call: definitions must not be shared between entities '
                  '(lookup results would depend on the order of earlier lookups)', func=fname, text=f'{fname} returns a fresh {cname}')
    ok = 'classes, data = self.unparsed[index]' in psrc and any(isinstance(s, ast.If) and U(s.test) == 'not data' and isinstance(s.body[0], ast.Return) for s in pb.body)
    ctx.shape('C16.Q5', ok, db, pb, '_parse_block returns early when the block has already been parsed', func='EngineDB._parse_block', text='early return on blank slot')
    blank = [n for n in ast.walk(pb) if isinstance(n, ast.Assign) and isinstance(n.targets[0], ast.Subscript) and dotted(n.targets[0].value) == 'self.unparsed']
    if not blank:
        ctx.check('C16.Q5', False, db, pb, '_parse_block never overwrites its slot of self.unparsed: the block is parsed again on the next lookup, replacing entities other callers already hold', func='EngineDB._parse_block', text='block slot blanked')
    else:
        ctx.shape('C16.Q5', "self.unparsed[index] = ((), b'')" in psrc, db, blank[0], 'slot overwritten with the empty marker', func='EngineDB._parse_block', text='block slot blanked')
    getents = [c for c in ast.walk(pb) if isinstance(c, ast.Call) and dotted(c.func) == 'self.get_ent']
    # the rewrite of `<ent>.bases`: every name still held as a string is turned into the definition by get_ent (which parses the owning block)
    base_stores = [n for n in ast.walk(pb) if isinstance(n, ast.Assign) and isinstance(n.targets[0], ast.Attribute) and n.targets[0].attr == 'bases' and isinstance(n.value, (ast.ListComp, ast.List, ast.Call))]
    # two spellings of the rewrite: `ent.bases = [<resolve base> for base in ent.bases]`, or a loop over `ent.bases` filling a list that is
    # assigned to `ent.bases` afterwards
    regions: List[Tuple[ast.AST, ast.AST, ast.AST]] = []         # (anchor, where the resolving happens, the variable holding one base)
    for bs_ in base_stores:
        if isinstance(bs_.value, ast.ListComp):
            regions.append((bs_, bs_.value.elt, bs_.value.generators[0].target))
    name_stores = [n for n in ast.walk(pb) if isinstance(n, ast.Assign) and isinstance(n.targets[0], ast.Attribute) and n.targets[0].attr == 'bases' and isinstance(n.value, ast.Name)]
    for lp_ in [n for n in ast.walk(pb) if isinstance(n, ast.For) and isinstance(n.iter, ast.Attribute) and n.iter.attr == 'bases']:
        fills = {c.func.value.id for b in lp_.body for c in ast.walk(b) if isinstance(c, ast.Call) and isinstance(c.func, ast.Attribute) and c.func.attr == 'append' and isinstance(c.func.value, ast.Name)}
        if any(ns.value.id in fills for ns in name_stores):
            wrap = ast.Module(body=lp_.body, type_ignores=[])
            regions.append((lp_, wrap, lp_.target))
    ctx.shape('C16.Q5', len(regions) == 1, db, pb, f'_parse_block rewrites the bases list in one place (comprehension or loop); found {len(regions)}', func='EngineDB._parse_block', text='bases resolved through get_ent')
    for bs_, where_, var_ in regions:
        resolvers = [c for c in ast.walk(where_) if isinstance(c, ast.Call) and isinstance(c.func, ast.Attribute) and dotted(c.func.value) == 'self' and c.args and dotted(c.args[0]) == dotted(var_)]
        ctx.shape('C16.Q5', bool(resolvers), db, bs_, 'a self.<method>(<base>) call resolves the string entries', func='EngineDB._parse_block', text='bases resolved through get_ent')
        for c in resolvers:
            ctx.check('C16.Q5', c.func.attr == 'get_ent', db, c, f'bases of a lazily parsed block are resolved with self.{c.func.attr}() instead of get_ent(): a base living in a block that is not parsed yet has to be parsed, '
                      'not left as a name or looked up in the half-filled map', func='EngineDB._parse_block', text='bases resolved through get_ent')
    ok = bool(blank) and bool(getents) and min(c.lineno for c in getents) > min(n.lineno for n in blank)
    ctx.check('C16.Q5', ok or not getents, db, pb, 'bases are resolved (possibly parsing other blocks) only after this block is marked parsed, so mutual references cannot recurse forever', func='EngineDB._parse_block', text='bases resolved after blanking')
    gsrc = U(ge)
    ok = 'if isinstance(ent_info, EntityDef):\n        return ent_info' in gsrc and 'self._parse_block(ent_info)' in gsrc and 'classname.casefold()' in gsrc
    ctx.shape('C16.Q5', ok, db, ge, 'get_ent returns the cached definition or parses exactly the block the placeholder names', func='EngineDB.get_ent', text='get_ent cache / placeholder')
    # names decoded from the database keep their spelling: only the *lookup key* is case-folded.  Folding the decoded text itself (to "do it
    # once") also lower-cases the names that are kept for _parse_block and end up as EntityDef.classname (`npc_Xort` -> `npc_xort`)
    un_fn = db.func('unserialise')
    for a in walk_no_nested(un_fn):
        if isinstance(a, ast.Assign) and any(isinstance(c, ast.Call) and isinstance(c.func, ast.Attribute) and c.func.attr == 'decode' for c in ast.walk(a.value)):
            folds = [c for c in ast.walk(a.value) if isinstance(c, ast.Call) and isinstance(c.func, ast.Attribute) and c.func.attr in ('casefold', 'lower', 'upper', 'title', 'capitalize', 'swapcase')]
            tnames = {t.id for t in a.targets if isinstance(t, ast.Name)}
            # harmless when the folded text is used as dictionary keys only
            other_uses = [n for n in walk_no_nested(un_fn) if isinstance(n, ast.Name) and n.id in tnames and isinstance(n.ctx, ast.Load)
                          and not (isinstance(db.parents.get(n), ast.Subscript) and db.parents.get(n).slice is n) and not (isinstance(db.parents.get(n), ast.For) and db.parents.get(n).iter is n)]
            ctx.check('C16.Q5', not (folds and other_uses), db, folds[0] if folds else a, f'unserialise case-folds the names it decodes (`{U(a.value)[:60]}`) and keeps that list for later (`{U(db.parents.get(other_uses[0]))[:50] if other_uses else ""}`): '
                      'the entities parsed from the block get the folded text as their classname, so a mixed-case classname does not survive the database', func='unserialise', text='decoded names kept as stored')

    # placeholders are block *indexes*, and the first block has index 0: a lookup result may be told apart from "absent" only with `in`,
    # `is None` or isinstance - its truthiness makes every entity of block 0 look missing until something else has parsed that block
    idx_tables: Set[str] = set()
    for fq, ffl in db.all_funcs().items():
        for ff in ffl:
            loopvars = {t.id for n in ast.walk(ff) if isinstance(n, ast.For) and isinstance(n.iter, ast.Call) and dotted(n.iter.func) in ('range', 'enumerate') for t in ast.walk(n.target) if isinstance(t, ast.Name)}
            for a in ast.walk(ff):
                if isinstance(a, ast.Assign) and isinstance(a.value, ast.Name) and a.value.id in loopvars:
                    for t in a.targets:
                        if isinstance(t, ast.Subscript) and isinstance(t.value, ast.Name):
                            idx_tables.add(t.value.id)
    edb_attrs = {a.targets[0].attr for a in ast.walk(db.func('EngineDB.__init__')) if isinstance(a, ast.Assign) and isinstance(a.targets[0], ast.Attribute) and isinstance(a.value, ast.Name) and a.value.id in idx_tables}
    ctx.shape('C16.Q5', bool(edb_attrs), db, db.func('EngineDB.__init__'), 'the table of block-index placeholders handed to EngineDB was not found', func='EngineDB.__init__', text='placeholder table')
    for mq, mfl in db.all_funcs().items():
        if not mq.startswith('EngineDB.'):
            continue
        for mf in mfl:
            def from_table(e: ast.AST) -> bool:
                if isinstance(e, ast.Subscript) and isinstance(e.value, ast.Attribute) and e.value.attr in edb_attrs:
                    return True
                return isinstance(e, ast.Call) and isinstance(e.func, ast.Attribute) and e.func.attr in ('get', 'pop') and isinstance(e.func.value, ast.Attribute) and e.func.value.attr in edb_attrs
            held = {t.id for a in walk_no_nested(mf) if isinstance(a, ast.Assign) and from_table(a.value) for t in a.targets if isinstance(t, ast.Name)}
            held |= {a.target.id for a in walk_no_nested(mf) if isinstance(a, ast.NamedExpr) and from_table(a.value)}
            for n in walk_no_nested(mf):
                tests: List[ast.AST] = []
                if isinstance(n, (ast.If, ast.While, ast.IfExp, ast.Assert)):
                    tests = [n.test]
                elif isinstance(n, ast.BoolOp):
                    tests = list(n.values)
                elif isinstance(n, ast.UnaryOp) and isinstance(n.op, ast.Not):
                    tests = [n.operand]
                for t in tests:
                    if (isinstance(t, ast.Name) and t.id in held) or from_table(t) or (isinstance(t, ast.NamedExpr) and from_table(t.value)):
                        ctx.check('C16.Q5', False, db, n, f'{mq} uses the truth value of `{U(t)}`, a lookup in the placeholder table: the placeholder of the first block is the index 0, which is falsy, so every entity '
                                  'of block 0 is reported missing (KeyError) on a fresh database although engine_classes() lists it', func=mq, text=f'{mq}: placeholder not used as a truth value')
    fsrc = U(gf)
    calls_gf = {dotted(c.func) for c in ast.walk(gf) if isinstance(c, ast.Call)}
    ok = 'self._parse_block' in calls_gf and 'ent_unserialise' not in calls_gf
    ctx.check('C16.Q5', ok, db, gf, 'get_fgd parses through the same _parse_block and hands out a deep copy', func='EngineDB.get_fgd', text='get_fgd shares _parse_block')
    ok = 'else:\n            ent.bases.append(cbase_entity)' in psrc or 'ent.bases.append(cbase_entity)' in psrc
    ctx.shape('C16.Q5', ok, db, pb, 'entities without bases inherit from CBaseEntity in the lazy path as well', func='EngineDB._parse_block', text='implicit base')


MUTANTS: List[Dict[str, Any]] = [
    {'id': 'spawnflags_written_sorted', 'file': '_engine_db.py', 'find': "        for mask, name, default, tags in kvdef.flags_list:", 'replace': "        for mask, name, default, tags in sorted(kvdef.flags_list):", 'expect': 'C16.Q1', 'note': 'round 14'},
    {'id': 'resource_paths_folded_in_database', 'file': '_engine_db.py', 'find': "        file.write(str_dict(res.filename))", 'replace': "        file.write(str_dict(res.filename.lower()))", 'expect': 'C16.Q1', 'note': 'round 13'},
    {'id': 'helper_blank_args_dropped', 'file': 'fgd.py', 'find': "                args = [\n                    arg.strip()\n                    for arg in\n                    token_value.split(',')\n                ]", 'replace': "                args = [\n                    arg.strip()\n                    for arg in\n                    token_value.split(',')\n                    if arg.strip()\n                ]", 'expect': 'C16.Q10', 'note': 'round 12'},
    {'id': 'get_fgd_from_block_lists', 'file': '_engine_db.py', 'find': "            for clsname, ent in self.ent_map.items():\n                assert isinstance(ent, EntityDef), (clsname, ent)\n                self.fgd.entities[clsname] = ent", 'replace': "            for classes, data in self.unparsed:\n                for clsname in classes:\n                    ent = self.ent_map[clsname.casefold()]\n                    assert isinstance(ent, EntityDef), (clsname, ent)\n                    self.fgd.entities[clsname.casefold()] = ent", 'expect': 'C16.Q5', 'note': 'round 12'},
    {'id': 'kv_order_keeps_capitals', 'file': 'fgd.py', 'find': "                    entity.kv_order.append(kv_def.name.casefold())\n                kv_tags_map[tags] = kv_def\n", 'replace': "                    entity.kv_order.append(kv_def.name)\n                kv_tags_map[tags] = kv_def\n", 'expect': 'C16.Q8', 'note': 'round 11'},
    {'id': 'export_skips_unknown_helpers', 'file': 'fgd.py', 'find': "            if helper.IS_EXTENSION and not custom_syntax:\n                continue\n            if isinstance(helper, HelperHalfGridSnap):", 'replace': "            if helper.IS_EXTENSION and not custom_syntax:\n                continue\n            if isinstance(helper, UnknownHelper) and not args:\n                continue\n            if isinstance(helper, HelperHalfGridSnap):", 'expect': 'C16.Q9', 'note': 'round 11'},
    {'id': 'choice_values_bare_when_all_digits', 'file': 'fgd.py', 'find': "                    try:\n                        float(value)\n                    except ValueError:\n                        value = f'\"{_fgd_escape(custom_syntax, value)}\"'", 'replace': "                    if not all(x in '0123456789-' for x in value):\n                        value = f'\"{_fgd_escape(custom_syntax, value)}\"'", 'expect': 'C16.Q4'},
    {'id': 'alias_entities_serialised_without_their_maps', 'file': '_engine_db.py', 'find': "    if ent.is_alias:\n        flags |= EntFlags.IS_ALIAS\n", 'replace': "    attr_maps = list(ent._iter_attrs())\n    if ent.is_alias:\n        flags |= EntFlags.IS_ALIAS\n        attr_maps = [{}, {}, {}]\n    [keyvalues, inputs, outputs] = attr_maps\n", 'extra': [{'file': '_engine_db.py', 'find': "        sum(1 for tag_map in ent.keyvalues.values() if tag_map),", 'replace': "        sum(1 for tag_map in keyvalues.values() if tag_map),"}], 'expect': 'C16.Q1'},
    {'id': 'ok_entity_maps_through_locals', 'file': '_engine_db.py', 'find': "    if ent.is_alias:\n        flags |= EntFlags.IS_ALIAS\n", 'replace': "    attr_maps = list(ent._iter_attrs())\n    if ent.is_alias:\n        flags |= EntFlags.IS_ALIAS\n    [keyvalues, inputs, outputs] = attr_maps\n", 'extra': [{'file': '_engine_db.py', 'find': "        sum(1 for tag_map in ent.keyvalues.values() if tag_map),", 'replace': "        sum(1 for tag_map in keyvalues.values() if tag_map),"}], 'expect': None, 'refuse_ok': True},
    {'id': 'classname_listing_sorted_casefolded', 'file': '_engine_db.py', 'find': "        classnames = STRING_SEP.join(ent.classname for ent in block_ents).encode('utf8')", 'replace': "        classnames = STRING_SEP.join(sorted((ent.classname for ent in block_ents), key=str.casefold)).encode('utf8')", 'expect': 'C16.Q1'},
    {'id': 'report_keyword_only_with_custom_syntax', 'file': 'fgd.py', 'find': "        if self.reportable:\n            file.write('report ')", 'replace': "        if self.reportable and custom_syntax:\n            file.write('report ')", 'expect': 'C16.Q3'},
    {'id': 'spawnflags_type_byte_before_readonly', 'file': '_engine_db.py', 'find': "    # Use the high bit to store this inside here as well.\n    if kvdef.readonly:\n        value_type |= 128\n    file.write(_fmt_8bit.pack(value_type))\n", 'replace': "    if kvdef.type is ValueTypes.SPAWNFLAGS:\n        file.write(_fmt_8bit.pack(value_type))\n    if kvdef.readonly:\n        value_type |= 128\n    if kvdef.type is not ValueTypes.SPAWNFLAGS:\n        file.write(_fmt_8bit.pack(value_type))\n", 'expect': 'C16.Q1'},
    {'id': 'sprite_parse_keeps_quotes', 'file': '_fgd_helpers.py', 'find': "            return cls(args[0].strip('\"'))", 'replace': "            return cls(args[0])", 'expect': 'C16.Q6'},
    {'id': 'model_export_quotes', 'file': '_fgd_helpers.py', 'find': "        if self.model is not None:\n            return [self.model]", 'replace': "        if self.model is not None:\n            return [f'\"{self.model}\"']", 'expect': 'C16.Q6'},
    {'id': 'overflow_block_removed_before_filling', 'file': '_engine_db.py', 'find': "    # Now, add every remaining ent to overflow blocks.\n", 'replace': "    if not overflow_block.ents:\n        all_blocks.remove(overflow_block)\n    # Now, add every remaining ent to overflow blocks.\n", 'expect': 'C16.Q1'},
    {'id': 'sorted_ents_marks_done_in_pass', 'file': 'fgd.py', 'find': "                if ready:\n                    batch.append(ent)\n", 'replace': "                if ready:\n                    batch.append(ent)\n                    done.add(ent)\n", 'expect': 'C16.Q3'},
    {'id': 'db_classnames_folded_on_read', 'file': '_engine_db.py', 'find': "        classnames = file.read(cls_size).decode('utf8').split(STRING_SEP)", 'replace': "        classnames = file.read(cls_size).decode('utf8').casefold().split(STRING_SEP)", 'expect': 'C16.Q5'},
    {'id': 'unknown_helper_bare_without_args', 'file': 'fgd.py', 'find': """                file.write(f'\\n\\t{helper.name}({", ".join(args)})')""", 'replace': """                file.write(f'\\n\\t{helper.name}({", ".join(args)})' if args else f'\\n\\t{helper.name}')""", 'expect': 'C16.Q3'},
    {'id': 'get_ent_placeholder_truthiness', 'file': '_engine_db.py', 'find': "        ent_info = self.ent_map[classname.casefold()]  # Or KeyError if not present.\n", 'replace': "        ent_info = self.ent_map.get(classname.casefold())\n        if not ent_info:\n            raise KeyError(classname)\n", 'expect': 'C16.Q5'},
    {'id': 'ok_get_ent_placeholder_is_none', 'file': '_engine_db.py', 'find': "        ent_info = self.ent_map[classname.casefold()]  # Or KeyError if not present.\n", 'replace': "        ent_info = self.ent_map.get(classname.casefold())\n        if ent_info is None:\n            raise KeyError(classname)\n", 'expect': None},
    {'id': 'resources_deduplicated_on_write', 'file': '_engine_db.py', 'find': "    for res in ent.resources:\n        if res.tags:  # Tags are fairly rare.", 'replace': "    uniq = {}\n    for res in ent.resources:\n        uniq.setdefault((res.filename, res.type), res)\n    for res in uniq.values():\n        if res.tags:  # Tags are fairly rare.", 'expect': 'C16.Q1'},
    {'id': 'resources_block_by_truthiness', 'file': 'fgd.py', 'find': "        if custom_syntax and self.resources != ():", 'replace': "        if custom_syntax and self.resources:", 'expect': 'C16.Q3'},
    {'id': 'ok_resources_block_by_predicate', 'file': 'fgd.py', 'find': "        if custom_syntax and self.resources != ():", 'replace': "        if custom_syntax and self.resources_defined():", 'expect': None},
    {'id': 'blank_disp_name_replaced_by_key', 'file': '_engine_db.py', 'find': "    file.write(str_dict(kvdef.disp_name))", 'replace': "    file.write(str_dict(kvdef.disp_name or kvdef.name))", 'expect': 'C16.Q2'},
    {'id': 'bare_default_if_int_parses', 'file': 'fgd.py', 'find': "            if all(x in '0123456789-' for x in default_str):\n                file.write(' : ' + default_str)\n            else:\n                file.write(f' : \"{_fgd_escape(custom_syntax, default_str)}\"')", 'replace': "            try:\n                int(default_str)\n            except ValueError:\n                file.write(f' : \"{_fgd_escape(custom_syntax, default_str)}\"')\n            else:\n                file.write(' : ' + default_str)", 'expect': 'C16.Q4'},
    {'id': 'resource_tags_hoisted', 'file': 'fgd.py', 'find': "                        filename = tok.expect(Token.STRING)\n                        tags = frozenset()\n", 'replace': "                        filename = tok.expect(Token.STRING)\n", 'extra': [{'file': 'fgd.py', 'find': "                resources: list[Resource] = list(entity.resources)\n", 'replace': "                resources: list[Resource] = list(entity.resources)\n                tags = frozenset()\n"}], 'expect': 'C16.Q7'},
    {'id': 'helper_lightcone_skips_default_outer', 'file': '_fgd_helpers.py', 'find': "        if self.color != '_light':\n            return [self.inner, self.outer, self.color]\n", 'replace': "        if self.color != '_light':\n            if self.outer == '_cone':\n                return [self.inner, self.color]\n            return [self.inner, self.outer, self.color]\n", 'expect': 'C16.Q6'},
    {'id': 'helper_line_swaps_key_value', 'file': '_fgd_helpers.py', 'find': "            self.start_key,\n            self.start_value,\n        ]\n        if self.end_key is not None and self.end_value is not None:\n            args += [self.end_key, self.end_value]\n        return args", 'replace': "            self.start_value,\n            self.start_key,\n        ]\n        if self.end_key is not None and self.end_value is not None:\n            args += [self.end_key, self.end_value]\n        return args", 'expect': 'C16.Q6'},
    {'id': 'helper_line_half_end_pair', 'file': '_fgd_helpers.py', 'find': "        if self.end_key is not None and self.end_value is not None:\n            args += [self.end_key, self.end_value]\n        return args", 'replace': "        if self.end_key is not None:\n            args.append(self.end_key)\n            if self.end_value is not None:\n                args.append(self.end_value)\n        return args", 'expect': 'C16.Q6'},
    {'id': 'helper_sphere_append_style', 'file': '_fgd_helpers.py', 'find': "        if self.r != 255.0 or self.g != 255.0 or self.b != 255.0:\n            return [self.size_key, f'{self.r:g} {self.g:g} {self.b:g}']", 'replace': "        if self.r != 255.0 or self.g != 255.0 or self.b != 255.0:\n            out = [self.size_key]\n            out.append(f'{self.r:g} {self.g:g} {self.b:g}')\n            return out", 'expect': None},
    {'id': 'iodef_index_of_decayed_type', 'file': '_engine_db.py', 'find': "    file.write(_fmt_8bit.pack(VALUE_TYPE_INDEX[iodef.type]))", 'replace': "    file.write(_fmt_8bit.pack(VALUE_TYPE_INDEX[{ValueTypes.TARG_DEST: ValueTypes.STRING}.get(iodef.type, iodef.type)]))", 'expect': 'C16.Q2'},
    {'id': 'count_len_keyvalues', 'file': '_engine_db.py', 'find': "        sum(1 for tag_map in ent.keyvalues.values() if tag_map),", 'replace': "        len(ent.keyvalues),", 'expect': 'C16.Q1'},
    {'id': 'header_counts_swapped', 'file': '_engine_db.py', 'find': "        sum(1 for tag_map in ent.inputs.values() if tag_map),\n        sum(1 for tag_map in ent.outputs.values() if tag_map),", 'replace': "        sum(1 for tag_map in ent.outputs.values() if tag_map),\n        sum(1 for tag_map in ent.inputs.values() if tag_map),", 'expect': 'C16.Q1'},
    {'id': 'kv_default_before_type', 'file': '_engine_db.py', 'find': "    name = from_dict()\n    disp_name = from_dict()\n    [value_ind] = file.read(1)", 'replace': "    name = from_dict()\n    [value_ind] = file.read(1)\n    disp_name = from_dict()", 'expect': 'C16.Q1'},
    {'id': 'readonly_mask_64', 'file': '_engine_db.py', 'find': "    readonly = value_ind & 128 != 0", 'replace': "    readonly = value_ind & 64 != 0", 'expect': 'C16.Q1'},
    {'id': 'tags_count_16bit', 'file': '_engine_db.py', 'find': "        file.write(_fmt_8bit.pack(len(tags)))", 'replace': "        file.write(_fmt_16bit.pack(len(tags)))", 'expect': 'C16.Q1'},
    {'id': 'res_name_before_tags', 'file': '_engine_db.py', 'find': "            file.write(_fmt_8bit.pack(FILE_TYPE_INDEX[res.type] | 128))\n            BinStrDict.write_tags(file, str_dict, res.tags)", 'replace': "            file.write(_fmt_8bit.pack(FILE_TYPE_INDEX[res.type] | 128))\n            file.write(str_dict(res.filename))\n            BinStrDict.write_tags(file, str_dict, res.tags)\n            continue", 'expect': 'C16.Q1'},
    {'id': 'block_pos_swapped', 'file': '_engine_db.py', 'find': "deferred.set_data(('block', id(block_ents)), block_off, block_len)", 'replace': "deferred.set_data(('block', id(block_ents)), block_len, block_off)", 'expect': 'C16.Q1'},
    {'id': 'value_type_missing', 'file': '_engine_db.py', 'find': "    ValueTypes.EXT_SOUNDSCAPE,\n]", 'replace': "]", 'expect': 'C16.Q2'},
    {'id': 'alias_bit_in_mask', 'file': '_engine_db.py', 'find': "    IS_ALIAS = 0b1000", 'replace': "    IS_ALIAS = 0b100", 'expect': 'C16.Q2'},
    {'id': 'value_type_appended_alias_ok', 'file': '_engine_db.py', 'find': "    ValueTypes.EXT_SOUNDSCAPE,\n]", 'replace': "    ValueTypes.EXT_SOUNDSCAPE,\n    ValueTypes.EXT_SOUNDSCAPE,\n]", 'expect': None, 'note': 'negative control: a repeated entry still decodes to the same member'},
    {'id': 'value_upper_case', 'file': 'fgd.py', 'find': "    TARG_DEST = 'target_destination'", 'replace': "    TARG_DEST = 'Target_Destination'", 'expect': 'C16.Q3'},
    {'id': 'report_before_readonly', 'file': 'fgd.py', 'find': "        if self.readonly:\n            file.write('readonly ')\n\n        if self.reportable:\n            file.write('report ')", 'replace': "        if self.reportable:\n            file.write('report ')\n\n        if self.readonly:\n            file.write('readonly ')", 'expect': 'C16.Q3'},
    {'id': 'resources_keyword', 'file': 'fgd.py', 'find': "            elif io_type == '@resources':", 'replace': "            elif io_type == '@resource':", 'expect': 'C16.Q3'},
    {'id': 'blank_name_bare_colon', 'file': 'fgd.py', 'find': "            if self.disp_name or default or self.desc:\n                _write_longstring(file, custom_syntax, self.disp_name, indent='\\t')\n            else:\n                # Nothing else follows. A bare colon would make the parser continue onto the next line.\n                file.write('\"\"')", 'replace': "            _write_longstring(file, custom_syntax, self.disp_name, indent='\\t')", 'expect': 'C16.Q4'},
    {'id': 'desc_colon_always', 'file': 'fgd.py', 'find': "            if self.desc:\n                file.write(' : ')\n        else:", 'replace': "            file.write(' : ')\n        else:", 'expect': 'C16.Q4'},
    {'id': 'default_raw', 'file': 'fgd.py', 'find': """file.write(f' : "{_fgd_escape(custom_syntax, default_str)}"')""", 'replace': """file.write(f' : "{default_str}"')""", 'expect': 'C16.Q4'},
    {'id': 'split_no_escape_check', 'file': 'fgd.py', 'find': "            if (len(head) - len(head.rstrip('\\\\'))) % 2:\n                split_pos -= 1\n", 'replace': "", 'expect': 'C16.Q4'},
    {'id': 'parser_no_plus', 'file': 'fgd.py', 'find': "                colon_operator=True,\n                plus_operator=True,\n            )\n            for token, token_value in tokeniser:", 'replace': "                colon_operator=True,\n            )\n            for token, token_value in tokeniser:", 'expect': 'C16.Q4'},
    {'id': 'choices_legacy_escape', 'file': 'fgd.py', 'find': "_write_longstring(file, custom_syntax, name.replace('\\n', ' '), indent='\\t\\t')", 'replace': "_write_longstring(file, False, name.replace('\\n', ' '), indent='\\t\\t')", 'expect': 'C16.Q4'},
    {'id': 'kv_cache', 'file': '_engine_db.py', 'find': "    # Bypass __init__, to speed up - we have a lot of these.\n    kv = KVDef.__new__(KVDef)", 'replace': "    if (name, disp_name, value_ind, default) in _KV_CACHE:\n        return _KV_CACHE[name, disp_name, value_ind, default]\n    kv = _KV_CACHE[name, disp_name, value_ind, default] = KVDef.__new__(KVDef)",
     'extra': [{'file': '_engine_db.py', 'find': "BinStrSerialise: TypeAlias = Callable[[str], bytes]\n", 'replace': "BinStrSerialise: TypeAlias = Callable[[str], bytes]\n_KV_CACHE: dict = {}\n"}], 'expect': 'C16.Q5'},
    {'id': 'block_not_blanked', 'file': '_engine_db.py', 'find': "        self.unparsed[index] = ((), b'')\n", 'replace': "", 'expect': 'C16.Q5'},
    {'id': 'get_fgd_own_parser', 'file': '_engine_db.py', 'find': "                if data:\n                    self._parse_block(i)", 'replace': "                if data:\n                    pass", 'expect': 'C16.Q5'},
]
