"""C06 - VMF export/parse round trip: structural clauses (DESIGN.md C06).

  V1  key agreement: for each writer/reader pair every literal key (and block name) the writer emits is consumed by the
      reader side, and every key the reader consumes is emitted by some writer (exceptions: frozen table with reasons).
  V2  escape discipline: a quoted slot whose expression is statically str-typed (field annotations, loop variables over
      str containers) is wrapped in escape_text; numeric / vector / enum / literal slots are exempt.  VMF.parse tokenises
      with escapes enabled (Keyvalues.parse default, C01-R4).
  V3  precision classes: significant-digit formatting (`:g`, `:e`, explicit precision) is used only for the fields the
      property names (face rotation, output delay, multiblend Vec4); everything else is exact or format_float (6 decimals).
  V4  displacement row shapes: tokens per row written == tokens per row the reader demands, as linear expressions in
      S = disp_size (= 2**power + 1); alternatives of one row item have equal token counts.
  V5  ID plumbing: VMF.parse hands preserve_ids to VMF(); every parse passes the file's id to the constructor's id parameter.
"""
from __future__ import annotations

import ast
import re
from typing import Sequence,  Any, Dict, List, Optional, Set, Tuple

from engine.srcmatch import U
from engine.fold import Folder
from engine.kvtext import KeyResolver, conversion_of, emits_in, flatten, reader_keys, writer_keys
from engine.model import AnalysisError, Module, Program, dotted, walk_no_nested
from rules.c09 import attrs_fields, field_types, is_attrs

LEVEL = 'other'

PAIRS: Dict[str, Tuple[List[str], List[str]]] = {
    'VMF': (['VMF.export'], ['VMF.parse']),
    'StrataViewport': (['Strata2DViewport.export', 'Strata3DViewport.export'], ['_parse_strata_viewport']),
    'Entity': (['Entity.export', 'EntityFixup.export'], ['Entity.parse']),
    'Solid': (['Solid.export'], ['Solid.parse']),
    'Side': (['Side.export', 'Side._export_displacement', 'Side._export_disp_rowset'],
             ['Side.parse', 'Side._parse_displacement_data', 'Side._iter_disp_row', 'Side._parse_disp_vecrow', 'Side._parse_strata_points']),
    'VisGroup': (['VisGroup.export'], ['VisGroup.parse']),
    'Camera': (['Camera.export'], ['Camera.parse']),
    'Cordon': (['Cordon.export'], ['Cordon.parse']),
    'EntityGroup': (['EntityGroup.export'], ['EntityGroup.parse']),
}
# (pair, key) -> reason.  Reader-only keys that no writer emits, and writer-only keys that no reader consumes.
READER_ONLY_OK = {
    ('Side', '5'): 'Strata Source alternative encoding of allowed_verts (5 x int64); this writer always emits the "10" form',
    ('VMF', 'targetname'): "worldspawn['targetname'] is an entity keyvalue lookup, not a key of the file syntax",
    ('VMF', 'classname'): "worldspawn['classname'] is an entity keyvalue store, not a key of the file syntax",
    ('StrataViewport', 'v0'): 'viewport block titles are passed to export() by VMF.export (zip over v0..v3); method-name ambiguity prevents resolving the parameter',
    ('StrataViewport', 'v1'): 'see v0', ('StrataViewport', 'v2'): 'see v0', ('StrataViewport', 'v3'): 'see v0',
    ('Entity', 'hidden'): 'hidden brushes inside an entity are written by Solid.export (block name `hidden`)',
    ('Entity', 'group'): 'worldspawn group blocks are written by EntityGroup.export; the *editor* key of the same name is checked by the pair-local rule below',
}
WRITER_ONLY_OK: Dict[Tuple[str, str], str] = {
    ('Camera', 'camera'): 'VMF.parse treats every child block of `cameras` other than the activecamera key as a camera',
    ('Entity', '*'): 'arbitrary entity keyvalues: consumed by the generic `keys[item.real_name] = item.value` arm',
}
SIG_OK_FIELDS = {'ham_rot', 'delay', 'x', 'y', 'z', 'w'}      # Side.ham_rot, Output.delay, Vec4 components
NUM_WORDS = {'int', 'float', 'bool', 'Optional', 'DispPower', 'Literal'}
VEC_WORDS = {'Vec', 'Angle', 'UVAxis', 'Vec4', 'Matrix', 'FrozenVec', 'FrozenAngle'}


def fold_keys(ks: Set[str]) -> Set[str]:
    return {k.casefold() for k in ks}


def matches(k: str, others: Set[str]) -> bool:
    if k in others:
        return True
    for o in others:
        if o.endswith('*') and k.startswith(o[:-1]):
            return True
        if k.endswith('*') and o.startswith(k[:-1]):
            return True
    return False


class Typer:
    """Static type of a slot expression inside a method of class `cls` (enough for the writers of vmf.py)."""

    def __init__(self, prog: Program, mod: Module, cls: Optional[str], fn: ast.AST) -> None:
        self.prog, self.mod, self.cls, self.fn = prog, mod, cls, fn
        self.ftypes = field_types(mod, cls) if cls else {}
        self.folder = Folder(prog, mod)
        self._busy: Set[str] = set()

    def ann_kind(self, ann: Optional[str]) -> str:
        if not ann:
            return 'unknown'
        toks = set(re.findall(r'[A-Za-z_]\w*', ann))
        core = toks - {'Optional', 'Union', 'None', 'Final', 'ClassVar', 'builtins', 'typing', 'Literal'}
        if 'str' in core:
            return 'str'
        if core and core <= NUM_WORDS:
            return 'num'
        if core & VEC_WORDS and not (core & {'list', 'dict', 'set', 'List'}):
            return 'vec'
        for t in core:
            if self.mod.has_class(t):
                try:
                    self.folder.enum_table(t)
                    return 'enum'
                except AnalysisError:
                    pass
        return 'unknown'

    def elem_ann(self, ann: Optional[str], pos: int = -1) -> Optional[str]:
        """annotation of the elements of a container annotation: list[Vec] -> Vec; dict[str, X] -> key/value by pos."""
        if not ann:
            return None
        m = re.search(r'\[(.*)\]', ann.replace("'", ''))
        if not m:
            return None
        inner = m.group(1)
        parts = [p.strip() for p in _split_top(inner)]
        if ann.strip().startswith(('Optional', 'Union')) and len(parts) == 1:
            return self.elem_ann(parts[0], pos)
        if re.match(r"^(dict|Dict|Mapping|MutableMapping)\b", ann.replace("'", '').strip()) and len(parts) == 2:
            return parts[pos] if pos in (0, 1) else parts[1]
        return parts[0]

    def loop_source(self, name: str) -> Optional[Tuple[ast.AST, int]]:
        for n in walk_no_nested(self.fn):
            tgt = it = None
            if isinstance(n, ast.For):
                tgt, it = n.target, n.iter
            elif isinstance(n, ast.comprehension):
                tgt, it = n.target, n.iter
            if tgt is None:
                continue
            if isinstance(tgt, ast.Name) and tgt.id == name:
                return it, -1
            if isinstance(tgt, (ast.Tuple, ast.List)):
                for i, el in enumerate(tgt.elts):
                    if isinstance(el, ast.Name) and el.id == name:
                        return it, i
        return None

    def iter_elem_ann(self, it: ast.AST, pos: int) -> Optional[str]:
        """annotation of the loop variable produced by iterating `it` (at tuple position pos)."""
        if isinstance(it, ast.Call):
            fn = dotted(it.func) or ''
            if fn in ('sorted', 'reversed', 'list', 'tuple', 'iter'):
                return self.iter_elem_ann(it.args[0], pos)
            if fn == 'enumerate':
                return 'int' if pos == 0 else self.iter_elem_ann(it.args[0], -1)
            if fn == 'range':
                return 'int'
            if fn == 'zip':
                return self.iter_elem_ann(it.args[pos], -1) if 0 <= pos < len(it.args) else None
            if isinstance(it.func, ast.Attribute) and it.func.attr in ('items', 'values', 'keys'):
                base_ann = self.expr_ann(it.func.value)
                if it.func.attr == 'items':
                    return self.elem_ann(base_ann, pos)
                if it.func.attr == 'keys':
                    return self.elem_ann(base_ann, 0)
                return self.elem_ann(base_ann, 1)
        if isinstance(it, (ast.Tuple, ast.List)):
            return 'str' if all(isinstance(e, ast.Constant) and isinstance(e.value, str) for e in it.elts) else None
        return self.elem_ann(self.expr_ann(it))

    def expr_ann(self, e: ast.AST) -> Optional[str]:
        if isinstance(e, ast.Attribute):
            base = e.value
            if isinstance(base, ast.Name) and base.id == 'self':
                a = self.ftypes.get(e.attr)
                if a is None and self.cls and e.attr == '_keys':
                    return 'dict[str, str]'
                return a
            bann = self.expr_ann(base)
            if bann:
                for tok in re.findall(r'[A-Za-z_]\w*', bann):
                    if self.mod.has_class(tok):
                        ft = field_types(self.mod, tok)
                        if e.attr in ft:
                            return ft[e.attr]
                        if e.attr == 'value':
                            try:
                                tbl = self.folder.enum_table(tok)
                                vals = [m.value for m in tbl]
                                if all(isinstance(v, int) for v in vals):
                                    return 'int'
                                if all(isinstance(v, str) for v in vals):
                                    return 'str'
                            except AnalysisError:
                                pass
            return None
        if isinstance(e, ast.Subscript):
            bann = self.expr_ann(e.value)
            if isinstance(e.slice, ast.Slice):
                return bann
            if bann is None and isinstance(e.value, ast.Name):
                # module-level table with an annotation
                for st in self.mod.tree.body:
                    if isinstance(st, ast.AnnAssign) and isinstance(st.target, ast.Name) and st.target.id == e.value.id:
                        bann = U(st.annotation)
            return self.elem_ann(bann, 1)
        if isinstance(e, ast.Name):
            src = self.loop_source(e.id)
            if src is not None:
                return self.iter_elem_ann(src[0], src[1])
            args = getattr(self.fn, 'args', None)
            if args is not None:
                for a in args.args + args.kwonlyargs:
                    if a.arg == e.id and a.annotation is not None:
                        return U(a.annotation)
            for n in walk_no_nested(self.fn):
                if isinstance(n, ast.AnnAssign) and isinstance(n.target, ast.Name) and n.target.id == e.id:
                    return U(n.annotation)
            # a local assigned once without annotation has the type of what it is assigned (a list comprehension: list of its element)
            defs_ = [n.value for n in walk_no_nested(self.fn) if isinstance(n, ast.Assign) and len(n.targets) == 1 and isinstance(n.targets[0], ast.Name) and n.targets[0].id == e.id]
            if len(defs_) == 1 and e.id not in self._busy:
                self._busy.add(e.id)
                try:
                    if isinstance(defs_[0], ast.ListComp):
                        inner_ = self.expr_ann(defs_[0].elt)
                        return f'list[{inner_}]' if inner_ else None
                    return self.expr_ann(defs_[0])
                finally:
                    self._busy.discard(e.id)
            return None
        return None

    def kind(self, e: ast.AST, depth: int = 0) -> str:
        if depth > 5:
            return 'unknown'
        if isinstance(e, ast.Constant):
            return 'literal'
        if isinstance(e, ast.IfExp):
            a, b = self.kind(e.body, depth + 1), self.kind(e.orelse, depth + 1)
            return a if a == b else ('str' if 'str' in (a, b) else ('unknown' if 'unknown' in (a, b) else 'num'))
        conv, inner = conversion_of(e)
        if conv == 'escape_text':
            return 'escaped'
        if conv in ('format_float', 'bool_as_int', 'int', 'len', 'float'):
            return 'num'
        if conv == 'str':
            return self.kind(inner, depth + 1)
        if conv == 'join':
            arg = e.args[0] if isinstance(e, ast.Call) and e.args else None
            return self.join_kind(arg, depth + 1) if arg is not None else 'unknown'
        if isinstance(e, ast.Call):
            return 'unknown'
        if isinstance(e, ast.Name) and self.loop_source(e.id) is None:
            defs = [n.value for n in walk_no_nested(self.fn) if isinstance(n, ast.Assign) and len(n.targets) == 1
                    and isinstance(n.targets[0], ast.Name) and n.targets[0].id == e.id]
            if len(defs) == 1:
                return self.kind(defs[0], depth + 1)
        if isinstance(e, ast.Attribute) and isinstance(e.value, ast.Name) and e.value.id == 'self' and self.cls and e.attr.isupper():
            try:
                v = self.folder.fold(self.mod.class_assign(self.cls, e.attr), {})
                if isinstance(v, (str, int, float)):
                    return 'literal'
            except AnalysisError:
                pass
        return self.ann_kind(self.expr_ann(e))

    def join_kind(self, arg: ast.AST, depth: int) -> str:
        """kind of the elements of a joined iterable"""
        if isinstance(arg, ast.Call) and dotted(arg.func) == 'map' and len(arg.args) == 2 and dotted(arg.args[0]) == 'str':
            return self.ann_kind(self.elem_ann(self.expr_ann(arg.args[1])))
        if isinstance(arg, ast.Subscript):
            return self.join_kind(arg.value, depth)
        if isinstance(arg, ast.Name):
            for n in walk_no_nested(self.fn):
                if isinstance(n, ast.Assign) and len(n.targets) == 1 and isinstance(n.targets[0], ast.Name) and n.targets[0].id == arg.id:
                    if isinstance(n.value, ast.List) and not n.value.elts:
                        # `rows = []` filled by rows.append(<x>): the kinds of everything appended
                        apps = [c.args[0] for c in walk_no_nested(self.fn) if isinstance(c, ast.Call) and isinstance(c.func, ast.Attribute) and c.func.attr == 'append'
                                and dotted(c.func.value) == arg.id and len(c.args) == 1]
                        kinds = {self.elt_kind(a, depth + 1) for a in apps}
                        if not kinds:
                            return 'unknown'
                        return 'str' if 'str' in kinds else ('unknown' if 'unknown' in kinds else kinds.pop() if len(kinds) == 1 else 'num')
                    return self.join_kind(n.value, depth)
            return 'unknown'
        if isinstance(arg, (ast.ListComp, ast.GeneratorExp)):
            return self.elt_kind(arg.elt, depth)
        return 'unknown'

    def elt_kind(self, elt: ast.AST, depth: int) -> str:
        if isinstance(elt, ast.JoinedStr):
            kinds = [self.kind(v.value, depth + 1) for v in elt.values if isinstance(v, ast.FormattedValue)]
            return 'str' if 'str' in kinds else ('unknown' if 'unknown' in kinds else 'num')
        if isinstance(elt, ast.IfExp):
            a, b = self.elt_kind(elt.body, depth + 1), self.elt_kind(elt.orelse, depth + 1)
            return 'str' if 'str' in (a, b) else ('unknown' if 'unknown' in (a, b) else 'num')
        if isinstance(elt, ast.Constant):
            return 'literal'
        if isinstance(elt, ast.Call) and dotted(elt.func) == 'str' and elt.args:
            inner = elt.args[0]
            if isinstance(inner, ast.Call) and dotted(inner.func) == 'getattr':
                return 'num'      # str(getattr(vert, membr)): DispVertex members are numbers/vectors (checked by V4 through the member table)
            if isinstance(inner, ast.Name):
                defs = [n.value for n in walk_no_nested(self.fn) if isinstance(n, ast.Assign) and len(n.targets) == 1 and isinstance(n.targets[0], ast.Name) and n.targets[0].id == inner.id]
                if defs and all(isinstance(d, ast.Call) and dotted(d.func) in ('getattr', 'float', 'int', 'format_float') for d in defs):
                    return 'num'  # value = getattr(vert, membr) [; value = float(value)]
            return self.kind(inner, depth + 1)
        if isinstance(elt, ast.Call) and isinstance(elt.func, ast.Name) and self.mod.has_func(elt.func.id) and len(elt.args) == 1 \
                and isinstance(elt.args[0], ast.Call) and dotted(elt.args[0].func) == 'getattr':
            # `_helper(getattr(vert, membr))` where the helper returns str(<its parameter, possibly passed through float()>)
            hf = self.mod.func(elt.func.id)
            rets = [r.value for r in walk_no_nested(hf) if isinstance(r, ast.Return) and r.value is not None]
            prm = hf.args.args[0].arg if hf.args.args else None
            if rets and prm and all(isinstance(r, ast.Call) and dotted(r.func) in ('str', 'format_float') and r.args and
                                    (dotted(r.args[0]) == prm or (isinstance(r.args[0], ast.Call) and dotted(r.args[0].func) == 'float')) for r in rets):
                return 'num'
        return self.kind(elt, depth + 1)


def _split_top(s: str) -> List[str]:
    out, depth, cur = [], 0, ''
    for ch in s:
        if ch in '([{':
            depth += 1
        elif ch in ')]}':
            depth -= 1
        if ch == ',' and depth == 0:
            out.append(cur)
            cur = ''
        else:
            cur += ch
    if cur.strip():
        out.append(cur)
    return out


# ---- V4 helpers: linear expressions in S -------------------------------------------------------------

def lin(e: ast.AST, env: Dict[str, Tuple[int, int]]) -> Optional[Tuple[int, int]]:
    """(a, b) meaning a*S + b, for expressions over `size`-like names and integer constants."""
    if isinstance(e, ast.Constant) and isinstance(e.value, int):
        return (0, e.value)
    if isinstance(e, ast.Name) and e.id in env:
        return env[e.id]
    if isinstance(e, ast.BinOp):
        l, r = lin(e.left, env), lin(e.right, env)
        if l is None or r is None:
            return None
        if isinstance(e.op, ast.Add):
            return (l[0] + r[0], l[1] + r[1])
        if isinstance(e.op, ast.Sub):
            return (l[0] - r[0], l[1] - r[1])
        if isinstance(e.op, ast.Mult):
            if l[0] == 0:
                return (r[0] * l[1], r[1] * l[1])
            if r[0] == 0:
                return (l[0] * r[1], l[1] * r[1])
    return None


def disp_env(fn: ast.AST, zero_loops: bool = False) -> Dict[str, Tuple[int, int]]:
    """linear forms (in S = disp_size) of the locals of a displacement reader/writer, found by what they are bound to: `self.disp_size` is S,
    `2 ** self.disp_power` is S - 1, anything linear in those follows; loop variables count as 0 when zero_loops is set."""
    env: Dict[str, Tuple[int, int]] = {'size': (1, 0)}
    # locals that carry the displacement power: stored into / read from self.disp_power
    power_names = {'disp_power', 'self.disp_power'}
    for a in ast.walk(fn):
        if isinstance(a, ast.Assign):
            if any(dotted(t) == 'self.disp_power' for t in a.targets) and isinstance(a.value, ast.Name):
                power_names.add(a.value.id)
            if dotted(a.value) == 'self.disp_power':
                power_names.update(t.id for t in a.targets if isinstance(t, ast.Name))
    assigns = sorted([a for a in ast.walk(fn) if isinstance(a, (ast.Assign, ast.AnnAssign)) and getattr(a, 'value', None) is not None], key=lambda a: a.lineno)
    if zero_loops:
        for l in ast.walk(fn):
            if isinstance(l, (ast.For, ast.comprehension)) and isinstance(l.target, ast.Name):
                env.setdefault(l.target.id, (0, 0))
    for _ in range(2):
        for a in assigns:
            tgs = a.targets if isinstance(a, ast.Assign) else [a.target]
            if len(tgs) != 1 or not isinstance(tgs[0], ast.Name):
                continue
            v = a.value
            if dotted(v) == 'self.disp_size':
                env[tgs[0].id] = (1, 0)
            elif isinstance(v, ast.BinOp) and isinstance(v.op, ast.Pow) and isinstance(v.left, ast.Constant) and v.left.value == 2 and dotted(v.right) in power_names:
                env[tgs[0].id] = (1, -1)
            else:
                l_ = lin(v, env)
                if l_ is not None and tgs[0].id not in env:
                    env[tgs[0].id] = l_
    if zero_loops:
        for l in ast.walk(fn):
            if isinstance(l, (ast.For, ast.comprehension)) and isinstance(l.target, ast.Name) and l.target.id not in env:
                env[l.target.id] = (0, 0)
    return env


def fmt_lin(v: Tuple[int, int]) -> str:
    a, b = v
    return f'{a}*S{b:+d}' if a and b else (f'{a}*S' if a else str(b))


# editor keys Entity.export deliberately leaves out for the worldspawn entity (frozen table, one reason each)
WORLD_OMITTED_EDITOR_KEYS = {
    'groupid': 'the world itself cannot be grouped (its brushes carry the group ids)',
    'visgroupid': 'the world itself cannot be put in a visgroup (its brushes carry the ids)',
    'visgroupshown': 'the world cannot be hidden',
    'visgroupautoshown': 'the world cannot be hidden',
    'logicalpos': 'Hammer keeps no logical-view position for the world',
}


def v15_editor_keys(ctx: Any, vm: Any) -> None:
    """Every key Entity.parse reads from the editor{} block is written by Entity.export, and written for the worldspawn entity too unless it
    is one of the keys that mean nothing for the world (table above).  Entity.parse reads them all without looking at _worldspawn."""
    ctx.rule('C06.V15', 'editor{} keys read by Entity.parse are written by Entity.export, for worldspawn too except the keys that cannot apply to the world', floor=6)
    par, exp = vm.func('Entity.parse'), vm.func('Entity.export')
    read_keys: Set[str] = set()
    # the loop over the children of the editor{} block: a `for <p> in ...` under the test on the constant 'editor'; its keys are `<p>.name == <const>`
    ed_vars = set()
    for i_ in ast.walk(par):
        if isinstance(i_, ast.If) and any(isinstance(c, ast.Constant) and c.value == 'editor' for c in ast.walk(i_.test)):
            ed_vars |= {l.target.id for st in i_.body for l in ast.walk(st) if isinstance(l, ast.For) and isinstance(l.target, ast.Name)}
    for n in ast.walk(par):
        if isinstance(n, ast.Compare) and len(n.ops) == 1 and isinstance(n.ops[0], ast.Eq) and isinstance(n.left, ast.Attribute) and n.left.attr == 'name' and isinstance(n.left.value, ast.Name) \
                and n.left.value.id in ed_vars and isinstance(n.comparators[0], ast.Constant):
            read_keys.add(n.comparators[0].value)
    if len(read_keys) < 6:
        raise AnalysisError(f'Entity.parse: only {len(read_keys)} editor keys found')

    def ev3(t: ast.AST) -> Optional[bool]:
        # value of a test for the worldspawn entity (None = depends on something else)
        if isinstance(t, ast.Name) and t.id == '_is_worldspawn':
            return True
        if isinstance(t, ast.UnaryOp) and isinstance(t.op, ast.Not):
            v = ev3(t.operand)
            return None if v is None else not v
        if isinstance(t, ast.BoolOp):
            vs = [ev3(v) for v in t.values]
            if isinstance(t.op, ast.And):
                return False if False in vs else (None if None in vs else True)
            return True if True in vs else (None if None in vs else False)
        return None
    written: Dict[str, List[bool]] = {}     # key -> [never reached for the world?] per write site
    for c in ast.walk(exp):
        if not (isinstance(c, ast.Call) and isinstance(c.func, ast.Attribute) and c.func.attr == 'write' and c.args and isinstance(c.args[0], ast.JoinedStr)):
            continue
        lits = ''.join(str(v.value) for v in c.args[0].values if isinstance(v, ast.Constant))
        m = re.match(r'\s*"(\w+)" "', lits)
        if not m or m.group(1) not in read_keys:
            continue
        gated = False
        anc = vm.parents.get(c)
        while anc is not None and anc is not exp:
            if isinstance(anc, ast.If) and '_is_worldspawn' in U(anc.test):
                in_body = any(c is x for b in anc.body for x in ast.walk(b))
                v = ev3(anc.test)
                if (v is False and in_body) or (v is True and not in_body):
                    gated = True
            anc = vm.parents.get(anc)
        written.setdefault(m.group(1), []).append(gated)
    for k in sorted(read_keys):
        if k not in written:
            ctx.check('C06.V15', False, vm, exp, f'Entity.parse reads the editor key "{k}" but Entity.export never writes it', func='Entity.export', text=f'editor key {k} written')
            continue
        world_gets_it = not all(written[k])
        if k in WORLD_OMITTED_EDITOR_KEYS:
            ctx.check('C06.V15', True, vm, exp, f'"{k}" may be left out for the world: {WORLD_OMITTED_EDITOR_KEYS[k]}', func='Entity.export', text=f'editor key {k} written')
        else:
            ctx.check('C06.V15', world_gets_it, vm, exp, f'Entity.export writes the editor key "{k}" only for ordinary entities, but Entity.parse reads it for the worldspawn block as well: the value set on vmf.spawn is lost '
                      'on a round trip', func='Entity.export', text=f'editor key {k} written')


def _escapes_iteration(fn: ast.AST, lp: ast.For) -> bool:
    """Does the function object outlive the iteration that made it?  (yielded, returned, appended / stored into a container or attribute.)
    A lambda handed straight to sorted()/min()/map()... is consumed at once and is not affected by late binding."""
    parent: Dict[ast.AST, ast.AST] = {}
    for n in ast.walk(lp):
        for ch in ast.iter_child_nodes(n):
            parent[ch] = n

    def stored(expr: ast.AST) -> bool:
        p = parent.get(expr)
        while isinstance(p, (ast.Tuple, ast.List, ast.Dict, ast.Set, ast.Starred)):
            expr, p = p, parent.get(p)
        if isinstance(p, (ast.Yield, ast.YieldFrom, ast.Return)):
            return True
        if isinstance(p, ast.Call) and isinstance(p.func, ast.Attribute) and p.func.attr in ('append', 'add', 'insert', 'extend', 'setdefault', 'update', 'register') and expr in p.args:
            return True
        if isinstance(p, ast.keyword):
            pp = parent.get(p)
            return isinstance(pp, ast.Call) and not (dotted(pp.func) or '') in ('sorted', 'min', 'max', 'map', 'filter', 'sort') and not (isinstance(pp.func, ast.Attribute) and pp.func.attr == 'sort')
        if isinstance(p, (ast.Assign, ast.AnnAssign)):
            tg = p.targets if isinstance(p, ast.Assign) else [p.target]
            return any(isinstance(t, (ast.Subscript, ast.Attribute)) for t in tg) or any(isinstance(t, ast.Name) and _name_escapes(t.id) for t in tg)
        return False

    def _name_escapes(name: str) -> bool:
        return any(isinstance(n, ast.Name) and n.id == name and isinstance(n.ctx, ast.Load) and stored(n) for n in ast.walk(lp))
    if isinstance(fn, ast.Lambda):
        return stored(fn)
    return _name_escapes(fn.name)        # type: ignore[attr-defined]


def late_bound_closures(tree: ast.AST) -> List[Tuple[ast.AST, str, ast.AST]]:
    """(inner function, loop variable, loop) for every def/lambda created inside a `for` loop that reads the loop variable as a free
    variable: Python binds it when the function is CALLED, so every function made by the loop sees the value of the last iteration."""
    out: List[Tuple[ast.AST, str, ast.AST]] = []
    for lp in ast.walk(tree):
        if not isinstance(lp, ast.For):
            continue
        lvars = {n.id for n in ast.walk(lp.target) if isinstance(n, ast.Name)}
        for st in lp.body:
            for fn in ast.walk(st):
                if not isinstance(fn, (ast.FunctionDef, ast.Lambda)):
                    continue
                params = {a.arg for a in fn.args.args + fn.args.kwonlyargs + fn.args.posonlyargs} | ({fn.args.vararg.arg} if fn.args.vararg else set()) | ({fn.args.kwarg.arg} if fn.args.kwarg else set())
                body_nodes = fn.body if isinstance(fn.body, list) else [fn.body]
                assigned = {t.id for b in body_nodes for n in ast.walk(b) if isinstance(n, (ast.Assign, ast.AugAssign, ast.AnnAssign, ast.For)) for t in ast.walk(n.targets[0] if isinstance(n, ast.Assign) else n.target)
                            if isinstance(t, ast.Name) and isinstance(t.ctx, ast.Store)}
                if not _escapes_iteration(fn, lp):
                    continue
                for b in body_nodes:
                    for n in ast.walk(b):
                        if isinstance(n, ast.Name) and isinstance(n.ctx, ast.Load) and n.id in lvars and n.id not in params and n.id not in assigned:
                            out.append((fn, n.id, lp))
                            break
                    else:
                        continue
                    break
    return out


def v9_to_v14(ctx: Any, vm: Any) -> None:
    # ---- V9: brace depth of every named block _export_displacement emits -------------------------------------------------
    ed = vm.func('Side._export_displacement')
    depth = 0
    opened: List[str] = []          # stack of block names
    emitted: Dict[str, Tuple[int, ast.AST]] = {}
    pending = ''

    def feed(text: str, node: ast.AST) -> None:
        nonlocal depth, pending
        for line in text.split('\n'):
            t = line.replace('\x00', '').strip()
            if not t:
                continue
            if t == '{':
                depth += 1
                opened.append(pending)
                if pending:
                    emitted.setdefault(pending, (depth - 1, node))
                pending = ''
            elif t.startswith('}'):
                for _ in range(t.count('}')):
                    depth -= 1
                    if opened:
                        opened.pop()
            elif not t.startswith('"'):
                pending = t.split()[0]

    def tmpl(e: ast.AST) -> Optional[str]:
        if isinstance(e, ast.Constant) and isinstance(e.value, str):
            return e.value
        if isinstance(e, ast.JoinedStr):
            return ''.join(str(v.value) if isinstance(v, ast.Constant) else ('\x00' if U(v.value) == 'ind' else 'X') for v in e.values)   # type: ignore[attr-defined]
        if isinstance(e, ast.BinOp) and isinstance(e.op, ast.Add):
            a, b = tmpl(e.left), tmpl(e.right)
            if isinstance(e.left, ast.Name) and e.left.id == 'ind':
                a = '\x00'
            return None if a is None or b is None else a + b
        return None

    def walk(stmts: Sequence[ast.stmt]) -> None:
        for st in stmts:
            if isinstance(st, ast.Expr) and isinstance(st.value, ast.Call):
                c = st.value
                d = dotted(c.func) or ''
                if d == 'buffer.write' and c.args:
                    t = tmpl(c.args[0])
                    if t is None:
                        raise AnalysisError(f'_export_displacement: line {st.lineno}: written text not recognised')
                    feed(t.replace('multiblend_color_X', 'multiblend_color_N'), st)
                elif d == 'self._export_disp_rowset' and c.args and isinstance(c.args[0], ast.Constant):
                    emitted.setdefault(c.args[0].value, (depth, st))         # a balanced block at the current depth
            elif isinstance(st, (ast.For, ast.If, ast.While)):
                d0 = depth
                walk(st.body)
                if isinstance(st, ast.For) and depth != d0:
                    raise AnalysisError(f'_export_displacement: loop at line {st.lineno} changes the brace depth')
                if isinstance(st, ast.If) and st.orelse:
                    walk(st.orelse)
    walk(ed.body)
    if 'dispinfo' not in emitted:
        raise AnalysisError('_export_displacement: dispinfo block not found')
    base = emitted['dispinfo'][0] + 1
    # names the parser fetches from the dispinfo tree
    pd = vm.func('Side._parse_disp') if vm.has_func('Side._parse_disp') else None
    wanted = {'normals', 'distances', 'offsets', 'offset_normals', 'alphas', 'triangle_tags', 'allowed_verts', 'multiblend', 'alphablend', 'multiblend_color_N'}
    for name in sorted(wanted):
        if name not in emitted:
            ctx.shape('C06.V9', False, vm, ed, f'block `{name}` is not written by _export_displacement', func='Side._export_displacement', text=f'dispinfo block {name}')
            continue
        dep, node = emitted[name]
        ctx.check('C06.V9', dep == base, vm, node, f'the `{name}` block is written at brace depth {dep}, but the blocks of dispinfo are at depth {base}: it ends up ' + ('outside dispinfo (a sibling of it inside the side), ' if dep < base else 'nested too deep, ')
                  + 'where the parser - which looks it up in the dispinfo tree - never finds it', func='Side._export_displacement', text=f'dispinfo block {name}')
    ctx.check('C06.V9', depth == 0, vm, ed, f'_export_displacement leaves {depth} block(s) open', func='Side._export_displacement', text='braces balanced')
    # ---- V10 ------------------------------------------------------------------------------------------------------------------
    fe = vm.func('EntityFixup.export')
    ep = vm.func('Entity.parse')
    wspec = [v.format_spec for js in ast.walk(fe) if isinstance(js, ast.JoinedStr) for i, v in enumerate(js.values) if isinstance(v, ast.FormattedValue) and i > 0 and isinstance(js.values[i - 1], ast.Constant) and str(js.values[i - 1].value).endswith('replace')]
    # the key-name local of Entity.parse: assigned from `<item>.name` (possibly folded)
    ep_names = {'name'}
    for a_ in ast.walk(ep):
        if isinstance(a_, ast.Assign):
            v_ = a_.value
            while isinstance(v_, ast.Call) and isinstance(v_.func, ast.Attribute) and v_.func.attr in ('casefold', 'lower') and not v_.args:
                v_ = v_.func.value
            if isinstance(v_, ast.Attribute) and v_.attr in ('name', 'real_name'):
                ep_names.update(t.id for t in a_.targets if isinstance(t, ast.Name))
    rslice = [n for n in ast.walk(ep) if isinstance(n, ast.Assign) and isinstance(n.value, ast.Subscript) and dotted(n.value.value) in ep_names and isinstance(n.value.slice, ast.Slice)]
    if len(wspec) != 1 or len(rslice) != 1:
        ctx.shape('C06.V10', False, vm, fe, 'replaceNN writer format / reader slice not found', func='Entity.parse', text='replace index width')
    else:
        spec = U(wspec[0]).strip("f'\"") if wspec[0] is not None else ''
        sl = rslice[0].value.slice
        fixed_tail = sl.lower is not None and isinstance(sl.lower, ast.UnaryOp) and sl.upper is None          # name[-2:]
        from_prefix = sl.lower is not None and not isinstance(sl.lower, ast.UnaryOp) and sl.upper is None      # name[7:] / name[len('replace'):]
        if fixed_tail:
            ctx.check('C06.V10', False, vm, rslice[0], f'the exporter writes the index with format `{spec}` (a minimum width, 100 becomes three digits) but the parser takes `{U(rslice[0].value)}`, a fixed number of trailing '
                      'characters: replace100 is read as index 0, replace101 collides with replace01', func='Entity.parse', text='replace index width')
        elif from_prefix:
            lo = sl.lower.value if isinstance(sl.lower, ast.Constant) else None
            ctx.check('C06.V10', lo in (None, len('replace')), vm, rslice[0], f'the index starts after the {len("replace")}-character prefix, the parser cuts at {lo}', func='Entity.parse', text='replace index width')
        else:
            ctx.shape('C06.V10', False, vm, rslice[0], 'reader slice form not recognised', func='Entity.parse', text='replace index width')
    # ---- V11 ------------------------------------------------------------------------------------------------------------------
    fv = vm.func('Strata2DViewport.from_vector')
    tests = [n for n in ast.walk(fv) if isinstance(n, ast.Compare) and isinstance(n.ops[0], ast.In) and isinstance(n.comparators[0], (ast.Tuple, ast.Set, ast.List))]
    sets_ = [(n.lineno, {ast.literal_eval(e) for e in n.comparators[0].elts}) for n in tests]
    if not sets_:
        ctx.shape('C06.V11', False, vm, fv, 'axis marker membership tests not found', func='Strata2DViewport.from_vector', text='marker precedence')
    else:
        marker_only = [ln for ln, st in sets_ if 0.0 not in st and 65536.0 in st]
        with_zero = [ln for ln, st in sets_ if 0.0 in st]
        ok = not with_zero or (bool(marker_only) and min(marker_only) < min(with_zero))
        ctx.check('C06.V11', ok, vm, tests[0], 'the planar axis is recovered by testing every coordinate against (0, -65536, 65536) at once: an exported viewport whose other coordinate is 0 (e.g. `(65536 0 5)`) matches twice and '
                  'parse raises "Multiple axes specified"; the +-65536 marker has to be looked for first', func='Strata2DViewport.from_vector', text='marker precedence')
    # ---- V12 ------------------------------------------------------------------------------------------------------------------
    vp = vm.func('VMF.parse')
    ent_loops = [n for n in walk_no_nested(vp) if isinstance(n, ast.For) and any(isinstance(c, ast.Call) and dotted(c.func) == 'Entity.parse' for c in ast.walk(n))]
    by_kind = [n for n in ent_loops if isinstance(n.iter, ast.Call) and dotted(n.iter.func) == 'tree.find_all']
    if not ent_loops:
        ctx.shape('C06.V12', False, vm, vp, 'entity parsing loop not found', func='VMF.parse', text='entities read in document order')
    else:
        ctx.check('C06.V12', not (len(by_kind) >= 2), vm, by_kind[-1] if by_kind else ent_loops[0], 'visible entities (`Entity` blocks) and hidden ones (`hidden` wrappers) are read in two separate passes: a hidden entity between visible ones '
                  'moves to the end, so exporting the parsed map gives a different text', func='VMF.parse', text='entities read in document order')
    # ---- V13 ------------------------------------------------------------------------------------------------------------------
    def hidden_arg(c: ast.Call, pos: int) -> Optional[ast.AST]:
        for k in c.keywords:
            if k.arg == 'hidden':
                return k.value
        return c.args[pos] if len(c.args) > pos else None

    def in_hidden_branch(n: ast.AST) -> bool:
        p = vm.parents.get(n)
        while p is not None and not isinstance(p, ast.FunctionDef):
            q = vm.parents.get(p)
            if isinstance(q, ast.If) and p in q.body and "'hidden'" in U(q.test):
                return True
            p = q
        return False
    for qual, callee, pos in (('Entity.parse', 'Solid.parse', 2), ('VMF.parse', 'Entity.parse', 2)):
        fn = vm.func(qual)
        for c in ast.walk(fn):
            if isinstance(c, ast.Call) and dotted(c.func) == callee:
                a = hidden_arg(c, pos)
                inside = in_hidden_branch(c)
                if a is None:
                    ok = not inside          # default hidden=False
                elif isinstance(a, ast.Constant):
                    ok = a.value is inside
                else:
                    ok = False
                if qual == 'VMF.parse' and any(k.arg == '_worldspawn' for k in c.keywords):
                    continue
                ctx.check('C06.V13', ok, vm, c, f'`{U(c)[:70]}` is {"inside" if inside else "outside"} the branch that handles a hidden{{}} wrapper but passes hidden={U(a) if a is not None else "<default False>"}: '
                          'the writer wraps exactly the hidden objects, so an object read from the wrapper must be hidden and every other one visible', func=qual, text=f'{callee} hidden flag ({"wrapper" if inside else "plain"})')
    # ---- V14 ------------------------------------------------------------------------------------------------------------------
    cam = vm.methods('Camera')
    base_ok = 'self.map.cameras.index(self) + 1' in U(cam['set_active']) and 'self.map.cameras.index(self) + 1' in U(cam['is_active'])
    ctx.shape('C06.V14', base_ok, vm, cam['set_active'], 'Camera.set_active / is_active use index + 1', func='Camera.set_active', text='active camera is 1-based')
    for qual, fns in vm.all_funcs().items():
        for fn in fns:
            for n in walk_no_nested(fn):
                if isinstance(n, ast.Compare) and len(n.ops) == 1 and (dotted(n.left) or '').endswith('.active_cam') and isinstance(n.comparators[0], ast.Call) and dotted(n.comparators[0].func) == 'len' \
                        and (dotted(n.comparators[0].args[0]) or '').endswith('.cameras'):
                    ctx.check('C06.V14', not isinstance(n.ops[0], (ast.GtE, ast.Eq)), vm, n, f'`{U(n)}` treats the active camera number as 0-based; it is index + 1 (Camera.set_active), so the last camera being active '
                              'satisfies this test and is reset', func=qual, text='active camera compared as 1-based')
    ctx.check('C06.V14', True, vm, cam['is_active'], 'no 0-based comparison found', func='Camera.is_active', text='active camera comparisons scanned')


def _anc06(mod: Any, n: ast.AST, stop: Any) -> List[ast.AST]:
    out = []
    p = mod.parents.get(n)
    while p is not None and p is not stop:
        out.append(p)
        p = mod.parents.get(p)
    return out


def run(ctx: Any, prog: Program) -> None:
    vm = prog.module('vmf')
    res = KeyResolver(vm, Folder(prog, vm))
    ctx.not_decided += ['equality of the re-parsed object graph for all maps', 'second-export fixed point (sorted()/set iteration orderings)',
                        'numeric closeness beyond the formatting class of each slot', 'Output.parse/as_keyvalue field splitting on separators inside parameters']
    ctx.assumptions += ['C01/C02 for the KeyValues text layer (quoted strings with escapes)']
    ctx.rule('C06.V1', 'writer and reader of each VMF object agree on the literal keys and block names', floor=100)
    ctx.rule('C06.V9', 'displacement sub-blocks are written inside the dispinfo block, where the parser looks for them', floor=8)
    ctx.rule('C06.V10', 'replaceNN: the parser reads the whole index the exporter writes (variable width)', floor=1)
    ctx.rule('C06.V11', 'Strata 2D viewports: the +-65536 axis marker takes precedence over zero coordinates when the axis is recovered', floor=1)
    ctx.rule('C06.V12', 'VMF.parse reads visible and hidden entities in one pass over the document (order preserved)', floor=1)
    ctx.rule('C06.V13', 'objects read from a hidden{} wrapper are built hidden, all others visible (the writer wraps exactly the hidden ones)', floor=3)
    ctx.rule('C06.V14', 'the active camera number is 1-based everywhere it is compared with the number of cameras', floor=2)
    v9_to_v14(ctx, vm)
    v15_editor_keys(ctx, vm)
    ctx.rule('C06.V2', 'str-typed values written inside quotes are passed through escape_text', floor=12)
    ctx.rule('C06.V3', 'significant-digit float formatting only on the fields the property allows (rotation, delay, Vec4)', floor=3)
    ctx.rule('C06.V4', 'displacement row blocks: written tokens per row equal what the reader demands', floor=10)
    ctx.rule('C06.V6', 'world brushes are exported with their group/visgroup membership (include_groups is true for worldspawn)', floor=1)
    ctx.rule('C06.V7', 'composite values ending in free text are split by the reader on exactly the separator the writer inserts, with maxsplit = fields - 1', floor=2)
    ctx.rule('C06.V8', 'displacement rows: reader and writer address vertex (x, y) of a row block as index size*y + x', floor=8)
    ctx.rule('C06.V5', 'IDs read from the file are passed to the constructors; preserve_ids selects the pass-through manager', floor=6)

    # ---- V16: setters / callbacks made in a loop (the displacement row tables are built this way) ----------------------------------
    ctx.rule('C06.V16', 'functions created in a loop bind the loop value at creation (factory or default argument), not when they are called', floor=1)
    probe = ast.parse('def make():\n    for ind in range(4):\n        def setter(v, value):\n            v.multi[ind] = value\n        yield setter\n')
    ctx.check('C06.V16', len(late_bound_closures(probe)) == 1, vm, vm.tree, 'self-check of the detector on a known late-binding closure', func='<detector>', text='late-binding probe is recognised')
    for fn_, var_, lp_ in late_bound_closures(vm.tree):
        nm = getattr(fn_, 'name', '<lambda>')
        ctx.check('C06.V16', False, vm, fn_, f'`{nm}` is created inside `for {U(lp_.target)} in ...` and reads `{var_}` when it is called, not when it is created: every function made by the loop uses the value of the '
                  f'LAST iteration (all four multiblend setters would store into the same colour slot)', text=f'{nm}: loop variable {var_} bound late')
    # ---- V17: scalar displacement rows have one spelling per value ------------------------------------------------------------------
    # DispVertex.distance / .alpha are annotated float but accept ints (default `distance = 0`); the parser always yields floats.  A writer
    # that prints `str(member)` writes "5" for the user's int and "5.0" after a re-parse: the second export differs from the first.
    ctx.rule('C06.V17', 'scalar displacement members are written through float()/format_float so that an int and the float it re-parses to give the same text', floor=2)
    rs = vm.func('Side._export_disp_rowset')
    dv_fields = field_types(vm, 'DispVertex')
    scalar_members = []
    for c in ast.walk(vm.func('Side._export_displacement')):
        if isinstance(c, ast.Call) and dotted(c.func) == 'self._export_disp_rowset' and len(c.args) >= 2 and isinstance(c.args[1], ast.Constant):
            ann = dv_fields.get(c.args[1].value, '')
            if re.fullmatch(r'(float|int|Union\[int, float\]|Union\[float, int\])', (ann or '').replace("'", '').strip()):
                scalar_members.append(c.args[1].value)
    if len(scalar_members) < 2:
        raise AnalysisError(f'V17: scalar members written by _export_disp_rowset not found ({scalar_members}); distance and alpha confirmed by hand')
    strs = [c for c in ast.walk(rs) if isinstance(c, ast.Call) and dotted(c.func) in ('str', 'format_float', 'repr', 'format') and c.args]
    if not strs:
        # the per-value text may be produced by a module-level helper applied to getattr(vert, member)
        hcalls = [c for c in ast.walk(rs) if isinstance(c, ast.Call) and isinstance(c.func, ast.Name) and vm.has_func(c.func.id) and len(c.args) == 1
                  and isinstance(c.args[0], ast.Call) and dotted(c.args[0].func) == 'getattr']
        if len(hcalls) == 1:
            rs = vm.func(hcalls[0].func.id)
            strs = [c for c in ast.walk(rs) if isinstance(c, ast.Call) and dotted(c.func) in ('str', 'format_float', 'repr', 'format') and c.args]
    ctx.shape('C06.V17', len(strs) == 1, vm, rs, '_export_disp_rowset stringifies each member with one call', func='Side._export_disp_rowset', text='row set stringification')
    if len(strs) == 1:
        call = strs[0]
        arg = call.args[0]
        normalised = dotted(call.func) == 'format_float' or (isinstance(arg, ast.Call) and dotted(arg.func) in ('float', 'format_float'))
        if not normalised and isinstance(arg, ast.Name):
            # `if isinstance(value, int): value = float(value)` in front of the str()
            normalised = any(isinstance(i, ast.If) and isinstance(i.test, ast.Call) and dotted(i.test.func) == 'isinstance' and dotted(i.test.args[0]) == arg.id and 'int' in U(i.test.args[1])
                             and any(isinstance(a, ast.Assign) and dotted(a.targets[0]) == arg.id and isinstance(a.value, ast.Call) and dotted(a.value.func) == 'float' for a in i.body) for i in ast.walk(rs))
        if not normalised and isinstance(arg, ast.IfExp):
            normalised = 'float(' in U(arg) and 'isinstance' in U(arg.test)
        for m_ in scalar_members:
            ctx.check('C06.V17', normalised, vm, call, f'DispVertex.{m_} is written as `{U(call)[:50]}`: an int assigned through the API (the default distance is the int 0) is written as "0" but re-parsed as the float 0.0 '
                      'and written as "0.0" the next time - exporting, parsing and exporting again does not reproduce the text', func='Side._export_disp_rowset', text=f'row member {m_} has one spelling')
    # ---- V19: a number read from the file is stored as read --------------------------------------------------------------------------
    # `float(text) or 0.25` replaces the representable value 0 by something else: the writer emitted "0", the reader returns 0.25.
    ctx.rule('C06.V19', 'parsers store a converted number as it is: no `<conversion> or <fallback>` that replaces a parsed zero', floor=25)
    NUM_CONV = {'float', 'int', 'conv_float', 'conv_int', 'srctools.conv_float', 'srctools.conv_int'}

    def zero_replaced(fn_node: ast.AST) -> List[ast.BoolOp]:
        out_ = []
        for b in ast.walk(fn_node):
            if isinstance(b, ast.BoolOp) and isinstance(b.op, ast.Or) and isinstance(b.values[0], ast.Call) and dotted(b.values[0].func) in NUM_CONV:
                if any(not (isinstance(v, ast.Constant) and v.value in (0, 0.0)) for v in b.values[1:]):
                    out_.append(b)
        return out_
    probe19 = ast.parse("def parse(vals):\n    return dict(scale=float(vals[4]) or 0.25, offset=float(vals[3]))").body[0]
    if len(zero_replaced(probe19)) != 1:
        raise AnalysisError('V19: the detector does not fire on its built-in positive example')
    n19 = 0
    for qual19, fn19 in [(q_, f_) for q_, fl_ in vm.all_funcs().items() for f_ in fl_]:
        short = qual19.split('.')[-1]
        if not (short == 'parse' or short.startswith(('_parse', 'parse_'))):
            continue
        convs = [c for c in ast.walk(fn19) if isinstance(c, ast.Call) and dotted(c.func) in NUM_CONV]
        bad19 = zero_replaced(fn19)
        for c in convs:
            n19 += 1
            hit = next((b for b in bad19 if b.values[0] is c), None)
            ctx.check('C06.V19', hit is None, vm, c, f'{qual19} stores `{U(hit)[:60] if hit is not None else ""}`: a zero in the file (which the writer produces for a zero in memory) comes back as the fallback value instead',
                      func=qual19, text=f'{qual19}: {U(c)[:40]} stored as read')
    # ---- V20: what the exporters walk is written completely ----------------------------------------------------------------------------
    ctx.rule('C06.V20', 'every collection an exporter walks is written completely: the export call on the loop element is not under a test on that element', floor=9)
    for qual20, fn20 in [(q_, f_) for q_, fl_ in vm.all_funcs().items() for f_ in fl_]:
        for lp20 in [l for l in walk_no_nested(fn20) if isinstance(l, ast.For) and isinstance(l.target, ast.Name)]:
            for c in ast.walk(lp20):
                if isinstance(c, ast.Call) and isinstance(c.func, ast.Attribute) and c.func.attr.startswith('export') and isinstance(c.func.value, ast.Name) and c.func.value.id == lp20.target.id:
                    conds = []
                    p20 = vm.parents.get(c)
                    while p20 is not None and p20 is not lp20:
                        if isinstance(p20, ast.If) and any(isinstance(x, ast.Name) and x.id == lp20.target.id for x in ast.walk(p20.test)):
                            conds.append(p20)
                        p20 = vm.parents.get(p20)
                    skips = [i for i in lp20.body if isinstance(i, ast.If) and any(isinstance(x, ast.Continue) for x in i.body) and any(isinstance(x, ast.Name) and x.id == lp20.target.id for x in ast.walk(i.test))
                             and i.lineno < c.lineno]
                    filt = conds + skips
                    ctx.check('C06.V20', not filt, vm, filt[0] if filt else c, f'{qual20}: elements of `{U(lp20.iter)[:40]}` are written only when `{U(filt[0].test)[:60] if filt else ""}`: the others are missing from the file '
                              '(and from the map read back), although they are part of the object graph', func=qual20, text=f'{qual20}: all of {U(lp20.iter)[:40]} written')
    # ---- V24: a parser hands the values on as they were read -------------------------------------------------------------------------------
    # what `tree.vec(..)`, `tree.int(..)`, `tree[key]` return is what the file says; export() writes fields verbatim.  A "defensive"
    # normalisation between the read and the constructor (Vec.bbox on the two cordon corners, a case-fold of a material name, a value
    # replaced by a memoised equal-ish one) means parse(export(x)) is not x.  A module-level container that parse writes to makes the result
    # depend on what was parsed earlier in the process as well.
    ctx.rule('C06.V24', 'parsers do not normalise, fold or memoise the values they read', floor=1)
    NORM24 = {'Vec.bbox', 'sorted', 'min', 'max', 'abs', 'round', 'sys.intern'} - {'sys.intern'}
    NORM24_M = {'casefold', 'lower', 'upper', 'strip', 'lstrip', 'rstrip', 'title', 'swapcase', 'replace', 'expandtabs', 'translate'}
    READS24 = {'vec', 'int', 'float', 'bool', 'find_key', 'find_block', 'find_all'}
    mod_containers = {t.id for st in vm.tree.body if isinstance(st, (ast.Assign, ast.AnnAssign)) and st.value is not None and isinstance(st.value, (ast.Dict, ast.List, ast.Set))
                      for t in (st.targets if isinstance(st, ast.Assign) else [st.target]) if isinstance(t, ast.Name)}
    n24 = 0
    for q24, fl24 in vm.all_funcs().items():
        if not (q24.endswith('.parse') or '._parse' in q24):
            continue
        for f24 in fl24:
            params24 = [a.arg for a in f24.args.args]

            def direct24(e: ast.AST) -> bool:
                return any((isinstance(c, ast.Call) and isinstance(c.func, ast.Attribute) and c.func.attr in READS24 and isinstance(c.func.value, ast.Name))
                           or (isinstance(c, ast.Subscript) and isinstance(c.value, ast.Name) and c.value.id in params24 and isinstance(c.ctx, ast.Load)) for c in ast.walk(e))
            rl24 = {t.id for a in walk_no_nested(f24) if isinstance(a, ast.Assign) and direct24(a.value) for t in a.targets if isinstance(t, ast.Name)}

            def is_read24(e: ast.AST) -> bool:
                return direct24(e) or any(isinstance(x, ast.Name) and x.id in rl24 for x in ast.walk(e))
            n24 += 1
            for c in walk_no_nested(f24):
                if not isinstance(c, ast.Call):
                    continue
                d24 = dotted(c.func) or ''
                if d24 in NORM24 and any(is_read24(a) for a in c.args):
                    ctx.check('C06.V24', False, vm, c, f'{q24} passes what it read through `{U(c)[:60]}`: the value in the file is changed on the way in, so a value that export() wrote (the two corners of a cordon in any order) '
                              'comes back different', func=q24, text=f'{q24}: `{U(c)[:40]}` on a parsed value')
                if isinstance(c.func, ast.Attribute) and c.func.attr in NORM24_M and (is_read24(c.func.value) or (isinstance(c.func.value, ast.Attribute) and c.func.value.attr == 'value' and isinstance(c.func.value.value, ast.Name))):
                    ctx.check('C06.V24', False, vm, c, f'{q24} folds / trims a string it read (`{U(c)[:60]}`): the exact spelling in the file is what export() wrote', func=q24, text=f'{q24}: `{U(c)[:40]}` on a parsed value')
                if isinstance(c.func, ast.Attribute) and isinstance(c.func.value, ast.Name) and c.func.value.id in mod_containers and c.func.attr in ('setdefault', 'append', 'add', 'update', 'pop', 'insert', 'extend'):
                    ctx.check('C06.V24', False, vm, c, f'{q24} writes to the module-level container `{c.func.value.id}` (`{U(c)[:60]}`): what a later parse returns then depends on what was parsed before in the same process',
                              func=q24, text=f'{q24}: no module-level state')
    # ... and in the order they were read: the lists a parser fills while it walks the file go to the constructor as they are.  Two lists filled in
    # the same walk and glued together afterwards (`solids + hidden_solids`) move every item of the second behind the first - the exporter
    # writes list order, so the file no longer re-parses to the same order
    for q24, fl24 in vm.all_funcs().items():
        if not (q24.endswith('.parse') or '._parse' in q24):
            continue
        for f24 in fl24:
            filled = {c.func.value.id for c in walk_no_nested(f24) if isinstance(c, ast.Call) and isinstance(c.func, ast.Attribute) and c.func.attr == 'append' and isinstance(c.func.value, ast.Name)
                      and any(isinstance(l_, (ast.For, ast.While)) for l_ in _anc06(vm, c, f24))}
            for b24 in walk_no_nested(f24):
                if isinstance(b24, ast.BinOp) and isinstance(b24.op, ast.Add) and isinstance(b24.left, ast.Name) and isinstance(b24.right, ast.Name) and b24.left.id in filled and b24.right.id in filled and b24.left.id != b24.right.id:
                    ctx.check('C06.V24', False, vm, b24, f'{q24} builds a collection as `{U(b24)}` from two lists filled during the same walk of the file: the items of `{b24.right.id}` all come after those of `{b24.left.id}`, '
                              'whatever order the file had them in - export() writes list order, so the second export differs from the first', func=q24, text=f'{q24}: parsed items keep file order')
    ctx.shape('C06.V24', n24 >= 8, vm, vm.tree, f'{n24} parse functions examined in vmf.py (8 confirmed by hand)', func='<module>', text='parse functions examined')

    # ---- V23: numbered items are put in order as numbers -------------------------------------------------------------------------------------
    # `sorted()` over a table keyed by index *strings* is lexicographic: '10' comes before '2'.  A reader that collects `"<index> <value>"`
    # items under the text of the index (a key it also checks with isdecimal()/isdigit() or converts with int() elsewhere) and then sorts the
    # table returns a permutation of what was written as soon as there are more than ten items.
    ctx.rule('C06.V23', 'a reader never orders numbered items by the text of their index', floor=1)
    n23 = 0
    for q23, fl23 in vm.all_funcs().items():
        for f23 in fl23:
            numeric_text = {c.func.value.id for c in walk_no_nested(f23) if isinstance(c, ast.Call) and isinstance(c.func, ast.Attribute) and c.func.attr in ('isdecimal', 'isdigit', 'isnumeric') and isinstance(c.func.value, ast.Name)}
            numeric_text |= {c.args[0].id for c in walk_no_nested(f23) if isinstance(c, ast.Call) and dotted(c.func) == 'int' and len(c.args) == 1 and isinstance(c.args[0], ast.Name)}
            if not numeric_text:
                continue
            keyed = {t.value.id: t.slice.id for a in walk_no_nested(f23) if isinstance(a, ast.Assign) for t in a.targets
                     if isinstance(t, ast.Subscript) and isinstance(t.value, ast.Name) and isinstance(t.slice, ast.Name) and t.slice.id in numeric_text}
            # a key that was converted (`ind = int(ind_str)` ... `tbl[ind]`) is a different name, so `keyed` holds text keys only
            for c in walk_no_nested(f23):
                if isinstance(c, ast.Call) and dotted(c.func) in ('sorted', 'min', 'max') and c.args and not any(k.arg == 'key' for k in c.keywords):
                    a0 = c.args[0]
                    base = a0.func.value if isinstance(a0, ast.Call) and isinstance(a0.func, ast.Attribute) and a0.func.attr in ('items', 'keys') else a0
                    if isinstance(base, ast.Name) and base.id in keyed:
                        n23 += 1
                        ctx.check('C06.V23', False, vm, c, f'{q23} orders `{base.id}` with `{U(c)[:50]}`, and its keys are the index *text* `{keyed[base.id]}`: with more than ten items \'10\' sorts before \'2\', so the items '
                                  'come back in another order than they were written', func=q23, text=f'{q23}: `{base.id}` ordered numerically')
    ctx.check('C06.V23', True, vm, vm.tree, f'{n23} orderings by index text found', func='<module>', text='orderings of tables keyed by index text examined')

    # ---- V26: row readers store every row they are handed ------------------------------------------------------------------------------------
    # `for y, split in self._iter_disp_row(...)`: the exporter writes one row per y for every block, and what a row "would have been anyway"
    # depends on the block (the colour layers start at 1 1 1, the vector arrays at 0 0 0).  A `continue` decided by the content of the row
    # skips the store for rows the shared reader believes to be defaults.
    ctx.rule('C06.V26', 'the displacement row readers skip no row because of what it contains', floor=2)
    n26 = 0
    for q26 in ('Side._parse_disp_vecrow', 'Side._parse_displacement_data'):
        f26 = vm.func(q26)
        for lp in walk_no_nested(f26):
            if not (isinstance(lp, ast.For) and isinstance(lp.iter, ast.Call) and dotted(lp.iter.func) == 'self._iter_disp_row' and isinstance(lp.target, ast.Tuple) and len(lp.target.elts) == 2
                    and isinstance(lp.target.elts[1], ast.Name)):
                continue
            n26 += 1
            rowvar = lp.target.elts[1].id
            skips = [i for i in ast.walk(lp) if isinstance(i, ast.If) and any(isinstance(x, ast.Continue) for b in i.body for x in ast.walk(b)) and any(isinstance(x, ast.Name) and x.id == rowvar for x in ast.walk(i.test))]
            ctx.check('C06.V26', not skips, vm, skips[0] if skips else lp, f'{q26} skips a row when `{U(skips[0].test)[:60] if skips else ""}`: whether an unstored row equals what the vertexes already hold depends on the block being read '
                      '(the multiblend colours are pre-filled with 1 1 1, so an exported `0 0 0` row comes back as white)', func=q26, text=f'{q26}: rows of {U(lp.iter.args[1])[:30] if len(lp.iter.args) > 1 else "?"} all stored')
    ctx.shape('C06.V26', n26 >= 2, vm, vm.tree, f'{n26} row loops over _iter_disp_row found (vector rows and the scalar / colour blocks confirmed by hand)', text='row loops')
    # ---- V27: the fixup table is written under the names the user gave ----------------------------------------------------------------------
    # EntityFixup._fixup is keyed by the CASE-FOLDED variable name (the lookups fold); the spelling lives in FixupValue.var.  The exporter has to
    # write the latter: the key gives `$connection_count` for `$Connection_Count`.
    ctx.rule('C06.V27', 'EntityFixup.export writes FixupValue.var, not the case-folded key of the table', floor=1)
    fx = vm.func('EntityFixup.export')
    folded_keys = any(isinstance(a, ast.Assign) and isinstance(a.targets[0], ast.Subscript) and dotted(a.targets[0].value) == 'self._fixup' and 'casefold' in U(a.targets[0].slice) for a in ast.walk(vm.cls('EntityFixup')))
    ctx.shape('C06.V27', folded_keys, vm, vm.cls('EntityFixup'), 'EntityFixup stores its values under case-folded keys', func='EntityFixup', text='fixup table keyed by folded name')
    keyvars = set()
    for lp in ast.walk(fx):
        if isinstance(lp, ast.For) and isinstance(lp.target, ast.Tuple) and lp.target.elts and isinstance(lp.target.elts[0], ast.Name) and any(isinstance(c, ast.Call) and isinstance(c.func, ast.Attribute) and c.func.attr == 'items'
                                                                                                                                                  and dotted(c.func.value) == 'self._fixup' for c in ast.walk(lp.iter)):
            keyvars.add(lp.target.elts[0].id)
    written_keys = [x for c in ast.walk(fx) if isinstance(c, ast.Call) and isinstance(c.func, ast.Attribute) and c.func.attr == 'write' for x in ast.walk(c) if isinstance(x, ast.Name) and x.id in keyvars]
    ctx.check('C06.V27', not written_keys, vm, written_keys[0] if written_keys else fx, f'EntityFixup.export writes `{written_keys[0].id if written_keys else ""}`, the key of self._fixup: that is the case-folded name, the spelling the map was '
              'given (`$Connection_Count`) is in FixupValue.var and is lost on export', func='EntityFixup.export', text='fixup names written as given')

    # ---- V25: the collision code of a displacement is decoded by the table that encodes it --------------------------------------------------
    # Both directions are module tables (`_DISP_COLL_TO_FLAG[flags & COLL_ALL]` written, `_DISP_FLAG_TO_COLL[int]` read): folded, the reader's
    # table applied to the writer's code has to give the combination back, for all eight combinations.
    ctx.rule('C06.V25', 'displacement collision flags: the code the exporter writes for a combination is read back as that combination', floor=8)
    from engine.fold import Folder as _Folder25, FoldError as _FoldError25
    try:
        f25 = _Folder25(prog, vm)
        to_coll, to_flag = f25.global_('_DISP_FLAG_TO_COLL'), f25.global_('_DISP_COLL_TO_FLAG')
    except (_FoldError25, AnalysisError) as exc:
        raise AnalysisError(f'V25: displacement flag tables could not be folded: {exc}') from exc
    if not isinstance(to_coll, list) or not isinstance(to_flag, dict):
        raise AnalysisError('V25: _DISP_FLAG_TO_COLL / _DISP_COLL_TO_FLAG are not a list and a dict')
    ed25, pd25 = vm.func('Side._export_displacement'), vm.func('Side._parse_displacement_data')
    w_use = [x for x in ast.walk(ed25) if isinstance(x, ast.Subscript) and dotted(x.value) == '_DISP_COLL_TO_FLAG']
    r_use = [x for x in ast.walk(pd25) if isinstance(x, ast.Subscript) and dotted(x.value) == '_DISP_FLAG_TO_COLL']
    ctx.shape('C06.V25', len(w_use) == 1 and len(r_use) == 1 and 'DispFlag.COLL_ALL' in U(w_use[0].slice), vm, ed25, 'the exporter indexes _DISP_COLL_TO_FLAG with the collision bits, the parser indexes _DISP_FLAG_TO_COLL with the number read',
              func='Side._export_displacement', text='collision tables used by exporter and parser')
    unwrap25 = lambda v: getattr(v, 'value', v)          # noqa: E731
    combos = sorted({unwrap25(v) for v in to_coll})
    tf = {unwrap25(k): v for k, v in to_flag.items()}
    node25 = vm.global_assign('_DISP_COLL_TO_FLAG')
    for c25 in combos:
        code = tf.get(c25)
        back = unwrap25(to_coll[code]) if isinstance(code, int) and 0 <= code < len(to_coll) else None
        ctx.check('C06.V25', back == c25, vm, node25, f'collision combination {c25} is written as "flags" "{code}", which the parser turns into combination {back}'
                  + (' (no entry: KeyError on export)' if code is None else ''), func='<module>', text=f'collision combination {c25} round trip')

    # ---- V22: an optional per-vertex block is written whenever any of the values it carries is set ------------------------------------------
    # `if any(<test on vert> for vert in self._disp_verts): <write blocks from vert.a, vert.b, ...>`: when the block is absent the reader leaves
    # every one of those fields at its default, so the test has to look at every field the block carries - a value set in a field it does not
    # look at is dropped together with the block.
    # ---- V28: a flag key carries its own field ------------------------------------------------------------------------------------------------
    # `"visgroupshown" "{bool_as_int(self.vis_shown)}"`: the parser stores each flag key into its own field.  A writer that computes the flag
    # from several fields (`self.vis_shown and not (self.hidden and self.visgroup_ids)`) changes the field for some combination of the others.
    ctx.rule('C06.V28', 'a flag written with bool_as_int() is one field of the object, not a combination of several', floor=6)
    n28 = 0
    for q28, fl28 in vm.all_funcs().items():
        for f28 in fl28:
            ldefs: Dict[str, List[ast.AST]] = {}
            for a in walk_no_nested(f28):
                if isinstance(a, ast.Assign):
                    for t in a.targets:
                        if isinstance(t, ast.Name):
                            ldefs.setdefault(t.id, []).append(a.value)
            for c28 in [c for c in ast.walk(f28) if isinstance(c, ast.Call) and (dotted(c.func) or '').split('.')[-1] == 'bool_as_int' and len(c.args) == 1]:
                fields28: Set[str] = set()
                todo28, seen28 = [c28.args[0]], set()
                while todo28:
                    e = todo28.pop()
                    for x in ast.walk(e):
                        if isinstance(x, ast.Attribute) and isinstance(x.value, ast.Name) and x.value.id == 'self':
                            fields28.add(x.attr)
                        elif isinstance(x, ast.Name) and x.id in ldefs and x.id not in seen28:
                            seen28.add(x.id)
                            todo28 += ldefs[x.id]
                n28 += 1
                ctx.check('C06.V28', len(fields28) <= 1, vm, c28, f'{q28} writes `{U(c28)[:50]}`, computed from the fields {sorted(fields28)}: the parser stores this key into one field, so for some values of the other '
                          'fields the object read back has another flag than the one exported', func=q28, text=f'{q28}: `{U(c28)[:40]}` is one field')
    ctx.shape('C06.V28', n28 >= 6, vm, vm.tree, f'{n28} bool_as_int() writes found in vmf.py', text='flag writes')
    # ---- V29: the group table holds what the file defines -----------------------------------------------------------------------------------
    # `group {}` blocks are parsed into VMF.groups; brushes and entities only carry group *ids*.  A parser that invents a group because an id
    # refers to one it has not seen (the world's group blocks follow its brushes) reserves that id, so the real block is renumbered or ordered
    # differently, and the export has groups the file never had.
    ctx.rule('C06.V29', 'entries of VMF.groups made while parsing come from EntityGroup.parse of a group block', floor=1)
    n29 = 0
    for q29, fl29 in vm.all_funcs().items():
        if 'parse' not in q29.split('.')[-1]:
            continue
        for f29 in fl29:
            ld29 = {t.id: a.value for a in walk_no_nested(f29) if isinstance(a, ast.Assign) and len(a.targets) == 1 for t in a.targets if isinstance(t, ast.Name)}
            stores29 = [(a, a.value) for a in walk_no_nested(f29) if isinstance(a, ast.Assign) for t in a.targets if isinstance(t, ast.Subscript) and isinstance(t.value, ast.Attribute) and t.value.attr == 'groups']
            stores29 += [(c, c.args[-1]) for c in walk_no_nested(f29) if isinstance(c, ast.Call) and isinstance(c.func, ast.Attribute) and c.func.attr == 'setdefault' and isinstance(c.func.value, ast.Attribute)
                         and c.func.value.attr == 'groups' and len(c.args) == 2]
            for node29, v29 in stores29:
                src29 = ld29.get(v29.id, v29) if isinstance(v29, ast.Name) else v29
                n29 += 1
                ok29 = isinstance(src29, ast.Call) and (dotted(src29.func) or '').endswith('EntityGroup.parse')
                ctx.check('C06.V29', ok29, vm, node29, f'{q29} puts `{U(src29)[:50]}` into the map\'s group table while parsing: only `group` blocks define groups - a made-up entry takes the id (and the place in the export '
                          'order) of the block that defines it later in the file', func=q29, text=f'{q29}: group table entry comes from a group block')
    ctx.shape('C06.V29', n29 >= 1, vm, vm.tree, 'no store into VMF.groups found in the parse functions (Entity.parse confirmed by hand)', text='group table stores')
    # ---- V30: settings read from the file are kept when they are 0 / False ---------------------------------------------------------------------
    # VMF.parse hands the view and version settings of the file to VMF.__init__ as keyword arguments, which go through `_mapinfo_int/_bool`.
    # `return value or default` there replaces a 0 or False read from the file by the (truthy) default: `bSnapToGrid 0` comes back as 1.
    ctx.rule('C06.V30', 'a numeric or boolean setting passed to the VMF constructor is only replaced by its default when it is None', floor=2)
    n30 = 0
    for q30, fl30 in vm.all_funcs().items():
        if '.' in q30 or not q30.startswith('_mapinfo'):
            continue
        for f30 in fl30:
            n30 += 1
            prm30 = {a.arg for a in f30.args.args}
            ors = [b for b in ast.walk(f30) if isinstance(b, ast.BoolOp) and isinstance(b.op, ast.Or) and isinstance(b.values[0], ast.Name) and b.values[0].id in prm30]
            ctx.check('C06.V30', not ors, vm, ors[0] if ors else f30, f'{q30} computes `{U(ors[0])[:40] if ors else ""}`: a setting of 0 or False given by the caller (the value VMF.parse read from the file) is falsy and is replaced '
                      'by the default - the parsed map has another value than the file, and exporting it changes the text', func=q30, text=f'{q30}: a given 0 / False is kept')
    ctx.shape('C06.V30', n30 >= 2, vm, vm.tree, f'{n30} _mapinfo_* helpers found in vmf.py (_mapinfo_int and _mapinfo_bool confirmed by hand)', text='setting helpers')
    # ---- V31: the visgroup tree is written whatever the options ------------------------------------------------------------------------------------
    # brushes and entities carry visgroup *ids*; the names, colours and nesting live in the `visgroups` block.  `minimal=True` leaves out the
    # view settings, cameras and cordons - not the tree, without which the ids of the re-read map refer to nothing.
    ctx.rule('C06.V31', 'VMF.export writes the visgroups block unconditionally', floor=1)
    vex = vm.func('VMF.export')
    visw = [c for c in ast.walk(vex) if isinstance(c, ast.Call) and isinstance(c.func, ast.Attribute) and c.func.attr == 'write' and c.args and isinstance(c.args[0], ast.Constant) and isinstance(c.args[0].value, str)
            and c.args[0].value.startswith('visgroups')]
    ctx.shape('C06.V31', len(visw) == 1, vm, vex, 'the write that opens the visgroups block was not found once in VMF.export', func='VMF.export', text='visgroups block written')
    for w31 in visw:
        conds = [a for a in _anc06(vm, w31, vex) if isinstance(a, (ast.If, ast.IfExp))]
        ctx.check('C06.V31', not conds, vm, w31, f'VMF.export writes the visgroups block only when `{U(conds[0].test)[:40] if conds else ""}`: with that option the visgroup names, colours and nesting are not in the file while '
                  'brushes and entities still carry their visgroup ids - the re-read map has an empty tree', func='VMF.export', text='visgroups block written unconditionally')
    # ---- V32: a group's keys are read from the block they are written in ------------------------------------------------------------------------
    # EntityGroup.export writes `id` in the group block and the three display keys inside its `editor` block; parse reads each key from the
    # block it was written to (a key looked up one level too high is simply not found, and the default takes its place).
    ctx.rule('C06.V32', 'EntityGroup.parse reads every key from the block EntityGroup.export writes it in', floor=4)
    ge, gp = vm.func('EntityGroup.export'), vm.func('EntityGroup.parse')
    consts32 = sorted([c for c in ast.walk(ge) if isinstance(c, ast.Constant) and isinstance(c.value, str)], key=lambda c: (c.lineno, c.col_offset))
    where32: Dict[str, str] = {}
    in_editor = False
    for c in consts32:
        if re.search(r'\beditor\b', c.value) and '"' not in c.value:
            in_editor = True
        for k in re.findall(r'"([a-z_]+)" "', c.value):
            where32[k] = 'editor' if in_editor else 'group'
    ed_locals = {t.id for a in ast.walk(gp) if isinstance(a, ast.Assign) and isinstance(a.value, ast.Call) and isinstance(a.value.func, ast.Attribute) and a.value.func.attr in ('find_block', 'find_key')
                 and a.value.args and isinstance(a.value.args[0], ast.Constant) and a.value.args[0].value == 'editor' for t in a.targets if isinstance(t, ast.Name)}
    top_param = gp.args.args[-1].arg
    n32 = 0
    for c in [c for c in ast.walk(gp) if isinstance(c, ast.Call) and isinstance(c.func, ast.Attribute) and isinstance(c.func.value, ast.Name) and c.args and isinstance(c.args[0], ast.Constant) and isinstance(c.args[0].value, str)
              and c.func.attr in ('int', 'bool', 'vec', 'float', '__getitem__', 'find_key')]:
        key, recv = c.args[0].value, c.func.value.id
        if key not in where32:
            continue
        got = 'editor' if recv in ed_locals else ('group' if recv == top_param else None)
        if got is None:
            ctx.shape('C06.V32', False, vm, c, f'EntityGroup.parse reads `{key}` from `{recv}`, which is neither the group block nor its editor block', func='EntityGroup.parse', text=f'group key {key} read where it is written')
            continue
        n32 += 1
        ctx.check('C06.V32', got == where32[key], vm, c, f'EntityGroup.parse reads `{key}` from the {got} block, EntityGroup.export writes it in the {where32[key]} block: the key is never found and the group comes back with '
                  'the default (a coloured group turns white)', func='EntityGroup.parse', text=f'group key {key} read where it is written')
    ctx.shape('C06.V32', n32 >= 4, vm, gp, f'{n32} keyed reads found in EntityGroup.parse (id, visgroupshown, visgroupautoshown, color)', func='EntityGroup.parse', text='group keys')
    # ---- V33: a face may carry a displacement AND Strata point data ------------------------------------------------------------------------------
    # Side.export writes the `dispinfo` block and the `point_data` block independently; Side.parse must look for both, not for one or the other
    sp33 = vm.func('Side.parse')
    ifs33 = [i for i in ast.walk(sp33) if isinstance(i, ast.If)]
    def _mentions(i: ast.If, w: str) -> bool:
        return any(isinstance(c, ast.Constant) and c.value == w for c in ast.walk(i.test))
    for i33 in [i for i in ifs33 if _mentions(i, 'dispinfo')]:
        nested33 = [j for j in ifs33 if _mentions(j, 'point_data') and any(j is x for st in i33.orelse for x in ast.walk(st))]
        ctx.check('C06.V4', not nested33, vm, nested33[0] if nested33 else i33, 'Side.parse looks for the `point_data` block only when the face has no `dispinfo` block (an elif): Side.export writes both for a displacement face '
                  'with Strata points, so the points are lost on re-parse', func='Side.parse', text='dispinfo and point_data are read independently')
    ctx.rule('C06.V22', 'the presence test of an optional per-vertex block looks at every per-vertex field the block carries', floor=1)
    ed22 = vm.func('Side._export_displacement')
    n22 = 0
    for if22 in [n for n in walk_no_nested(ed22) if isinstance(n, ast.If)]:
        gens = [g for g in ast.walk(if22.test) if isinstance(g, ast.GeneratorExp) and len(g.generators) == 1 and isinstance(g.generators[0].target, ast.Name)
                and isinstance(g.generators[0].iter, ast.Attribute) and g.generators[0].iter.attr == '_disp_verts']
        if not gens:
            continue
        gv = gens[0].generators[0].target.id
        tested = {a.attr for a in ast.walk(gens[0].elt) if isinstance(a, ast.Attribute) and isinstance(a.value, ast.Name) and a.value.id == gv}
        carried: Set[str] = set()
        for b in if22.body:
            for c in ast.walk(b):
                if isinstance(c, ast.Call) and isinstance(c.func, ast.Attribute) and c.func.attr.startswith('_export_') and len(c.args) >= 2 and isinstance(c.args[1], ast.Constant) and isinstance(c.args[1].value, str):
                    carried.add(c.args[1].value)
                if isinstance(c, (ast.ListComp, ast.GeneratorExp)) and len(c.generators) == 1 and isinstance(c.generators[0].target, ast.Name):
                    lv = c.generators[0].target.id
                    carried |= {a.attr for a in ast.walk(c.elt) if isinstance(a, ast.Attribute) and isinstance(a.value, ast.Name) and a.value.id == lv}
                if isinstance(c, ast.For) and isinstance(c.target, ast.Name) and isinstance(c.iter, ast.Attribute) and c.iter.attr == '_disp_verts':
                    carried |= {a.attr for x in c.body for a in ast.walk(x) if isinstance(a, ast.Attribute) and isinstance(a.value, ast.Name) and a.value.id == c.target.id}
        if not carried:
            continue
        n22 += 1
        missing = sorted(carried - tested)
        ctx.check('C06.V22', not missing, vm, if22, f'the block written under `{U(if22.test)[:80]}` carries the per-vertex fields {sorted(carried)}, but the test only looks at {sorted(tested)}: a displacement whose '
                  f'{missing} are set while {sorted(tested)} are at their defaults is exported without the block, and the values are gone after re-reading', func='Side._export_displacement', text='multiblend block written when any carried field is set')
    ctx.shape('C06.V22', n22 >= 1, vm, ed22, 'no optional per-vertex block found in Side._export_displacement (the multiblend block confirmed by hand)', func='Side._export_displacement', text='optional per-vertex blocks')

    # ---- V21: a key the writer emits once per element is read by iteration --------------------------------------------------------------
    # `"visgroupid" "<id>"` is written in a loop over the memberships.  The Keyvalues single-value accessors (tree.int(key), tree[key],
    # find_key) return ONE occurrence (the last); only a loop over the children / find_all(key) sees all of them.
    ctx.rule('C06.V21', 'keys written once per element of a collection are read by iterating the block, not with a single-value accessor', floor=2)
    SINGLE_ACCESS = {'int', 'float', 'bool', 'vec', 'find_key', 'find_block'}
    n21 = 0
    for cls21 in ('Solid', 'Entity', 'Side', 'VisGroup', 'EntityGroup'):
        if not (vm.has_func(f'{cls21}.export') and vm.has_func(f'{cls21}.parse')):
            continue
        wfn, rfn = vm.func(f'{cls21}.export'), vm.func(f'{cls21}.parse')
        looped_keys = set()
        for em in emits_in(wfn):
            in_loop = False
            p_ = vm.parents.get(em.node)
            while p_ is not None and p_ is not wfn:
                if isinstance(p_, (ast.For, ast.While)):
                    in_loop = True
                p_ = vm.parents.get(p_)
            if not in_loop:
                continue
            for ln in em.lines:
                k_ = ln.literal(0)
                if k_ and len(ln.strings) >= 2:
                    looped_keys.add(k_.casefold())
        for k_ in sorted(looped_keys):
            single = []
            iterated = False
            for c in ast.walk(rfn):
                if isinstance(c, ast.Call) and isinstance(c.func, ast.Attribute) and c.args and isinstance(c.args[0], ast.Constant) and isinstance(c.args[0].value, str) and c.args[0].value.casefold() == k_:
                    if c.func.attr in SINGLE_ACCESS:
                        single.append(c)
                    elif c.func.attr in ('find_all', 'find_children'):
                        iterated = True
                if isinstance(c, ast.Subscript) and isinstance(c.slice, ast.Constant) and isinstance(c.slice.value, str) and c.slice.value.casefold() == k_ and isinstance(c.ctx, ast.Load):
                    single.append(c)
                if isinstance(c, ast.Compare) and len(c.ops) == 1 and isinstance(c.ops[0], ast.Eq) and isinstance(c.comparators[0], ast.Constant) and isinstance(c.comparators[0].value, str) \
                        and c.comparators[0].value.casefold() == k_:
                    par_ = vm.parents.get(c)
                    while par_ is not None and par_ is not rfn and not isinstance(par_, ast.For):
                        par_ = vm.parents.get(par_)
                    iterated = iterated or isinstance(par_, ast.For)
            if not single and not iterated:
                continue          # the key is not read here at all (V1 looks at that)
            n21 += 1
            ctx.check('C06.V21', not single, vm, single[0] if single else rfn, f'{cls21}.export writes "{k_}" once per element of a collection, but {cls21}.parse reads it with `{U(single[0])[:50] if single else ""}`, which returns '
                      'a single occurrence: an object with two or more of them keeps only the last after a re-parse', func=f'{cls21}.parse', text=f'{cls21} repeated key {k_}')
    if n21 < 2:
        raise AnalysisError(f'V21: only {n21} repeated keys found (visgroupid of Solid and of Entity confirmed by hand)')
    # ---- V18: positional constructor calls in the parsers agree with the declared field / parameter order ------------------------------
    ctx.rule('C06.V18', 'a parsed value reaches the field it was read for: locals passed positionally to a constructor sit at the position of the field of the same name', floor=0)

    def ctor_params(cname: str) -> Optional[List[str]]:
        if not vm.has_class(cname):
            return None
        c_ = vm.cls(cname)
        for st in c_.body:
            if isinstance(st, ast.FunctionDef) and st.name == '__init__':
                return [a.arg for a in st.args.args[1:]]
        if any('attrs' in U(d) or 'define' in U(d) for d in c_.decorator_list):
            return [st.target.id for st in c_.body if isinstance(st, ast.AnnAssign) and isinstance(st.target, ast.Name) and 'ClassVar' not in U(st.annotation)]
        return None
    n_pos = 0
    for qual, fns in vm.all_funcs().items():
        if '.' not in qual or qual.split('.')[-1] not in ('parse', '_parse', 'parse_file', '_parse_displacement_data'):
            continue
        owner = qual.split('.')[0]
        for fn in fns:
            for c in ast.walk(fn):
                if not (isinstance(c, ast.Call) and isinstance(c.func, ast.Name) and len(c.args) >= 3):
                    continue
                cname = owner if c.func.id == 'cls' else c.func.id
                params = ctor_params(cname)
                if params is None or len(c.args) > len(params):
                    continue
                pset = {p_.lstrip('_') for p_ in params}
                for i, a in enumerate(c.args):
                    if not isinstance(a, ast.Name):
                        continue
                    nm = a.id.lstrip('_')
                    want = params[i].lstrip('_')
                    if nm in pset:
                        n_pos += 1
                        ctx.check('C06.V18', nm == want, vm, a, f'{qual} passes the local `{a.id}` as positional argument {i} of {cname}(...), which is the field `{params[i]}`; the field `{a.id}` is at position '
                                  f'{[p_.lstrip("_") for p_ in params].index(nm)} - the two values swap places on every parse', func=qual, text=f'{qual}: {cname}() argument {i} {a.id}')
    if n_pos < 20:
        # the rule pairs locals with fields BY NAME - it is a heuristic that simply has fewer instances when locals are called something else
        # (a renamed local is not evidence of anything), so a low count is reported, not treated as a vanished anchor
        ctx.assumptions.append(f'C06.V18 found only {n_pos} locals named like the field they are passed for (35 on the tree the rule was written against): the positional-order clause covers fewer arguments')
    # V8 (row number): "row10" .. "row16" exist for power-4 displacements, so the row number is ALL digits after the word
    idr = vm.func('Side._iter_disp_row')
    # the row number is the first element of what _iter_disp_row yields
    y_names = {y.value.elts[0].id for y in ast.walk(idr) if isinstance(y, ast.Yield) and isinstance(y.value, ast.Tuple) and y.value.elts and isinstance(y.value.elts[0], ast.Name)} or {'y'}
    y_defs = [a for a in ast.walk(idr) if isinstance(a, ast.Assign) and dotted(a.targets[0]) in y_names]
    if len(y_defs) != 1:
        ctx.shape('C06.V8', False, vm, idr, 'one assignment of the row number `y` expected in _iter_disp_row', func='Side._iter_disp_row', text='row number taken from the key')
    else:
        yv = y_defs[0].value
        src_ = U(yv)
        whole_suffix = isinstance(yv, ast.Call) and dotted(yv.func) == 'int' and yv.args and isinstance(yv.args[0], ast.Subscript) and isinstance(yv.args[0].slice, ast.Slice) \
            and yv.args[0].slice.upper is None and isinstance(yv.args[0].slice.lower, ast.Constant) and yv.args[0].slice.lower.value == len('row') and (isinstance(yv.args[0].value, ast.Name) or (isinstance(yv.args[0].value, ast.Attribute) and yv.args[0].value.attr in ('name', 'real_name')))
        pat_ = None
        for c in ast.walk(idr):
            if isinstance(c, ast.Call) and isinstance(c.func, ast.Attribute) and c.func.attr in ('match', 'fullmatch', 'search'):
                if isinstance(c.func.value, ast.Name) and c.func.value.id != 're':
                    try:
                        pv_ = vm.global_assign(c.func.value.id)
                    except AnalysisError:
                        pv_ = None
                    if isinstance(pv_, ast.Call) and pv_.args and isinstance(pv_.args[0], ast.Constant):
                        pat_ = (pv_.args[0].value, c.func.attr)
                elif len(c.args) == 2 and isinstance(c.args[0], ast.Constant):
                    pat_ = (c.args[0].value, c.func.attr)
        if whole_suffix:
            ctx.check('C06.V8', True, vm, y_defs[0], 'int(name[3:])', func='Side._iter_disp_row', text='row number taken from the key')
        elif pat_ is not None and 'group' in src_:
            pattern, how = pat_
            digits = re.search(r'\((?:\?P<\w+>)?(\\d|\[0-9\])(\+|\*|\{[^}]*\})?\)', pattern)
            if digits is None:
                ctx.shape('C06.V8', False, vm, y_defs[0], f'row key pattern `{pattern}` has no digit group', func='Side._iter_disp_row', text='row number taken from the key')
            else:
                many = digits.group(2) in ('+',) or (digits.group(2) or '').startswith('{1,')
                ctx.check('C06.V8', many, vm, y_defs[0], f'the row number is read with the pattern `{pattern}`: the group takes a single digit, so `row10` .. `row16` of a power-4 displacement are all read as row 1 '
                          '(their data overwrites row 1 and rows 10-16 keep their defaults)', func='Side._iter_disp_row', text='row number taken from the key')
        else:
            ctx.shape('C06.V8', False, vm, y_defs[0], f'how the row number is derived (`{src_[:60]}`) is not an enumerated form', func='Side._iter_disp_row', text='row number taken from the key')
    # every class with both export and parse must be in PAIRS (discovery cross-check)
    for cname, c in vm.all_classes().items():
        ms = vm.methods(cname)
        if 'export' in ms and 'parse' in ms and cname not in PAIRS and cname != 'Output':   # Output: positional field list, checked below
            raise AnalysisError(f'class {cname} has export and parse but is not in the pair table of rules/c06.py')
    # ---- V1 ------------------------------------------------------------------------------------------
    all_reader_keys: Set[str] = set()
    all_writer_blocks: Set[str] = set()
    per_pair: Dict[str, Tuple[Set[str], Set[str], Set[str]]] = {}
    unresolved_r: Dict[str, List[str]] = {}
    for pname, (ws, rs) in PAIRS.items():
        wk: Set[str] = set()
        wb: Set[str] = set()
        rk: Set[str] = set()
        for w in ws:
            k, b, unk = writer_keys(vm.func(w), res)
            wk |= k
            wb |= b
            for u in unk:
                ctx.note(f'{w}: unresolved {u}')
        for r in rs:
            k, unk = reader_keys(vm.func(r), res)
            rk |= k
            for u in unk:
                ctx.note(f'{r}: unresolved reader key {u}')
                unresolved_r.setdefault(pname, []).append(f'{r}: {u}')
        per_pair[pname] = (fold_keys(wk), fold_keys(wb), fold_keys(rk))
        all_reader_keys |= fold_keys(rk)
        all_writer_blocks |= fold_keys(wb)
    for pname, (wk, wb, rk) in per_pair.items():
        wnode = vm.func(PAIRS[pname][0][0])
        rnode = vm.func(PAIRS[pname][1][0])
        if pname in unresolved_r:
            # a reader key expression the resolver cannot evaluate: the reader's key set is incomplete, so "nobody reads X" cannot be
            # concluded for this pair (it would be an alarm about the checker's own blind spot) - the comparison is declined
            ctx.shape('C06.V1', False, vm, rnode, f'{pname}: reader key expression(s) not resolvable: {unresolved_r[pname][:3]}', func=PAIRS[pname][1][0], text=f'{pname}: reader key table resolvable')
        for k in sorted(wk if pname not in unresolved_r else ()):
            if (pname, k) in WRITER_ONLY_OK:
                continue
            ctx.check('C06.V1', matches(k, rk), vm, wnode, f'{pname}: the writer emits key "{k}" but the reader never consumes it (reader keys: {sorted(rk)}): '
                      'the field is lost / defaulted on every round trip', func=PAIRS[pname][0][0], text=f'{pname} writes "{k}"')
        for b in sorted(wb if not unresolved_r else ()):
            if (pname, b) in WRITER_ONLY_OK:
                continue
            ctx.check('C06.V1', matches(b, rk | all_reader_keys), vm, wnode, f'{pname}: the writer emits block `{b}` which no reader looks for',
                      func=PAIRS[pname][0][0], text=f'{pname} writes block {b}')
        for k in sorted(rk):
            if (pname, k) in READER_ONLY_OK:
                continue
            ctx.check('C06.V1', matches(k, wk | wb | all_writer_blocks), vm, rnode, f'{pname}: the reader consumes key "{k}" that no writer emits (writer keys: {sorted(wk)}): '
                      'it reads a key the exporter never produces', func=PAIRS[pname][1][0], text=f'{pname} reads "{k}"')
    # pair-local: the editor `group` key (see READER_ONLY_OK['Entity','group'])
    for pname in ('Entity', 'Solid'):
        wk, wb, rk = per_pair[pname]
        if 'groupid' in wk or 'group' in rk:
            ctx.check('C06.V1', ('groupid' in wk) == ('groupid' in rk), vm, vm.func(PAIRS[pname][1][0]),
                      f'{pname}: the editor block writes "groupid" but the reader matches {"groupid" if "groupid" in rk else "group"}', func=PAIRS[pname][1][0],
                      text=f'{pname} editor group key')
    # Output: the value is a separator-joined positional record; writer order must equal the reader's unpack order
    ok_fn = vm.func('Output.as_keyvalue')
    op = vm.func('Output.parse')
    rets = [r for r in walk_no_nested(ok_fn) if isinstance(r, ast.Return) and r.value is not None]
    if len(rets) != 1:
        raise AnalysisError('Output.as_keyvalue: expected a single return')
    pieces = flatten(rets[0].value)
    # split the value string (second quoted string) on the separator slot `sep`
    wfields: List[List[str]] = [[]]
    nq = 0
    # the separator local: assigned from the class constant SEP / the comma choice
    sep_names = {t.id for a in walk_no_nested(ok_fn) if isinstance(a, ast.Assign) and any(isinstance(x, ast.Attribute) and x.attr in ('SEP', 'comma_sep') for x in ast.walk(a.value))
                 for t in a.targets if isinstance(t, ast.Name)} or {'sep'}
    for pz in pieces:
        if pz.kind == 'lit':
            nq += pz.text.count('"')
            continue
        if nq < 3:
            continue        # still in the key string
        if isinstance(pz.node, ast.Name) and pz.node.id in sep_names:
            wfields.append([])
            continue
        names = {a.attr for a in ast.walk(pz.node) if isinstance(a, ast.Attribute) and dotted(a.value) == 'self'}
        wfields[-1].extend(sorted(names))
    unpack = None
    split_vars = {t.id for a in walk_no_nested(op) if isinstance(a, ast.Assign) and isinstance(a.value, ast.Call) and isinstance(a.value.func, ast.Attribute) and a.value.func.attr == 'split'
                  for t in a.targets if isinstance(t, ast.Name)} or {'vals'}
    for n in walk_no_nested(op):
        if isinstance(n, ast.Assign) and isinstance(n.targets[0], ast.Tuple) and dotted(n.value) in split_vars and not any(isinstance(e, ast.Starred) for e in n.targets[0].elts):
            unpack = [e.id for e in n.targets[0].elts if isinstance(e, ast.Name)]
    if unpack is None:
        raise AnalysisError('Output.parse: unpack of the split value not found')
    ctor = [c for c in walk_no_nested(op) if isinstance(c, ast.Call) and dotted(c.func) == 'cls'][-1]
    oinit = vm.func('Output.__init__')
    oparams = [a.arg for a in oinit.args.args[1:]]
    var_to_param: Dict[str, str] = {}
    for i, a in enumerate(ctor.args):
        for nm in ast.walk(a):
            if isinstance(nm, ast.Name):
                var_to_param.setdefault(nm.id, oparams[i])
    for k in ctor.keywords:
        for nm in ast.walk(k.value):
            if isinstance(nm, ast.Name) and k.arg:
                var_to_param.setdefault(nm.id, k.arg)
    param_to_field: Dict[str, str] = {}
    for n in walk_no_nested(oinit):
        if isinstance(n, ast.Assign) and isinstance(n.targets[0], ast.Attribute) and dotted(n.targets[0].value) == 'self':
            for nm in ast.walk(n.value):
                if isinstance(nm, ast.Name) and nm.id in oparams + [a.arg for a in oinit.args.kwonlyargs]:
                    param_to_field.setdefault(nm.id, n.targets[0].attr)
    rfields = [param_to_field.get(var_to_param.get(v, ''), '?') for v in unpack]
    # exp_in() combines inst_in and input: accept the method name as the `input` field
    norm_w = [('input' if 'exp_in' in f or 'input' in f else (f[0] if f else '?')) for f in wfields]
    ctx.check('C06.V1', norm_w == rfields, vm, rets[0], f'Output: as_keyvalue writes the fields {norm_w} but Output.parse unpacks them as {rfields}', func='Output.as_keyvalue',
              text='Output positional field order')

    # ---- V2 / V3 ---------------------------------------------------------------------------------------
    writer_funcs: List[Tuple[str, str]] = []
    for qual in vm.all_funcs():
        short = qual.split('.')[-1]
        if short in ('export', '_export_displacement', '_export_disp_rowset', 'as_keyvalue'):
            writer_funcs.append((qual, short))
    for qual, short in writer_funcs:
        fn = vm.func(qual)
        cls = qual.split('.')[0] if '.' in qual else None
        ty = Typer(prog, vm, cls, fn)
        emits = emits_in(fn)
        if short == 'as_keyvalue':
            from engine.kvtext import Emit, lex_emit
            emits = []
            for r in walk_no_nested(fn):
                if isinstance(r, ast.Return) and r.value is not None:
                    em = Emit(r, r.value, flatten(r.value))
                    lex_emit(em)
                    emits.append(em)
        for em in emits:
            for s in em.slots:
                # V3: float formatting specs
                if s.spec and re.search(r'[geEfG]$|\.\d', s.spec):
                    fields = {a.attr for a in ast.walk(s.node) if isinstance(a, ast.Attribute)}
                    ok = bool(fields & SIG_OK_FIELDS) and fields <= SIG_OK_FIELDS | {'self'}
                    ctx.check('C06.V3', ok, vm, em.node, f'`{U(s.node)}` is written with format spec `{s.spec}` (significant digits / fixed precision); '
                              'only face rotation, output delay and multiblend Vec4 values may lose precision this way', func=qual, text=f'spec {s.spec} on {U(s.node)[:40]}')
                # ... and the converse for the output delay: the property promises six significant digits, which fixed decimals (format_float,
                # round(x, n)) do not give for a small value - 1/128 s is written "0.007812" and read back 0.007812 instead of 0.0078125
                conv3, inner3 = conversion_of(s.node)
                if conv3 in ('format_float', 'round') and isinstance(inner3, ast.Attribute) and inner3.attr == 'delay' and not s.spec:
                    ctx.check('C06.V3', False, vm, em.node, f'`{U(s.node)}` writes the output delay with a fixed number of decimals: small delays lose significant digits '
                              '(the property allows a loss only beyond six significant digits - `{x:g}`)', func=qual, text=f'delay written with significant digits')
                if not s.quoted:
                    continue
                kind = ty.kind(s.node)
                if kind == 'unknown':
                    raise AnalysisError(f'{vm.relpath}:{em.node.lineno}: {qual}: cannot type quoted slot `{U(s.node)}` (add an idiom to rules/c06.Typer)')
                if kind in ('str', 'escaped'):
                    ctx.check('C06.V2', kind == 'escaped', vm, em.node, f'`{U(s.node)}` is a str written inside quotes ({s.position} position'
                              + (f' of "{s.line_key}"' if s.line_key else '') + ') without escape_text(): a quote, backslash or newline in it corrupts the file',
                              func=qual, text=f'{s.position} slot {U(s.node)[:50]}')
    # Vec4.__str__ uses :g by design (multiblend values) - recorded as an allowed instance
    v4 = vm.func('Vec4.__str__')
    specs = [U(v.format_spec) for v in ast.walk(v4) if isinstance(v, ast.FormattedValue) and v.format_spec is not None]
    ctx.check('C06.V3', len(specs) == 4, vm, v4, 'Vec4.__str__ formats its four components', text='Vec4 components')
    # ---- V4 --------------------------------------------------------------------------------------------
    check_disp_rows(ctx, prog, vm)
    # ---- V6 --------------------------------------------------------------------------------------------
    ee = vm.func('Entity.export')
    calls = [c for c in walk_no_nested(ee) if isinstance(c, ast.Call) and isinstance(c.func, ast.Attribute) and c.func.attr == 'export'
             and any(k.arg == 'include_groups' for k in c.keywords)]
    if len(calls) != 1:
        raise AnalysisError('Entity.export: expected one Solid.export(..., include_groups=...) call')
    arg = next(k.value for k in calls[0].keywords if k.arg == 'include_groups')
    try:
        val = Folder(prog, vm).fold(arg, {'_is_worldspawn': True})
    except AnalysisError:
        raise AnalysisError(f'Entity.export: include_groups argument `{U(arg)}` is not a function of _is_worldspawn')
    ctx.check('C06.V6', bool(val) is True, vm, calls[0], f'Entity.export passes include_groups={U(arg)}: for the worldspawn entity this is {val!r}, so world brushes are '
              'written without "groupid"/"visgroupid" although VisGroup.child_solids() and Solid.group_id keep that membership on the brush itself', text='world brushes keep group keys')
    # ---- V7: composite value separators -------------------------------------------------------------------
    def writer_value_separators(qual: str, key_prefix: str) -> Optional[List[str]]:
        fnw = vm.func(qual)
        for em in emits_in(fnw):
            for ln in em.lines:
                if len(ln.strings) >= 2:
                    k = ''.join(p.text for p in ln.strings[0] if p.kind == 'lit')
                    if k.startswith(key_prefix):
                        seps, cur, seen_slot = [], '', False
                        for pz in ln.strings[1]:
                            if pz.kind == 'lit':
                                cur += pz.text
                            else:
                                if seen_slot:
                                    seps.append(cur)
                                cur = ''
                                seen_slot = True
                        return seps
        return None

    def reader_split(fnr: ast.AST, near: str) -> Optional[ast.Call]:
        best = None
        for n in ast.walk(fnr):
            if isinstance(n, ast.Call) and isinstance(n.func, ast.Attribute) and n.func.attr in ('split', 'partition') and 'value' in U(n.func.value):
                # the split that sits under the branch mentioning `near`
                ch = n
                p = vm.parents.get(n)
                while p is not None and p is not fnr:
                    if isinstance(p, ast.If) and near in U(p.test):
                        best = n
                    # ... or behind a guard clause on it: `if child.name != 'point': continue` earlier in the same block
                    for fld in ('body', 'orelse'):
                        blk = getattr(p, fld, None)
                        if isinstance(blk, list) and ch in blk:
                            for prev in blk[:blk.index(ch)]:
                                if isinstance(prev, ast.If) and near in U(prev.test) and prev.body and isinstance(prev.body[-1], (ast.Continue, ast.Return)) and not prev.orelse:
                                    best = n
                    ch, p = p, vm.parents.get(p)
        return best
    for wq, prefix, rq, near, last_is_text in (('EntityFixup.export', 'replace', 'Entity.parse', "'replace'", True),
                                                ('Side.export', 'point', 'Side._parse_strata_points', "'point'", False)):
        seps = writer_value_separators(wq, prefix)
        sp = reader_split(vm.func(rq), near)
        if seps is None or sp is None:
            raise AnalysisError(f'V7: cannot locate the composite value writer {wq}/"{prefix}" or its reader split in {rq}')
        sep_arg = sp.args[0] if sp.args else None
        max_arg = sp.args[1] if len(sp.args) > 1 else None
        if sp.func.attr == 'partition' and len(sp.args) == 1:
            max_arg = ast.Constant(value=1)          # x.partition(sep) cuts once, like x.split(sep, 1)
        wsep = seps[-1].replace('$', '') if seps else None
        ok_sep = isinstance(sep_arg, ast.Constant) and sep_arg.value == wsep
        ok_max = isinstance(max_arg, ast.Constant) and max_arg.value == len(seps)
        if not last_is_text:
            ok_sep = ok_sep or sep_arg is None or (isinstance(sep_arg, ast.Constant) and sep_arg.value is None)
        ctx.check('C06.V7', ok_sep and ok_max, vm, sp, f'{rq} splits the "{prefix}..." value with `{U(sp)[:50]}` but {wq} joins its {len(seps) + 1} fields with {seps!r}'
                  + ('; the last field is free text, so a different separator or split count strips/merges characters of the value' if last_is_text else ''),
                  func=rq, text=f'{prefix} value split')
    # ---- V8: vertex addressing in displacement rows -----------------------------------------------------------
    # which loop variable is the row (y) and which the item in the row (x), by how the loops are built - not by what they are called:
    # the first target of a loop over _iter_disp_row(...) is a row number, the first target of enumerate(...) inside it an item number;
    # of two nested range() loops (or comprehension generators) the outer is the row, the inner the item
    xy_roles: Dict[str, str] = {}
    for q_ in ('Side._parse_displacement_data', 'Side._parse_disp_vecrow', 'Side._export_displacement', 'Side._export_disp_rowset', 'Side._iter_disp_row'):
        f_ = vm.func(q_)

        def _loops(n_: ast.AST, depth_: int) -> None:
            for ch_ in ast.iter_child_nodes(n_):
                if isinstance(ch_, ast.For):
                    it_, tg_ = ch_.iter, ch_.target
                    first_ = tg_.elts[0] if isinstance(tg_, ast.Tuple) and tg_.elts else tg_
                    if isinstance(first_, ast.Name):
                        if isinstance(it_, ast.Call) and (dotted(it_.func) or '').endswith('_iter_disp_row'):
                            xy_roles.setdefault(first_.id, 'y')
                        elif isinstance(it_, ast.Call) and dotted(it_.func) == 'enumerate':
                            xy_roles.setdefault(first_.id, 'x')
                        elif isinstance(it_, ast.Call) and dotted(it_.func) == 'range':
                            xy_roles.setdefault(first_.id, 'y' if depth_ == 0 else 'x')
                    _loops(ch_, depth_ + 1)
                elif isinstance(ch_, (ast.ListComp, ast.GeneratorExp, ast.SetComp)):
                    rng_ = [g_ for g_ in ch_.generators if isinstance(g_.iter, ast.Call) and dotted(g_.iter.func) == 'range' and isinstance(g_.target, ast.Name)]
                    for i_, g_ in enumerate(rng_):
                        xy_roles.setdefault(g_.target.id, 'x' if (i_ > 0 or depth_ > 0) else 'y')
                    _loops(ch_, depth_)
                else:
                    _loops(ch_, depth_)
        _loops(f_, 0)

    # locals of the displacement readers/writers that are assigned exactly once (named temporaries)
    single_defs: Dict[str, ast.AST] = {}
    seen_names: Set[str] = set()
    _cnt: Dict[str, int] = {}
    for q_ in ('Side._parse_displacement_data', 'Side._parse_disp_vecrow', 'Side._export_displacement', 'Side._export_disp_rowset'):
        for a_ in ast.walk(vm.func(q_)):
            if isinstance(a_, ast.Assign) and len(a_.targets) == 1 and isinstance(a_.targets[0], ast.Name):
                _cnt[a_.targets[0].id] = _cnt.get(a_.targets[0].id, 0) + 1
                single_defs[a_.targets[0].id] = a_.value
    single_defs = {k: v for k, v in single_defs.items() if _cnt[k] == 1 and k not in xy_roles}

    def lin2(e: ast.AST, env2: Dict[str, Tuple[int, int]]) -> Optional[Dict[str, Tuple[int, int]]]:
        """linear form in the loop variables x and y whose coefficients are linear in S"""
        if isinstance(e, ast.Name) and (e.id in ('x', 'y') or e.id in xy_roles):
            return {xy_roles.get(e.id, e.id): (0, 1)}
        c = lin(e, env2)
        if c is not None:
            return {'1': c}
        if isinstance(e, ast.Name) and e.id in single_defs and e.id not in seen_names:
            # a named temporary (`row_start = size * y`): its definition
            seen_names.add(e.id)
            try:
                return lin2(single_defs[e.id], env2)
            finally:
                seen_names.discard(e.id)
        if isinstance(e, ast.BinOp) and isinstance(e.op, (ast.Add, ast.Sub)):
            l, r = lin2(e.left, env2), lin2(e.right, env2)
            if l is None or r is None:
                return None
            out = dict(l)
            for k, v in r.items():
                sgn = 1 if isinstance(e.op, ast.Add) else -1
                a0 = out.get(k, (0, 0))
                out[k] = (a0[0] + sgn * v[0], a0[1] + sgn * v[1])
            return out
        if isinstance(e, ast.BinOp) and isinstance(e.op, ast.Mult):
            l, r = lin2(e.left, env2), lin2(e.right, env2)
            if l is None or r is None:
                return None
            if set(l) == {'1'} :
                kcoef, other = l['1'], r
            elif set(r) == {'1'}:
                kcoef, other = r['1'], l
            else:
                return None
            out = {}
            for k, v in other.items():
                # (a*S+b) * (c*S+d) stays linear only if one factor is constant in S
                if kcoef[0] and v[0]:
                    return None
                out[k] = (kcoef[0] * v[1] + v[0] * kcoef[1], kcoef[1] * v[1])
            return out
        return None
    env_s = {'size': (1, 0), 'tri_tags_count': (1, -1)}
    for rq_ in ('Side._parse_displacement_data', 'Side._parse_disp_vecrow', 'Side._export_displacement', 'Side._export_disp_rowset'):
        env_s.update(disp_env(vm.func(rq_)))
    n_idx = 0
    for rq in ('Side._parse_displacement_data', 'Side._parse_disp_vecrow'):
        fnr = vm.func(rq)
        for n in ast.walk(fnr):
            if isinstance(n, ast.Subscript) and dotted(n.value) == 'self._disp_verts' and not isinstance(n.slice, ast.Slice):
                form = lin2(n.slice, env_s)
                if form is None:
                    raise AnalysisError(f'{rq}:{n.lineno}: vertex index `{U(n.slice)}` is not linear in x, y')
                n_idx += 1
                ok = form.get('y') == (1, 0) and form.get('x') == (0, 1) and form.get('1', (0, 0)) == (0, 0)
                ctx.check('C06.V8', ok, vm, n, f'{rq} stores row data into vertex `{U(n.slice)}`; the exporter takes row y, item x from vertex size*y + x '
                          '(the vertex grid is size wide for every block, including the (size-1)-wide triangle_tags)', func=rq, text=f'vertex index {U(n.slice)}')
    for wq in ('Side._export_displacement', 'Side._export_disp_rowset'):
        fnw = vm.func(wq)
        for n in ast.walk(fnw):
            if isinstance(n, ast.Subscript) and isinstance(n.slice, ast.Slice) and n.slice.lower is not None and \
                    (dotted(n.value) == 'self._disp_verts' or isinstance(n.value, ast.Name)):
                form = lin2(n.slice.lower, env_s)
                ok = form is not None and form.get('y') == (1, 0) and form.get('x', (0, 0)) == (0, 0) and form.get('1', (0, 0)) == (0, 0)
                n_idx += 1
                ctx.check('C06.V8', ok, vm, n, f'{wq} starts row y at `{U(n.slice.lower)}`; rows of the vertex grid start at size*y', func=wq,
                          text=f'row start {U(n.slice.lower)}')
    # ---- V5 --------------------------------------------------------------------------------------------
    vp = vm.func('VMF.parse')
    vcalls = [c for c in walk_no_nested(vp) if isinstance(c, ast.Call) and dotted(c.func) == 'VMF']
    ok = len(vcalls) == 1 and any(k.arg == 'preserve_ids' and dotted(k.value) == 'preserve_ids' for k in vcalls[0].keywords)
    ctx.check('C06.V5', ok, vm, vcalls[0] if vcalls else vp, 'VMF.parse must construct the map with preserve_ids=preserve_ids', text='preserve_ids passed')
    id_specs = [('Solid.parse', 'id', 1), ('Side.parse', 'id', 2), ('VisGroup.parse', 'visgroupid', 2), ('EntityGroup.parse', 'id', 1), ('Entity.parse', 'id', 3)]
    for qual, key, argpos in id_specs:
        fn = vm.func(qual)
        ctors = [c for c in walk_no_nested(fn) if isinstance(c, ast.Call) and dotted(c.func) in ('cls', qual.split('.')[0])]
        if not ctors:
            raise AnalysisError(f'{qual}: constructor call not found')
        c = ctors[-1]
        arg = c.args[argpos] if len(c.args) > argpos else None
        src = U(arg) if arg is not None else ''
        # the argument must derive from reading the id key
        derived = f"'{key}'" in src
        if not derived and isinstance(arg, ast.Name):
            for n in walk_no_nested(fn):
                if isinstance(n, ast.Assign) and any(isinstance(t, ast.Name) and t.id == arg.id for t in n.targets):
                    if f"'{key}'" in U(n.value) or ('item.value' in U(n.value) and key == 'id'):
                        derived = True
        ctx.check('C06.V5', derived, vm, c, f'{qual} must pass the "{key}" read from the file as the desired id (argument {argpos}: `{src}`)', func=qual, text=f'{qual} id plumbing')


def check_disp_rows(ctx: Any, prog: Program, vm: Module) -> None:
    """V4: tokens per displacement row, writer vs reader, as linear forms in S."""
    side_types = field_types(vm, 'DispVertex')
    tokens_of_type = {'Vec': 3, 'Vec4': 4, 'float': 1, 'int': 1}

    def member_tokens(member: str) -> Optional[int]:
        ann = side_types.get(member)
        if not ann:
            return None
        for t, n in tokens_of_type.items():
            if re.search(r'\b' + t + r'\b', ann) and 'list' not in ann:
                return n
        return None
    # __str__ arities actually come from the code: Vec4.__str__ has 4 slots; Vec.__str__ 3 (math.py)
    v4 = vm.func('Vec4.__str__')
    tokens_of_type['Vec4'] = len([v for v in ast.walk(v4) if isinstance(v, ast.FormattedValue)])
    mt = prog.module('math')
    vs = mt.func('VecBase.__str__')
    tokens_of_type['Vec'] = len([v for v in ast.walk(vs) if isinstance(v, ast.FormattedValue)])

    # reader expectations: name -> linear size
    reader: Dict[str, Tuple[int, int]] = {}
    pd = vm.func('Side._parse_displacement_data')
    env: Dict[str, Tuple[int, int]] = disp_env(pd)
    ds = vm.func('Side.disp_size')
    rets = [r for r in ast.walk(ds) if isinstance(r, ast.Return)]
    if not any(U(r.value).replace(' ', '') == '2**self.disp_power+1' for r in rets if r.value is not None):
        raise AnalysisError('Side.disp_size is no longer 2 ** disp_power + 1')
    for c in walk_no_nested(pd):
        if isinstance(c, ast.Call) and dotted(c.func) == 'self._iter_disp_row' and len(c.args) == 3 and isinstance(c.args[1], ast.Constant):
            l = lin(c.args[2], env)
            if l is None:
                raise AnalysisError(f'_parse_displacement_data: cannot read row length `{U(c.args[2])}`')
            reader[c.args[1].value] = l
    pv = vm.func('Side._parse_disp_vecrow')
    vec_len = None
    for c in walk_no_nested(pv):
        if isinstance(c, ast.Call) and dotted(c.func) == 'self._iter_disp_row' and len(c.args) == 3:
            vec_len = lin(c.args[2], disp_env(pv))
    if vec_len is None:
        raise AnalysisError('_parse_disp_vecrow: row length not found')
    res = KeyResolver(vm, Folder(prog, vm))
    for c in walk_no_nested(pd):
        if isinstance(c, ast.Call) and dotted(c.func) == 'self._parse_disp_vecrow' and len(c.args) == 3:
            names = res.resolve(c.args[1], pd)
            if names is None:
                raise AnalysisError(f'_parse_displacement_data: cannot resolve vecrow name `{U(c.args[1])}`')
            for nm in names:
                reader[nm] = vec_len
    # writer: rowsets
    writer: Dict[str, List[Tuple[Tuple[int, int], ast.AST, str]]] = {}
    ed = vm.func('Side._export_displacement')
    rs = vm.func('Side._export_disp_rowset')
    # rowset: items per row from the slice rows[size*y : size*(y+1)]
    items = None
    for n in ast.walk(rs):
        if isinstance(n, ast.Subscript) and isinstance(n.slice, ast.Slice) and n.slice.lower is not None and n.slice.upper is not None:
            lo = lin_y(n.slice.lower, rs)
            hi = lin_y(n.slice.upper, rs)
            if lo is not None and hi is not None:
                items = (hi[0] - lo[0], hi[1] - lo[1])
    if items is None or items[1] != 0 and False:
        raise AnalysisError('_export_disp_rowset: row slice not recognised')
    for c in walk_no_nested(ed):
        if isinstance(c, ast.Call) and dotted(c.func) == 'self._export_disp_rowset' and len(c.args) >= 2 and isinstance(c.args[0], ast.Constant) and isinstance(c.args[1], ast.Constant):
            name, member = c.args[0].value, c.args[1].value
            tk = member_tokens(member)
            if tk is None:
                raise AnalysisError(f'_export_displacement: cannot determine the token count of DispVertex.{member}')
            writer.setdefault(name, []).append(((items[0] * tk, items[1] * tk), c, f'{items[0]}*S items x {tk} tokens of DispVertex.{member}'))
    # inline row loops: row = [<fstring or str(...)> for vert in self._disp_verts[size*y:size*(y+1)]]; written under the latest block name
    cur_block = None
    stmts = list(ast.walk(ed))
    for st in ed.body:
        for n in ast.walk(st):
            if isinstance(n, ast.Call) and isinstance(n.func, ast.Attribute) and n.func.attr == 'write' and n.args:
                txt = ''.join(p.text if p.kind == 'lit' else '\x00' for p in flatten(n.args[0]))
                m = re.search(r'([A-Za-z_\x00]+[A-Za-z_0-9\x00]*)\s*\n[^\n]*\{', txt)
                if m and '"' not in txt.split('\n')[0]:
                    cur_block = m.group(1).replace('\x00', '*')
            if isinstance(n, ast.Assign) and isinstance(n.value, ast.ListComp) and len(n.targets) == 1 and isinstance(n.targets[0], ast.Name) \
                    and any(isinstance(x, ast.Call) and isinstance(x.func, ast.Attribute) and x.func.attr == 'join' and any(isinstance(a, ast.Name) and a.id == n.targets[0].id for a in x.args) for x in ast.walk(ed)):
                comp = n.value
                it = comp.generators[0].iter
                if isinstance(it, ast.Name):
                    # `for y, row_verts in enumerate(vert_rows)` with `vert_rows = [self._disp_verts[size*y:size*(y+1)] for y in range(size)]`
                    for lp_ in ast.walk(ed):
                        if isinstance(lp_, ast.For) and any(isinstance(t_, ast.Name) and t_.id == it.id for t_ in ast.walk(lp_.target)):
                            src_ = lp_.iter.args[0] if isinstance(lp_.iter, ast.Call) and dotted(lp_.iter.func) == 'enumerate' and lp_.iter.args else lp_.iter
                            if isinstance(src_, ast.Name):
                                d_ = [a_.value for a_ in ast.walk(ed) if isinstance(a_, ast.Assign) and len(a_.targets) == 1 and isinstance(a_.targets[0], ast.Name) and a_.targets[0].id == src_.id]
                                if len(d_) == 1 and isinstance(d_[0], ast.ListComp):
                                    it = d_[0].elt
                if not (isinstance(it, ast.Subscript) and isinstance(it.slice, ast.Slice) and dotted(it.value) == 'self._disp_verts'):
                    raise AnalysisError(f'_export_displacement:{n.lineno}: row comprehension iterable `{U(comp.generators[0].iter)[:50]}` not recognised')
                cnt = None
                if isinstance(it, ast.Subscript) and isinstance(it.slice, ast.Slice):
                    lo, hi = lin_y(it.slice.lower, ed), lin_y(it.slice.upper, ed)
                    if lo is not None and hi is not None:
                        cnt = (hi[0] - lo[0], hi[1] - lo[1])
                if cnt is None:
                    raise AnalysisError(f'_export_displacement:{n.lineno}: row comprehension iterable not recognised')
                alts = elt_token_alternatives(comp.elt, tokens_of_type)
                if alts is None:
                    raise AnalysisError(f'_export_displacement:{n.lineno}: cannot count tokens of row item `{U(comp.elt)}`')
                ctx.check('C06.V4', len(set(alts)) == 1, vm, n, f'row items of block {cur_block} have alternatives with different token counts {alts}: '
                          'a row mixing them has a length the reader rejects', func='Side._export_displacement', text=f'{cur_block} item alternatives')
                tk = max(alts)
                writer.setdefault(cur_block or '?', []).append(((cnt[0] * tk, cnt[1] * tk), n, f'{fmt_lin(cnt)} items x {tk} tokens'))
    for name, entries in sorted(writer.items()):
        for got, node, desc in entries:
            want = None
            for rn, rv in reader.items():
                if rn == name or (name.endswith('*') and rn.startswith(name[:-1])) or (rn.endswith('*') and name.startswith(rn[:-1])):
                    want = rv
            if want is None:
                ctx.check('C06.V4', False, vm, node, f'displacement block {name} is written but the reader has no row-length expectation for it', func='Side._export_displacement', text=f'{name} reader missing')
                continue
            ctx.check('C06.V4', got == want, vm, node, f'displacement block {name}: the writer emits {fmt_lin(got)} tokens per row ({desc}) but the reader requires '
                      f'{fmt_lin(want)} (S = 2**power + 1): every exported displacement fails to re-parse', func='Side._export_displacement', text=f'{name} row length')
    for rn in reader:
        if not any(rn == w or (w.endswith('*') and rn.startswith(w[:-1])) for w in writer):
            ctx.check('C06.V4', False, vm, pd, f'the reader expects rows for {rn} but no writer produces that block', func='Side._parse_displacement_data', text=f'{rn} writer missing')


def lin_y(e: Optional[ast.AST], fn: Optional[ast.AST] = None) -> Optional[Tuple[int, int]]:
    """coefficient form in S for expressions like size*y and size*(y+1): returns (coef of S, const) with y treated as 0/1 difference.
    We evaluate the expression at y=0 symbolically: size*(y+1) -> S ; size*y -> 0."""
    if e is None:
        return None
    env = {'size': (1, 0), 'y': (0, 0)}
    if fn is not None:
        env.update(disp_env(fn, zero_loops=True))
    return lin(e, env)


def elt_token_alternatives(elt: ast.AST, tokens_of_type: Dict[str, int]) -> Optional[List[int]]:
    if isinstance(elt, ast.IfExp):
        a = elt_token_alternatives(elt.body, tokens_of_type)
        b = elt_token_alternatives(elt.orelse, tokens_of_type)
        return None if a is None or b is None else a + b
    if isinstance(elt, ast.Constant) and isinstance(elt.value, str):
        return [len(elt.value.split())]
    if isinstance(elt, ast.JoinedStr):
        txt = ''.join(str(v.value) if isinstance(v, ast.Constant) else 'X' for v in elt.values)
        return [len(txt.split())]
    if isinstance(elt, ast.Call) and dotted(elt.func) == 'str' and elt.args:
        src = U(elt.args[0])
        if 'multi_colors' in src:
            return [tokens_of_type['Vec']]
        return None
    return None


MUTANTS = [
    {'id': 'group_colour_read_from_group_block', 'file': 'vmf.py', 'find': "            editor_block.vec('color', 255, 255, 255),", 'replace': "            props.vec('color', 255, 255, 255),", 'expect': 'C06.V32', 'note': 'round 14'},
    {'id': 'visgroups_only_without_minimal', 'file': 'vmf.py', 'find': "        dest_file.write('visgroups\\n{\\n')\n        for vis in self.vis_tree:\n            vis.export(dest_file, ind='\\t')\n        dest_file.write('}\\n')\n", 'replace': "        if not minimal:\n            dest_file.write('visgroups\\n{\\n')\n            for vis in self.vis_tree:\n                vis.export(dest_file, ind='\\t')\n            dest_file.write('}\\n')\n", 'expect': 'C06.V31', 'note': 'round 13'},
    {'id': 'entity_parse_invents_groups', 'file': 'vmf.py', 'find': "                        elif editor_prop.name == 'groupid':\n                            group_ids.append(int(editor_prop.value))", 'replace': "                        elif editor_prop.name == 'groupid':\n                            group_ids.append(int(editor_prop.value))\n                            vmf_file.groups.setdefault(group_ids[-1], EntityGroup(vmf_file, group_ids[-1]))", 'expect': 'C06.V29', 'refuse_ok': True, 'note': 'round 12'},
    {'id': 'solid_vis_shown_coupled_to_hidden', 'file': 'vmf.py', 'find': "            buffer.write(f'{ind}\\t\\t\"visgroupshown\" \"{srctools.bool_as_int(self.vis_shown)}\"\\n')\n            buffer.write(f'{ind}\\t\\t\"visgroupautoshown\" \"{srctools.bool_as_int(self.vis_auto_shown)}\"\\n')\n            buffer.write(f'{ind}\\t\\t\"logicalpos\"", 'replace': "            buffer.write(f'{ind}\\t\\t\"visgroupshown\" \"{srctools.bool_as_int(self.vis_shown and not self.hidden)}\"\\n')\n            buffer.write(f'{ind}\\t\\t\"visgroupautoshown\" \"{srctools.bool_as_int(self.vis_auto_shown)}\"\\n')\n            buffer.write(f'{ind}\\t\\t\"logicalpos\"", 'expect': 'C06.V28', 'note': 'round 12'},
    {'id': 'comment_unescaped_a_second_time', 'file': 'vmf.py', 'find': "                            comment = editor_prop.value\n", 'replace': "                            comment = editor_prop.value.replace('\\\\n', '\\n')\n", 'expect': 'C06.V24'},
    {'id': 'hidden_brushes_collected_separately', 'file': 'vmf.py', 'find': "                            solids.append(Solid.parse(vmf_file, brush_prop, hidden=True))", 'replace': "                            hidden_solids.append(Solid.parse(vmf_file, brush_prop, hidden=True))", 'extra': [{'file': 'vmf.py', 'find': "        solids: list[Solid] = []\n        keys: dict[str, str] = {}", 'replace': "        solids: list[Solid] = []\n        hidden_solids: list[Solid] = []\n        keys: dict[str, str] = {}"}, {'file': 'vmf.py', 'find': "            outputs,\n            solids,\n            hidden,", 'replace': "            outputs,\n            solids + hidden_solids,\n            hidden,"}], 'expect': 'C06.V24'},
    {'id': 'zero_rows_skipped_by_shared_reader', 'file': 'vmf.py', 'find': "        for y, split in self._iter_disp_row(tree, name, 3 * size):\n", 'replace': "        for y, split in self._iter_disp_row(tree, name, 3 * size):\n            if split.count('0') == len(split):\n                continue\n", 'expect': 'C06.V26'},
    {'id': 'fixup_export_writes_folded_key', 'file': 'vmf.py', 'find': "        for fixup in sorted(self._fixup.values(), key=operator.attrgetter('id')):", 'replace': "        for var, fixup in sorted(self._fixup.items(), key=lambda item: (item[1].id, item[0])):", 'extra': [{'file': 'vmf.py', 'find': "${escape_text(fixup.var)} {escape_text(fixup.value)}", 'replace': "${escape_text(var)} {escape_text(fixup.value)}"}], 'expect': 'C06.V27'},
    {'id': 'disp_collision_bits_swapped_in_writer_table', 'file': 'vmf.py', 'find': "    v: k for (k, v) in\n    list(enumerate(_DISP_FLAG_TO_COLL))[::-1]\n", 'replace': "    coll: (\n        (0 if DispFlag.COLL_PHYSICS in coll else 2) |\n        (0 if DispFlag.COLL_BULLET in coll else 4) |\n        (0 if DispFlag.COLL_PLAYER_NPC in coll else 8)\n    ) for coll in _DISP_FLAG_TO_COLL\n", 'expect': 'C06.V25'},
    {'id': 'ok_disp_collision_writer_table_explicit', 'file': 'vmf.py', 'find': "    v: k for (k, v) in\n    list(enumerate(_DISP_FLAG_TO_COLL))[::-1]\n", 'replace': "    coll: (\n        (0 if DispFlag.COLL_PHYSICS in coll else 2) |\n        (0 if DispFlag.COLL_PLAYER_NPC in coll else 4) |\n        (0 if DispFlag.COLL_BULLET in coll else 8)\n    ) for coll in _DISP_FLAG_TO_COLL\n", 'expect': None, 'note': 'negative control: the inverse table built explicitly with the right bits'},
    {'id': 'cordon_corners_sorted_on_read', 'file': 'vmf.py', 'find': "        min_ = bounds.vec('mins', 0, 0, 0)\n        max_ = bounds.vec('maxs', 128, 128, 128)\n", 'replace': "        min_, max_ = Vec.bbox(bounds.vec('mins', 0, 0, 0), bounds.vec('maxs', 128, 128, 128))\n", 'expect': 'C06.V24'},
    {'id': 'strata_points_sorted_by_index_text', 'file': 'vmf.py', 'find': "        points: list[Optional[Vec]] = [None] * block.int('numpts')\n", 'replace': "        by_text: dict = {}\n        for child in block.find_all('point'):\n            ind_s, _, pos_s = child.value.partition(' ')\n            if ind_s.isdecimal():\n                by_text[ind_s] = pos_s\n        ordered = [p for _, p in sorted(by_text.items())]\n        points: list[Optional[Vec]] = [None] * block.int('numpts')\n", 'expect': 'C06.V23'},
    {'id': 'multiblend_gate_blend_only', 'file': 'vmf.py', 'find': "            vert.multi_blend or vert.multi_alpha or vert.multi_colors is not None\n", 'replace': "            vert.multi_blend\n", 'expect': 'C06.V22'},
    {'id': 'multiblend_gate_colours_only', 'file': 'vmf.py', 'find': "            vert.multi_blend or vert.multi_alpha or vert.multi_colors is not None\n", 'replace': "            vert.multi_colors is not None\n", 'expect': 'C06.V22'},
    {'id': 'solid_visgroupid_single_accessor', 'file': 'vmf.py', 'find': "            elif v.name == 'visgroupid':\n                try:\n                    visgroups.add(int(v.value))\n                except (ValueError, TypeError):\n                    pass\n", 'replace': "", 'extra': [{'file': 'vmf.py', 'find': "        return cls(\n            vmf_file,\n            solid_id,\n            sides,\n            visgroups,", 'replace': "        vis_one = tree.find_block('editor', or_blank=True).int('visgroupid', -1)\n        if vis_one != -1:\n            visgroups.add(vis_one)\n        return cls(\n            vmf_file,\n            solid_id,\n            sides,\n            visgroups,"}], 'expect': 'C06.V21'},
    {'id': 'output_delay_fixed_decimals', 'file': 'vmf.py', 'find': "            f'{self.delay:g}{sep}{self.times}\"\\n'", 'replace': "            f'{format_float(self.delay)}{sep}{self.times}\"\\n'", 'expect': 'C06.V3'},
    {'id': 'uvaxis_zero_scale_replaced', 'file': 'vmf.py', 'find': "            scale=float(vals[4]),\n", 'replace': "            scale=float(vals[4]) or 0.25,\n", 'expect': 'C06.V19'},
    {'id': 'unused_groups_not_exported', 'file': 'vmf.py', 'find': "            for group in self.map.groups.values():\n                group.export(buffer, ind + '\\t')", 'replace': "            used_groups = {solid.group_id for solid in self.solids}\n            for group in self.map.groups.values():\n                if group.id in used_groups:\n                    group.export(buffer, ind + '\\t')", 'expect': 'C06.V20'},
    {'id': 'solid_vis_fields_swapped', 'file': 'vmf.py', 'find': "            vis_shown,\n            vis_auto_shown,\n            is_cordon,\n            editor_color,\n        )", 'replace': "            vis_auto_shown,\n            vis_shown,\n            is_cordon,\n            editor_color,\n        )", 'expect': 'C06.V18'},
    {'id': 'disp_row_key_single_digit', 'file': 'vmf.py', 'find': "            if row_prop.name.startswith('row'):\n                y = int(row_prop.name[3:])\n            else:\n                continue  # Ignore unknown keys.\n", 'replace': "            match = re.match(r'row(\\d)', row_prop.name)\n            if match is None:\n                continue\n            y = int(match.group(1))\n", 'expect': 'C06.V8'},
    {'id': 'disp_row_key_all_digits', 'file': 'vmf.py', 'find': "            if row_prop.name.startswith('row'):\n                y = int(row_prop.name[3:])\n            else:\n                continue  # Ignore unknown keys.\n", 'replace': "            match = re.match(r'row(\\d+)$', row_prop.name)\n            if match is None:\n                continue\n            y = int(match.group(1))\n", 'expect': None},
    {'id': 'disp_scalars_written_with_plain_str', 'file': 'vmf.py', 'find': "            if isinstance(value, int):\n                # Scalars are parsed back as floats, give an int the same text as the re-parsed map would have.\n                value = float(value)\n", 'replace': "", 'expect': 'C06.V17'},
    {'id': 'multiblend_setters_bind_late', 'file': 'vmf.py', 'find': "_disprow_multiblend = [\n    (f'multiblend_color_{i}', _make_disprow_set_multiblend(i))\n    for i in range(4)\n]", 'replace': "_disprow_multiblend = []\nfor _i in range(4):\n    def _setter(vert: DispVertex, value: Vec) -> None:\n        assert vert.multi_colors is not None\n        vert.multi_colors[_i] = value\n    _disprow_multiblend.append((f'multiblend_color_{_i}', _setter))", 'expect': 'C06.V16'},
    {'id': 'world_comments_not_exported', 'file': 'vmf.py', 'find': "        if self.comments:\n            buffer.write(f'{ind}\\t\\t\"comments\" \"{escape_text(self.comments)}\"\\n')\n        buffer.write(ind + '\\t}\\n')\n\n        buffer.write(ind + '}\\n')", 'replace': "        if self.comments and not _is_worldspawn:\n            buffer.write(f'{ind}\\t\\t\"comments\" \"{escape_text(self.comments)}\"\\n')\n        buffer.write(ind + '\\t}\\n')\n\n        buffer.write(ind + '}\\n')", 'expect': 'C06.V15'},
    {'id': 'multiblend_outside_dispinfo', 'file': 'vmf.py', 'find': "        buffer.write(f'{ind}\\t\\t}}\\n')\n\n        if disp_multiblend and any(\n            vert.multi_blend or vert.multi_alpha or vert.multi_colors is not None\n            for vert in self._disp_verts\n        ):", 'replace': "        buffer.write(f'{ind}\\t\\t}}\\n{ind}\\t}}\\n')\n\n        if disp_multiblend and any(\n            vert.multi_blend or vert.multi_alpha or vert.multi_colors is not None\n            for vert in self._disp_verts\n        ):",
     'extra': [{'file': 'vmf.py', 'find': "        # Close the dispinfo block - the multiblend data lives inside it.\n        buffer.write(f'{ind}\\t}}\\n')\n", 'replace': ""}], 'expect': 'C06.V9'},
    {'id': 'entities_two_passes', 'file': 'vmf.py', 'find': "        for item in tree:\n            if item.name == 'entity':\n                map_obj.add_ent(\n                    Entity.parse(map_obj, item, False)  # hidden=False\n                )\n            elif item.name == 'hidden':\n                for ent in item:\n                    map_obj.add_ent(\n                        Entity.parse(map_obj, ent, True)  # hidden=True\n                    )\n",
     'replace': "        for item in tree.find_all('Entity'):\n            map_obj.add_ent(\n                Entity.parse(map_obj, item, False)  # hidden=False\n            )\n        for hidden_ent in tree.find_all('hidden'):\n            for ent in hidden_ent:\n                map_obj.add_ent(\n                    Entity.parse(map_obj, ent, True)  # hidden=True\n                )\n", 'expect': 'C06.V12'},
    {'id': 'fixup_index_two_chars', 'file': 'vmf.py', 'find': "                ind_str = name[7:]", 'replace': "                ind_str = name[-2:]", 'expect': 'C06.V10'},
    {'id': 'viewport_zero_is_marker', 'file': 'vmf.py', 'find': "        markers: list[Axis] = [axis for axis in ('x', 'y', 'z') if pos[axis] in (-65536.0, 65536.0)]", 'replace': "        markers: list[Axis] = [axis for axis in ('x', 'y', 'z') if pos[axis] in (0.0, -65536.0, 65536.0)]", 'expect': 'C06.V11'},
    {'id': 'hidden_solid_inherits_flag', 'file': 'vmf.py', 'find': "solids.append(Solid.parse(vmf_file, brush_prop, hidden=True))", 'replace': "solids.append(Solid.parse(vmf_file, brush_prop, hidden=hidden))", 'expect': 'C06.V13'},
    {'id': 'active_cam_zero_based', 'file': 'vmf.py', 'find': "        map_spawn = tree.find_block('world', or_blank=True)\n", 'replace': "        if map_obj.active_cam >= len(map_obj.cameras):\n            map_obj.active_cam = -1\n        map_spawn = tree.find_block('world', or_blank=True)\n", 'expect': 'C06.V14'},
    {'id': 'active_cam_one_based_ok', 'file': 'vmf.py', 'find': "        map_spawn = tree.find_block('world', or_blank=True)\n", 'replace': "        if map_obj.active_cam > len(map_obj.cameras):\n            map_obj.active_cam = -1\n        map_spawn = tree.find_block('world', or_blank=True)\n", 'expect': None, 'note': 'negative control: a 1-based validity check'},
    {'id': 'fixup_split_whitespace', 'file': 'vmf.py', 'find': "                        vals = item.value.split(\" \", 1)", 'replace': "                        vals = item.value.split(None, 1)", 'expect': 'C06.V7'},
    {'id': 'tri_tags_wrong_stride', 'file': 'vmf.py', 'find': "                    vert = self._disp_verts[y * size + x]", 'replace': "                    vert = self._disp_verts[y * tri_tags_count + x]", 'expect': 'C06.V8'},
    {'id': 'world_groups_dropped', 'file': 'vmf.py', 'find': "                    include_groups=_is_worldspawn,", 'replace': "                    include_groups=not _is_worldspawn,", 'expect': 'C06.V6'},
    {'id': 'triangle_tags_per_vertex', 'file': 'vmf.py', 'find': "                for vert in self._disp_verts[size * y:size * (y+1) - 1]", 'replace': "                for vert in self._disp_verts[size * y:size * (y+1)]", 'expect': 'C06.V4'},
    {'id': 'material_unescaped', 'file': 'vmf.py', 'find': "\"material\" \"{escape_text(self.mat)}\"", 'replace': "\"material\" \"{self.mat}\"", 'expect': 'C06.V2'},
    {'id': 'solid_reads_group', 'file': 'vmf.py', 'find': "            elif v.name == 'groupid':\n                group_id = int(v.value)", 'replace': "            elif v.name == 'group':\n                group_id = int(v.value)", 'expect': 'C06.V1'},
    {'id': 'side_writes_lightmap_key', 'file': 'vmf.py', 'find': "f'{ind}\\t\"lightmapscale\" \"{self.lightmap}\"\\n'", 'replace': "f'{ind}\\t\"lightmap_scale\" \"{self.lightmap}\"\\n'", 'expect': 'C06.V1'},
    {'id': 'cordon_reads_min', 'file': 'vmf.py', 'find': "        min_ = bounds.vec('mins', 0, 0, 0)", 'replace': "        min_ = bounds.vec('min', 0, 0, 0)", 'expect': 'C06.V1'},
    {'id': 'visgroup_name_unescaped', 'file': 'vmf.py', 'find': "f'{ind}\\t\"name\" \"{escape_text(self.name)}\"\\n'\n            f'{ind}\\t\"visgroupid\"", 'replace': "f'{ind}\\t\"name\" \"{self.name}\"\\n'\n            f'{ind}\\t\"visgroupid\"", 'expect': 'C06.V2'},
    {'id': 'comments_unescaped', 'file': 'vmf.py', 'find': "\"comments\" \"{escape_text(self.comments)}\"", 'replace': "\"comments\" \"{self.comments}\"", 'expect': 'C06.V2'},
    {'id': 'elevation_g', 'file': 'vmf.py', 'find': "\"elevation\" \"{self.disp_elevation}\"", 'replace': "\"elevation\" \"{self.disp_elevation:g}\"", 'expect': 'C06.V3'},
    {'id': 'alphas_row_reader_len', 'file': 'vmf.py', 'find': "self._iter_disp_row(disp_tree, 'alphas', size)", 'replace': "self._iter_disp_row(disp_tree, 'alphas', size - 1)", 'expect': 'C06.V4'},
    {'id': 'side_id_not_passed', 'file': 'vmf.py', 'find': "            planes,\n            tree.int('id', -1),\n            tree.int('lightmapscale', 16),", 'replace': "            planes,\n            -1,\n            tree.int('lightmapscale', 16),", 'expect': 'C06.V5'},
    {'id': 'preserve_ids_dropped', 'file': 'vmf.py', 'find': "            preserve_ids=preserve_ids,\n", 'replace': "", 'expect': 'C06.V5'},
]
