"""C01 - KeyValues1 serialise/parse round trip: structural clauses (DESIGN.md C01).

  R1  escape discipline: in `_serialise` and deprecated `export`, every formatted expression inside a quoted
      region that derives from self._real_name / self._value is wrapped in escape_text(...).
  R2  option independence: indentation parameters and values derived from them occur only outside quoted
      regions, tree content only inside; no branch tests an indentation parameter.
  R3  serialisation is read-only: serialise/_serialise/export/__str__ contain no construct mutating self
      (or anything reachable from it).
  R4  reader configuration: Keyvalues.parse builds its Tokenizer with allow_escapes passed through, default True;
      the writer escapes unconditionally.
  R5  order/shape: `_serialise`/`export` iterate self._value in list order exactly once per block and recurse with
      the same function; `parse` only appends to the current block, except the flag-replacement sites which are
      guarded by a PROP_FLAG token the writer never emits (no '[' outside quotes in writer literals).
"""
from __future__ import annotations

import ast
import re
from typing import Any, List, Set, Tuple

from engine.srcmatch import U
from engine.effects import borrowed_names, mutations
from engine.kvtext import conversion_of, emits_in
from engine.model import AnalysisError, Program, call_name, dotted, names_in, walk_no_nested

LEVEL = 'other'

CONTENT_ATTRS = {'_real_name', '_value', 'real_name', 'value', 'name'}
INDENT_PARAMS = {'indent', 'open_brace', 'close_brace', 'cur_indent', 'start_indent', 'indent_braces'}


def _derives_from_content(node: ast.AST) -> bool:
    for n in ast.walk(node):
        # `self.<field>` or the same field of a child the writer handles itself (`child._real_name` in a loop over the children)
        if isinstance(n, ast.Attribute) and n.attr in CONTENT_ATTRS | {'_folded_name'} and isinstance(n.value, ast.Name) and n.value.id not in ('file', 'os', 'sys'):
            return True
    return False


def _local_defs(fn: ast.AST) -> dict:
    """name -> list of value expressions assigned to that local in fn (simple Name targets only)."""
    out: dict = {}
    for n in walk_no_nested(fn):
        if isinstance(n, ast.Assign):
            for t in n.targets:
                if isinstance(t, ast.Name):
                    out.setdefault(t.id, []).append(n.value)
        elif isinstance(n, ast.AnnAssign) and n.value is not None and isinstance(n.target, ast.Name):
            out.setdefault(n.target.id, []).append(n.value)
    return out


def _escaped_or_literal(node: ast.AST, defs: dict, depth: int = 0) -> bool:
    """Is the expression, on every alternative, either escape_text(<anything>) or a string literal?"""
    if depth > 6:
        return False
    if isinstance(node, ast.Constant) and isinstance(node.value, str):
        return True
    if isinstance(node, ast.IfExp):
        return _escaped_or_literal(node.body, defs, depth + 1) and _escaped_or_literal(node.orelse, defs, depth + 1)
    if isinstance(node, ast.Call):
        return conversion_of(node)[0] == 'escape_text'
    if isinstance(node, ast.Name) and node.id in defs:
        return all(_escaped_or_literal(v, defs, depth + 1) for v in defs[node.id])
    return False


SPECIAL_CHARS = ['"', '\\', '\r', '\n', '\t', '\x07', '\x08', '\x0b', '\x0c']     # what escape_text rewrites, plus CR which the reader folds


def escape_status(node: ast.AST, defs: dict, fn: ast.AST, mod: Any, depth: int = 0) -> Tuple[str, str]:
    """('ok' | 'bad' | 'unknown', reason): is the expression, on every path, escape_text(...) of content or a literal?
    Helpers that wrap escape_text and memo tables that hold escaped text are followed; nothing is inferred from names."""
    if depth > 6:
        return 'unknown', 'too deep'
    if isinstance(node, ast.Constant) and isinstance(node.value, str):
        return 'ok', ''
    if isinstance(node, ast.IfExp):
        a, b = escape_status(node.body, defs, fn, mod, depth + 1), escape_status(node.orelse, defs, fn, mod, depth + 1)
        for st in ('bad', 'unknown'):
            for x in (a, b):
                if x[0] == st:
                    return x
        return 'ok', ''
    if isinstance(node, ast.Call):
        if conversion_of(node)[0] == 'escape_text':
            return 'ok', ''
        hname = node.func.id if isinstance(node.func, ast.Name) else None
        if hname and mod.has_func(hname) and len(node.args) == 1:
            return helper_status(mod.func(hname), mod)
        return 'unknown', f'call `{U(node.func)}` is not escape_text'
    if isinstance(node, ast.Subscript) and isinstance(node.value, ast.Name):
        return memo_status(node, fn, defs, mod, depth)
    if isinstance(node, ast.Name) and node.id in defs:
        worst = ('ok', '')
        for v in defs[node.id]:
            st = escape_status(v, defs, fn, mod, depth + 1)
            if st[0] == 'bad':
                return st
            if st[0] == 'unknown':
                worst = st
        return worst
    if _derives_from_content(node):
        return 'bad', 'tree content written as it is'
    return 'unknown', f'`{U(node)[:40]}` not understood'


def helper_status(h: ast.AST, mod: Any) -> Tuple[str, str]:
    """a one-parameter wrapper around escape_text, possibly with a fast path `if PATTERN.fullmatch(text): return text`"""
    params = [a.arg for a in h.args.args]          # type: ignore[attr-defined]
    if len(params) != 1:
        return 'unknown', 'helper arity'
    prm = params[0]
    for r in [x for x in ast.walk(h) if isinstance(x, ast.Return) and x.value is not None]:
        v = r.value
        if isinstance(v, ast.Call) and conversion_of(v)[0] == 'escape_text' and any(isinstance(a, ast.Name) and a.id == prm for a in v.args):
            continue
        if isinstance(v, ast.Name) and v.id == prm:
            # raw return: only sound if the guarding test can hold for no string containing a character that needs escaping
            par = mod.parents.get(r)
            if not isinstance(par, ast.If) or r not in par.body:
                return 'bad', f'{h.name}() returns its argument unescaped'       # type: ignore[attr-defined]
            pat = None
            for c in ast.walk(par.test):
                if isinstance(c, ast.Call) and isinstance(c.func, ast.Attribute) and c.func.attr == 'fullmatch' and isinstance(c.func.value, ast.Name):
                    try:
                        pv = mod.global_assign(c.func.value.id)
                    except AnalysisError:
                        pv = None
                    if isinstance(pv, ast.Call) and dotted(pv.func) in ('re.compile', 'compile') and pv.args and isinstance(pv.args[0], ast.Constant):
                        pat = pv.args[0].value
            if pat is None:
                return 'unknown', f'fast path test `{U(par.test)[:50]}` of {h.name}() not understood'      # type: ignore[attr-defined]
            try:
                rx = re.compile(pat)
            except re.error:
                return 'unknown', 'fast path pattern does not compile'
            hit = [c for c in SPECIAL_CHARS if rx.fullmatch('a' + c + 'b') or rx.fullmatch(c)]
            if hit:
                return 'bad', (f'{h.name}() returns text unescaped when it matches `{pat}`, and that pattern accepts {hit[0]!r}: the character is written raw '      # type: ignore[attr-defined]
                               '(a raw CR inside quotes is read back as LF, a quote ends the string)')
            continue
        # the value taken apart and only some of the pieces escaped: `parts = RX.split(text); parts[::2] = map(escape_text, parts[::2]);
        # return ''.join(parts)` - the other pieces (what the pattern matched) are written as they are
        pieces = {t.id for a in ast.walk(h) if isinstance(a, ast.Assign) and isinstance(a.value, ast.Call) and isinstance(a.value.func, ast.Attribute) and a.value.func.attr in ('split', 'rsplit', 'partition', 'rpartition', 'findall')
                  and any(isinstance(x, ast.Name) and x.id == prm for x in ast.walk(a.value)) for t in a.targets if isinstance(t, ast.Name)}
        partial = [a for a in ast.walk(h) if isinstance(a, ast.Assign) and len(a.targets) == 1 and isinstance(a.targets[0], ast.Subscript) and isinstance(a.targets[0].value, ast.Name) and a.targets[0].value.id in pieces
                   and isinstance(a.targets[0].slice, ast.Slice) and any(isinstance(c, ast.Name) and c.id == 'escape_text' for c in ast.walk(a.value))]
        joined = isinstance(v, ast.Call) and isinstance(v.func, ast.Attribute) and v.func.attr == 'join' and v.args and isinstance(v.args[0], ast.Name) and v.args[0].id in pieces
        if partial and joined:
            return 'bad', (f'{h.name}() splits its argument, escapes only the slice `{U(partial[0].targets[0])}` of the pieces and joins all of them: whatever the other pieces hold '      # type: ignore[attr-defined]
                           '(text that merely looks like an escape sequence - a Windows path, a doubled backslash) is written raw and decoded when the file is read back')
        return 'unknown', f'{h.name}() returns `{U(v)[:40]}`'        # type: ignore[attr-defined]
    return 'ok', ''


def memo_status(sub: ast.Subscript, fn: ast.AST, defs: dict, mod: Any, depth: int) -> Tuple[str, str]:
    """`table[key]` read back into a quoted slot: every value stored in the table must be escaped text of exactly the string used as key"""
    tbl = sub.value.id       # type: ignore[attr-defined]
    stores = [(t, a.value) for a in walk_no_nested(fn) if isinstance(a, ast.Assign) for t in a.targets if isinstance(t, ast.Subscript) and dotted(t.value) == tbl]
    if not stores:
        return 'unknown', f'table `{tbl}` is filled elsewhere'
    for t, v in stores:
        if not (isinstance(v, ast.Call) and conversion_of(v)[0] == 'escape_text' and v.args):
            return 'unknown', f'`{tbl}` also holds `{U(v)[:40]}`'
        if U(t.slice) != U(v.args[0]) or U(sub.slice) != U(t.slice):
            return 'bad', (f'the table `{tbl}` is keyed by `{U(t.slice)}` but holds the escaped form of `{U(v.args[0])}`: two different strings with the same key '
                           '(names differing only in case) are written with the spelling of the first')
    return 'ok', ''


STRUCTURAL_TESTS = ('isinstance(self._value, list)', 'self._real_name is None', 'self._real_name is not None',
                    'not isinstance(self._value, list)', 'isinstance(self._value, str)', 'not isinstance(self._value, str)')


def run(ctx: Any, prog: Program) -> None:
    kv = prog.module('keyvalues')
    ctx.not_decided += ['value-level equality parse(serialise(t)) == t for all strings (the character-level inverse law is C02)',
                        'the block-stack logic of parse on arbitrary token streams']
    ctx.assumptions += ['C02 (escape_text / string handler inverse law) for the content of quoted slots']
    ctx.rule('C01.R1', 'tree content in a quoted slot of the KV1 writers is wrapped in escape_text', floor=6)
    ctx.rule('C01.R2', 'indentation options occur only outside quotes and are never branched on; content only inside quotes', floor=8)
    ctx.rule('C01.R3', 'serialise/_serialise/export/__str__ do not mutate the tree', floor=4)
    ctx.rule('C01.R4', 'Keyvalues.parse passes allow_escapes through to its Tokenizer, default True', floor=2)
    ctx.rule('C01.R6', 'the writers branch on tree content only through the structural tests `isinstance(self._value, list)` and `self._real_name is None`', floor=4)
    ctx.rule('C01.R5', 'children are written in list order exactly once by self-recursion; parse only appends (flag replacement needs a PROP_FLAG token the writer cannot emit)', floor=6)

    writers = {'Keyvalues._serialise': kv.func('Keyvalues._serialise'), 'Keyvalues.export': kv.func('Keyvalues.export')}
    for qual, fn in writers.items():
        params = {a.arg for a in fn.args.args + fn.args.kwonlyargs} & INDENT_PARAMS
        # a private writer takes its content from self: every `str` parameter it has is a layout option, whatever it is called
        if qual.split('.')[-1].startswith('_'):
            params |= {a.arg for a in fn.args.args[1:] + fn.args.kwonlyargs if a.annotation is not None and ast.unparse(a.annotation) in ('str', 'builtins.str')}
        # locals derived from indentation params (child_indent = f"{cur_indent}{indent}")
        derived: Set[str] = set(params)
        changed = True
        while changed:
            changed = False
            for n in walk_no_nested(fn):
                if isinstance(n, ast.Assign) and len(n.targets) == 1 and isinstance(n.targets[0], ast.Name):
                    if set(names_in(n.value)) & derived and not _derives_from_content(n.value) and n.targets[0].id not in derived:
                        derived.add(n.targets[0].id)
                        changed = True
        defs = _local_defs(fn)
        content_locals: Set[str] = set()
        changed = True
        while changed:
            changed = False
            for nm, vals in defs.items():
                if nm not in content_locals and any(_derives_from_content(v) or (set(names_in(v)) & content_locals) for v in vals):
                    content_locals.add(nm)
                    changed = True
        # R6: content-dependent control flow
        for n in walk_no_nested(fn):
            if isinstance(n, (ast.If, ast.IfExp, ast.While)) or (isinstance(n, ast.Assert)):
                test = n.test
                if _derives_from_content(test) or (set(names_in(test)) & content_locals):
                    if isinstance(n, ast.Assert):
                        continue
                    src = U(test)
                    ctx.check('C01.R6', src in STRUCTURAL_TESTS, kv, n if isinstance(n, ast.stmt) else kv.parents.get(n, n),
                              f'the writer branches on tree content through `{src}`: the emitted token stream then depends on the value of a name/value, '
                              'not only on the node kind (block/leaf/root)', text='content test ' + src)
        emits = emits_in(fn)
        if not emits:
            raise AnalysisError(f'{qual}: no write()/yield emissions found')
        for em in emits:
            if em.ends_open and not (isinstance(em.node, ast.Yield) and not em.slots and not any(p.kind == 'lit' and '"' in p.text for p in em.pieces)):
                # an emission that stops mid-line/mid-quote cannot be lexed on its own
                if any(p.kind == 'lit' for p in em.pieces) and em.slots:
                    raise AnalysisError(f'{qual}:{em.node.lineno}: emission does not end at a line end; quoting context unknown')
            for s in em.slots:
                if isinstance(s.node, (ast.GeneratorExp, ast.ListComp)) or (isinstance(em.node, ast.Yield) and not any(p.kind == 'lit' for p in em.pieces)):
                    continue  # `yield from`-style pass through of already lexed child lines
                content = _derives_from_content(s.node) or bool(set(names_in(s.node)) & content_locals)
                uses_indent = bool(set(names_in(s.node)) & derived)
                if s.quoted:
                    if content:
                        status, why = escape_status(s.node, defs, fn, kv)
                        if status == 'unknown':
                            ctx.shape('C01.R1', False, kv, s.emit, f'`{U(s.node)}` in {s.position} position: {why}', text=f'{s.position} slot {U(s.node)}')
                        else:
                            ctx.check('C01.R1', status == 'ok', kv, s.emit,
                                      f'`{U(s.node)}` is written inside quotes in {s.position} position: {why or "escaped"}' + ('' if status == 'ok' else
                                      '; a quote or backslash in it ends the token early / is decoded as an escape by the reader' if why == 'tree content written as it is' else ''),
                                      text=f'{s.position} slot {U(s.node)}')
                    folded_ = [x for x in ast.walk(s.node) if isinstance(x, ast.Attribute) and x.attr in ('name', '_folded_name') and isinstance(x.value, ast.Name)]
                    if folded_:
                        # `.name` is the case-folded spelling (a property over _folded_name): what has to be written is the real one
                        ctx.check('C01.R1', False, kv, s.emit, f'`{U(s.node)}` writes the case-folded name (`{U(folded_[0])}`) where the tree holds `_real_name`: "GameInfo" is written as "gameinfo" and '
                                  'read back as a different name', text=f'{s.position} slot {U(s.node)} real spelling')
                    ctx.check('C01.R2', not uses_indent, kv, s.emit,
                              f'indentation option `{U(s.node)}` is written inside a quoted string: the token stream would depend on it',
                              text=f'quoted slot {U(s.node)} indent-free')
                    if not content and not uses_indent:
                        # a slot unpacked from `escape_text(<several content strings joined by SEP>).partition/split(SEP)`: the separator is an
                        # ordinary character a name may contain, so the pieces are cut in the wrong place
                        split_def = None
                        if isinstance(s.node, ast.Name):
                            for a in ast.walk(fn):
                                if isinstance(a, ast.Assign) and isinstance(a.targets[0], (ast.Tuple, ast.List)) and any(isinstance(e, ast.Name) and e.id == s.node.id for e in a.targets[0].elts) \
                                        and isinstance(a.value, ast.Call) and isinstance(a.value.func, ast.Attribute) and a.value.func.attr in ('partition', 'rpartition', 'split', 'rsplit') \
                                        and _derives_from_content(a.value.func.value):
                                    split_def = a
                        if split_def is not None:
                            ctx.check('C01.R1', False, kv, split_def, f'`{U(split_def)[:90]}`: name and value are escaped as one string and separated again on `{U(split_def.value.args[0]) if split_def.value.args else "whitespace"}`, '
                                      'a character that escape_text leaves alone and that a name may contain itself - such a name is cut in the wrong place', text=f'{s.position} slot {U(s.node)} recovered by splitting')
                            continue
                        raise AnalysisError(f'{qual}:{em.node.lineno}: quoted slot `{U(s.node)}` is neither tree content nor an indentation option')
                else:
                    ctx.check('C01.R2', not content, kv, s.emit,
                              f'tree content `{U(s.node)}` is written outside quotes', text=f'bare slot {U(s.node)}')
                    if not content and not uses_indent:
                        raise AnalysisError(f'{qual}:{em.node.lineno}: bare slot `{U(s.node)}` is not an indentation option')
        # no branch on indentation options
        for n in walk_no_nested(fn):
            if isinstance(n, (ast.If, ast.IfExp, ast.While)):
                used = set(names_in(n.test)) & derived
                ctx.check('C01.R2', not used, kv, n, f'branch tests indentation option(s) {sorted(used)}: output shape may depend on them',
                          text='branch ' + U(n.test))
        # literals outside quotes never contain '[' (PROP_FLAG) - needed by R5
        for em in emits:
            for ln in em.lines:
                bare = ln.bare_text.replace('\x00', '')
                ctx.check('C01.R5', '[' not in bare and ']' not in bare, kv, em.node,
                          'writer emits a bracket outside quotes; the reader would see a PROP_FLAG token', text=f'bare literal {bare!r}')
        # R5: iteration over self._value, recursion with same function
        loops = [n for n in walk_no_nested(fn) if isinstance(n, (ast.For, ast.comprehension))]
        for lp in loops:
            it = lp.iter
            if dotted(it) == 'self._value':
                body_calls = []
                holder = lp if isinstance(lp, ast.For) else kv.parents.get(lp)
                for c in ast.walk(holder):
                    if isinstance(c, ast.Call) and isinstance(c.func, ast.Attribute) and isinstance(c.func.value, ast.Name):
                        tgt = lp.target.id if isinstance(lp.target, ast.Name) else None
                        if c.func.value.id == tgt:
                            body_calls.append(c.func.attr)
                ctx.check('C01.R5', body_calls == [fn.name], kv, holder if isinstance(holder, ast.stmt) else lp.iter,
                          f'each child must be written exactly once by recursion into {fn.name}; calls on the child: {body_calls}',
                          text=f'for child in self._value -> {body_calls}')
            elif _derives_from_content(it):
                ctx.check('C01.R5', False, kv, it, f'children iterated through `{U(it)}` instead of self._value in list order',
                          text='iteration ' + U(it))
    # ---- R3 ------------------------------------------------------------------------------------
    for qual in ('Keyvalues.serialise', 'Keyvalues._serialise', 'Keyvalues.export', 'Keyvalues.__str__'):
        fn = kv.func(qual)
        muts = mutations(fn, {'self'})
        ctx.check('C01.R3', not muts, kv, muts[0].node if muts else fn,
                  ('mutates the tree while serialising: ' + '; '.join(f'{m.kind} {m.target}' for m in muts)) if muts else 'no mutation of self',
                  text=(f'{muts[0].kind} {muts[0].target}' if muts else 'read-only'), func=qual)
    # ---- R4 ------------------------------------------------------------------------------------
    parse = kv.func('Keyvalues.parse')
    default = None
    for a, d in zip(parse.args.kwonlyargs, parse.args.kw_defaults):
        if a.arg == 'allow_escapes':
            default = d
    pos = parse.args.args
    for a, d in zip(pos[len(pos) - len(parse.args.defaults):], parse.args.defaults):
        if a.arg == 'allow_escapes':
            default = d
    if default is None:
        raise AnalysisError('Keyvalues.parse: parameter allow_escapes not found')
    ctx.check('C01.R4', isinstance(default, ast.Constant) and default.value is True, kv, parse,
              'allow_escapes must default to True: the writer escapes unconditionally', text='allow_escapes default')
    tcalls = [c for c in ast.walk(parse) if isinstance(c, ast.Call) and dotted(c.func) == 'Tokenizer']
    if len(tcalls) != 1:
        raise AnalysisError(f'Keyvalues.parse: expected one Tokenizer(...) construction, found {len(tcalls)}')
    kw = {k.arg: k.value for k in tcalls[0].keywords}
    ok = 'allow_escapes' in kw and isinstance(kw['allow_escapes'], ast.Name) and kw['allow_escapes'].id == 'allow_escapes'
    ctx.check('C01.R4', ok, kv, tcalls[0], 'Tokenizer must be constructed with allow_escapes=allow_escapes', text='Tokenizer(allow_escapes=...)')
    # ... and the text itself: the first argument is the parameter, and nothing in parse() rebinds that parameter (a filter, decoder or
    # line-wise pre-pass in front of the tokenizer sees chunks, not tokens - what it drops or rewrites depends on where the input was cut)
    _pp = [a.arg for a in parse.args.args if a.arg not in ('self', 'cls')]
    src_param = _pp[0] if _pp else None
    first = tcalls[0].args[0] if tcalls[0].args else kw.get('data')
    ctx.check('C01.R4', src_param is not None and isinstance(first, ast.Name) and first.id == src_param, kv, tcalls[0],
              f'Tokenizer is constructed on `{U(first)[:50] if first is not None else "?"}`, not on the `{src_param}` parse() was given', text='Tokenizer(<the input itself>)')
    rebinds = [n for n in ast.walk(parse) if isinstance(n, ast.Name) and n.id == src_param and isinstance(n.ctx, ast.Store)]
    # decoding bytes as a whole is not a pre-pass over chunks; a value that does not come from the input at all is something else entirely
    for rb in list(rebinds):
        asg = kv.parents.get(rb)
        val = getattr(asg, 'value', None)
        if isinstance(val, ast.Call) and isinstance(val.func, ast.Attribute) and val.func.attr == 'decode' and dotted(val.func.value) == src_param:
            rebinds.remove(rb)
        elif val is None or not any(isinstance(x, ast.Name) and x.id == src_param for x in ast.walk(val)):
            ctx.shape('C01.R4', False, kv, rb, f'`{src_param}` is rebound to something not derived from it (`{U(asg)[:60]}`)', text='input reaches the tokenizer unchanged')
            rebinds.remove(rb)
    ctx.check('C01.R4', not rebinds, kv, rebinds[0] if rebinds else parse, f'Keyvalues.parse rebinds its input `{src_param}` before tokenizing (`{U(kv.parents.get(rebinds[0]))[:70] if rebinds else ""}`): '
              'a pre-pass over the raw chunks cannot know whether it is inside a quoted string, so content is altered depending on how the text was split', text='input reaches the tokenizer unchanged')
    # ... and the names: what parse() stores as a keyvalue's real name is the token text itself (interned or not).  Anything computed from it - the
    # case-folded form on some condition, a stripped or normalised spelling - is not the name that was written (`islower()` does not mean
    # `casefold()` changes nothing: 'straße'.casefold() == 'strasse').
    tok_vars = {l_.target.elts[1].id for l_ in ast.walk(parse) if isinstance(l_, ast.For) and isinstance(l_.target, ast.Tuple) and len(l_.target.elts) == 2 and all(isinstance(e_, ast.Name) for e_ in l_.target.elts)
                and any(isinstance(x, ast.Name) and x.id in ('tokenizer',) for x in ast.walk(l_.iter))}
    name_stores = [a for a in ast.walk(parse) if isinstance(a, ast.Assign) and any(isinstance(t, ast.Attribute) and t.attr in ('real_name', '_real_name') for t in a.targets)]
    ctx.shape('C01.R4', bool(tok_vars) and bool(name_stores), kv, parse, 'Keyvalues.parse: token loop / store of the real name not found', text='parsed name stored as read')

    def _alts(e: ast.AST) -> List[ast.AST]:
        if isinstance(e, ast.IfExp):
            return _alts(e.body) + _alts(e.orelse)
        if isinstance(e, ast.Call) and dotted(e.func) in ('sys.intern', 'intern', 'str') and len(e.args) == 1:
            return _alts(e.args[0])
        if isinstance(e, ast.Name) and e.id not in tok_vars:
            defs_ = [a.value for a in ast.walk(parse) if isinstance(a, ast.Assign) and any(isinstance(t, ast.Name) and t.id == e.id for t in a.targets)]
            if len(defs_) == 1:
                return _alts(defs_[0])
            if not defs_:
                # a module-level constant (`_SKIPPED_BLOCK_NAME = '<skipped>'`)
                try:
                    g_ = kv.global_assign(e.id)
                except Exception:
                    g_ = None
                if isinstance(g_, ast.Constant):
                    return [g_]
        return [e]
    # the token text itself is not rewritten before it is stored: the loop variable holding it is only ever bound by the loop
    for tv_ in sorted(tok_vars):
        rebinds_ = [a for a in ast.walk(parse) if isinstance(a, (ast.Assign, ast.AugAssign, ast.AnnAssign)) for t in (a.targets if isinstance(a, ast.Assign) else [a.target])
                    for x in ast.walk(t) if isinstance(x, ast.Name) and x.id == tv_ and isinstance(x.ctx, ast.Store)]
        ctx.check('C01.R4', not rebinds_, kv, rebinds_[0] if rebinds_ else parse, f'Keyvalues.parse rewrites the token text before using it (`{U(rebinds_[0])[:70] if rebinds_ else ""}`): a name (or value) that the rewrite changes - a decomposed '
                  'accent under Unicode normalisation, say - is stored as another string than the writer produced', text=f'token variable `{tv_}` is bound by the loop only')
    for ns in name_stores:
        bad = [a for a in _alts(ns.value) if not (isinstance(a, ast.Name) and a.id in tok_vars) and not isinstance(a, ast.Constant)]          # literals: the root, the placeholder of a skipped block
        if bad and not any(isinstance(c, ast.Call) and isinstance(c.func, ast.Attribute) and c.func.attr in ('casefold', 'lower', 'upper', 'strip', 'title', 'replace') for b in bad for c in ast.walk(b)):
            ctx.shape('C01.R4', False, kv, ns, f'real name stored as `{U(ns.value)[:60]}`: not recognised', text='parsed name stored as read')
            continue
        ctx.check('C01.R4', not bad, kv, ns, f'Keyvalues.parse stores `{U(bad[0])[:60] if bad else ""}` as the real name of a keyvalue on some path, not the token text: a name whose case-folded form differs from it while '
                  '`islower()` is true (straße, the micro sign, final sigma) comes back as another string', text='parsed name stored as read')
    ok = 'string_bracket' in kw and isinstance(kw['string_bracket'], ast.Constant)
    # ---- R5 (parse side) ---------------------------------------------------------------------------
    # list mutations of the current block: only .append, or index-store guarded by a PROP_FLAG test
    # the local(s) holding the child list of the block being filled: bound together with / from a `._value` attribute
    child_lists = set()
    for a_ in walk_no_nested(parse):
        if isinstance(a_, ast.Assign):
            names_ = [t.id for t in a_.targets if isinstance(t, ast.Name)]
            if names_ and (any(isinstance(t, ast.Attribute) and t.attr == '_value' for t in a_.targets) or (isinstance(a_.value, ast.Attribute) and a_.value.attr == '_value')):
                child_lists.update(names_)
    if not child_lists:
        raise AnalysisError('Keyvalues.parse: the local holding the current child list (bound from/with `._value`) was not found')
    b = borrowed_names(parse, set(child_lists))
    # Token.PROP_FLAG, or a local alias of it (`PROP_FLAG: Final = Token.PROP_FLAG`)
    prop_flag_names = {'PROP_FLAG'} | {t.id for a_ in ast.walk(parse) if isinstance(a_, (ast.Assign, ast.AnnAssign)) and getattr(a_, 'value', None) is not None and dotted(a_.value) == 'Token.PROP_FLAG'
                                       for t in (a_.targets if isinstance(a_, ast.Assign) else [a_.target]) if isinstance(t, ast.Name)}
    for n in walk_no_nested(parse):
        if isinstance(n, ast.Call) and isinstance(n.func, ast.Attribute) and dotted(n.func.value) in child_lists:
            if n.func.attr in ('insert', 'sort', 'reverse', 'pop', 'remove', 'extend', 'clear'):
                ctx.check('C01.R5', False, kv, n, f'parse reorders/drops children via cur_block_contents.{n.func.attr}()')
            elif n.func.attr == 'append':
                ctx.check('C01.R5', True, kv, n, 'append keeps document order')
        if isinstance(n, ast.Assign):
            for t in n.targets:
                if isinstance(t, ast.Subscript) and dotted(t.value) in child_lists:
                    # must be nested under `if <x> is PROP_FLAG`
                    p = kv.parents.get(n)
                    guarded = False
                    while p is not None and p is not parse:
                        if isinstance(p, ast.If) and any((isinstance(c, ast.Name) and c.id in prop_flag_names) or dotted(c) == 'Token.PROP_FLAG' for c in ast.walk(p.test)) \
                                and not _in_orelse(p, n, kv):
                            guarded = True
                        p = kv.parents.get(p)
                    ctx.check('C01.R5', guarded, kv, n, 'replacement of an already parsed child must be reachable only after a PROP_FLAG token')

    # ---- R9: tree content is never part of a format template -----------------------------------------------------------------------------
    # `template % args` / `template.format(args)` re-read the template: a `%` (or a brace) that came from a name or value is then a
    # directive - `%%` silently becomes `%`, `100%` raises.  Content may only be an *argument* of such an operation.
    ctx.rule('C01.R9', 'text built from tree content is never the template of a % / str.format operation', floor=2)
    for qual, fn in writers.items():
        defs9 = _local_defs(fn)

        def content_in_template(e: ast.AST, depth: int = 0) -> Optional[ast.AST]:
            if depth > 4:
                return None
            if isinstance(e, ast.JoinedStr):
                for v in e.values:
                    if isinstance(v, ast.FormattedValue):
                        if _derives_from_content(v.value):
                            return v.value
                        h_ = content_in_template(v.value, depth + 1)
                        if h_ is not None:
                            return h_
                return None
            if isinstance(e, ast.Name):
                for d_ in defs9.get(e.id, []):
                    if _derives_from_content(d_):
                        return d_
                    h_ = content_in_template(d_, depth + 1)
                    if h_ is not None:
                        return h_
                return None
            if isinstance(e, ast.BinOp) and isinstance(e.op, ast.Add):
                return content_in_template(e.left, depth + 1) or content_in_template(e.right, depth + 1)
            if isinstance(e, ast.Call) and _derives_from_content(e):
                return e
            return None
        n9 = 0
        for n in walk_no_nested(fn):
            tmpl = None
            if isinstance(n, ast.BinOp) and isinstance(n.op, ast.Mod) and isinstance(n.left, (ast.JoinedStr, ast.Name, ast.BinOp, ast.Constant)):
                tmpl = n.left
            if isinstance(n, ast.Call) and isinstance(n.func, ast.Attribute) and n.func.attr in ('format', 'format_map') and isinstance(n.func.value, (ast.JoinedStr, ast.Name, ast.BinOp, ast.Constant)):
                tmpl = n.func.value
            if tmpl is None or (isinstance(tmpl, ast.Constant) and not isinstance(tmpl.value, str)):
                continue
            n9 += 1
            hz = content_in_template(tmpl)
            ctx.check('C01.R9', hz is None, kv, n, f'{qual} formats with the template `{U(tmpl)[:60]}`, which contains tree content (`{U(hz)[:40] if hz is not None else ""}`): a `%` or brace in that name/value is read as a '
                      'format directive - it is dropped, doubled or raises', func=qual, text=f'{qual}: template `{U(tmpl)[:40]}` free of content')
        ctx.check('C01.R9', True, kv, fn, f'{qual}: {n9} format operation(s) examined', func=qual, text=f'{qual}: format operations examined')
    # ---- R10: every parse reads only its own text ---------------------------------------------------------------------------------------------
    # Keyvalues.parse builds a fresh tokenizer; what that tokenizer returns must come from the text it was given.  Per-object state that the
    # token functions change in place (the push-back list) therefore has to be created per object, in __init__: a list/dict/set written as a
    # class-level default is ONE object shared by every tokenizer of the process - a token left pushed back by any earlier, unrelated
    # tokenizer is then delivered in front of this text.
    ctx.rule('C01.R10', 'tokenizer state that is mutated in place is created per instance in __init__, not shared as a class-level default', floor=1)
    tk10 = prog.module('tokenizer')
    cls_nodes = {c.name: c for c in tk10.tree.body if isinstance(c, ast.ClassDef)}
    tok_classes = [c for n_, c in cls_nodes.items() if n_.endswith('Tokenizer')]
    ctx.shape('C01.R10', len(tok_classes) >= 2, tk10, tk10.tree, 'tokenizer classes (BaseTokenizer, Tokenizer, ...) found', func='<module>', text='tokenizer classes')
    MUTATORS = {'append', 'extend', 'insert', 'pop', 'remove', 'clear', 'add', 'discard', 'update', 'setdefault', 'popitem', 'appendleft', 'popleft', 'sort', 'reverse'}
    for cnode in tok_classes:
        def bases_chain(c_: ast.ClassDef) -> List[ast.ClassDef]:
            out_ = [c_]
            for b_ in c_.bases:
                bn = dotted(b_)
                if bn in cls_nodes and cls_nodes[bn] not in out_:
                    out_ += bases_chain(cls_nodes[bn])
            return out_
        chain = bases_chain(cnode)
        meths = [m for c_ in chain for m in c_.body if isinstance(m, ast.FunctionDef)]
        mutated = set()
        for m in meths:
            me = m.args.args[0].arg if m.args.args else 'self'
            for n in ast.walk(m):
                if isinstance(n, ast.Call) and isinstance(n.func, ast.Attribute) and n.func.attr in MUTATORS and isinstance(n.func.value, ast.Attribute) and isinstance(n.func.value.value, ast.Name) and n.func.value.value.id == me:
                    mutated.add(n.func.value.attr)
                if isinstance(n, (ast.Subscript,)) and isinstance(n.ctx, (ast.Store, ast.Del)) and isinstance(n.value, ast.Attribute) and isinstance(n.value.value, ast.Name) and n.value.value.id == me:
                    mutated.add(n.value.attr)
        init_sets = {t.attr for c_ in chain for m in c_.body if isinstance(m, ast.FunctionDef) and m.name == '__init__' for a in ast.walk(m) if isinstance(a, (ast.Assign, ast.AnnAssign))
                     for t in (a.targets if isinstance(a, ast.Assign) else [a.target]) if isinstance(t, ast.Attribute) and isinstance(t.value, ast.Name) and t.value.id == m.args.args[0].arg}
        for attr in sorted(mutated):
            shared = [st for c_ in chain for st in c_.body if isinstance(st, (ast.Assign, ast.AnnAssign)) and st.value is not None
                      and any(isinstance(t, ast.Name) and t.id == attr for t in (st.targets if isinstance(st, ast.Assign) else [st.target]))
                      and (isinstance(st.value, (ast.List, ast.Dict, ast.Set, ast.ListComp, ast.DictComp, ast.SetComp)) or (isinstance(st.value, ast.Call) and dotted(st.value.func) in ('list', 'dict', 'set', 'deque', 'collections.deque', 'defaultdict', 'collections.defaultdict')))]
            ok10 = attr in init_sets or not shared
            ctx.check('C01.R10', ok10, tk10, shared[0] if shared else cnode, f'{cnode.name}: `{attr}` is changed in place by the token functions, has the class-level default `{U(shared[0].value)[:30] if shared else ""}` and is not assigned in __init__: '
                      'all tokenizers share that one object, so a token pushed back on one tokenizer is returned by the next one created (parse(serialise(tree)) then starts with a foreign token)',
                      func=cnode.name, text=f'{cnode.name}.{attr} is per-instance state')

    # ---- R8: what _serialise renders is what comes out ----------------------------------------------------------------------
    # The public wrapper only chooses the stream and the brace spelling.  Text that is rendered into a side buffer and then re-cut by a
    # line-oriented function (textwrap.indent, splitlines, replace) is re-interpreted *as lines*: characters inside the quotes that such a
    # function treats as line ends (U+001C-1E, U+0085, U+2028/9) get the indent inserted after them.
    ctx.rule('C01.R8', 'Keyvalues.serialise hands the rendered text on unchanged: it writes nothing itself and returns buffer.getvalue() as is', floor=2)
    ser = kv.func('Keyvalues.serialise')
    n_r8 = 0
    for c in walk_no_nested(ser):
        if isinstance(c, ast.Call) and isinstance(c.func, ast.Attribute) and c.func.attr in ('write', 'writelines') and c.args:
            n_r8 += 1
            rendered = any(isinstance(x, ast.Call) and isinstance(x.func, ast.Attribute) and x.func.attr in ('getvalue', 'read') for x in ast.walk(c.args[0]))
            plain = isinstance(c.args[0], ast.Call) and isinstance(c.args[0].func, ast.Attribute) and c.args[0].func.attr == 'getvalue' and not c.args[0].args
            ctx.check('C01.R8', not rendered or plain, kv, c, f'Keyvalues.serialise writes `{U(c.args[0])[:70]}`: the rendered text is passed through another function before it reaches the file, which re-reads quoted content '
                      'as layout (line-oriented helpers split at U+001C-1E, U+0085, U+2028/9 as well)', func='Keyvalues.serialise', text='rendered text written unchanged')
    for r in walk_no_nested(ser):
        if isinstance(r, ast.Return) and r.value is not None and not (isinstance(r.value, ast.Constant) and r.value.value is None):
            n_r8 += 1
            plain = isinstance(r.value, ast.Call) and isinstance(r.value.func, ast.Attribute) and r.value.func.attr == 'getvalue' and not r.value.args and isinstance(r.value.func.value, ast.Name)
            rendered = any(isinstance(x, ast.Call) and isinstance(x.func, ast.Attribute) and x.func.attr == 'getvalue' for x in ast.walk(r.value))
            ctx.shape('C01.R8', plain or rendered, kv, r, 'serialise returns the buffer contents', func='Keyvalues.serialise', text='rendered text returned unchanged')
            if plain or rendered:
                ctx.check('C01.R8', plain, kv, r, f'Keyvalues.serialise returns `{U(r.value)[:70]}` instead of the buffer contents as rendered', func='Keyvalues.serialise', text='rendered text returned unchanged')
    sers = [c for c in walk_no_nested(ser) if isinstance(c, ast.Call) and isinstance(c.func, ast.Attribute) and c.func.attr == '_serialise']
    ctx.shape('C01.R8', len(sers) >= 1, kv, ser, 'serialise delegates to _serialise', func='Keyvalues.serialise', text='delegates to _serialise')
    # ---- R7: what parse refuses -------------------------------------------------------------------------------------
    # The writer can put every character into a quoted string; the only content parse may refuse is a line break (LF / CR) in a name
    # (or, on request, in a value).  A rejection test on the token text that is broader than `'\n' in x or '\r' in x` refuses text
    # the writer produces.
    # ---- R11: every name the parser has read ends up in the tree ----------------------------------------------------------------------------
    # After `keyvalue = Keyvalues...` for a STRING token the rest of the arm either stores the object in the current block, raises, or skips
    # it because its [flag] is disabled (the writer cannot emit flags).  Any other `continue` drops a name/value pair the writer produced.
    ctx.rule('C01.R11', 'a keyvalue read by Keyvalues.parse is dropped only when its [flag] is disabled', floor=1)
    mk11 = [a for a in ast.walk(parse) if isinstance(a, ast.Assign) and len(a.targets) == 1 and isinstance(a.targets[0], ast.Name) and isinstance(a.value, ast.Call)
            and ((dotted(a.value.func) or '').split('.')[-1] in ('__new__', 'Keyvalues') or (dotted(a.value.func) or '').endswith('Keyvalues.__new__'))]
    # the object that is given the token text as its name (not the root, not the placeholder of a skipped block)
    named11 = {dotted(t.value) for ns_ in name_stores for t in ns_.targets if isinstance(t, ast.Attribute) and not isinstance(ns_.value, ast.Constant) and not (isinstance(ns_.value, ast.Name) and isinstance(_alts(ns_.value)[0], ast.Constant))}
    mk11 = [a for a in mk11 if a.targets[0].id in named11]
    ctx.shape('C01.R11', len(mk11) == 1, kv, parse, 'the creation of the keyvalue object for a STRING token (`keyvalue = Keyvalues.__new__(Keyvalues)`) was not found once', text='parsed keyvalue reaches the tree')
    if len(mk11) == 1:
        kvname = mk11[0].targets[0].id
        arm11 = kv.parents.get(mk11[0])
        while arm11 is not None and not isinstance(arm11, ast.If):
            arm11 = kv.parents.get(arm11)

        def _stores(st: ast.AST) -> bool:
            for x in ast.walk(st):
                if isinstance(x, ast.Call) and isinstance(x.func, ast.Attribute) and x.func.attr in ('append', 'insert', 'extend') and any(isinstance(y, ast.Name) and y.id == kvname for a_ in x.args for y in ast.walk(a_)):
                    return True
                if isinstance(x, ast.Assign) and isinstance(x.value, ast.Name) and x.value.id == kvname and any(isinstance(t, ast.Subscript) for t in x.targets):
                    return True
            return False
        n11 = 0
        for cont in [c for c in ast.walk(arm11) if isinstance(c, ast.Continue) and c.lineno > mk11[0].lineno] if arm11 is not None else []:
            n11 += 1
            hold = kv.parents.get(cont)
            blk = next((getattr(hold, f_) for f_ in ('body', 'orelse') if isinstance(getattr(hold, f_, None), list) and cont in getattr(hold, f_)), [])
            stored = any(_stores(st) for st in blk[:blk.index(cont)]) if cont in blk else False
            flag_off = False
            ch: ast.AST = cont
            an = kv.parents.get(ch)
            tests11 = []
            while an is not None and an is not arm11:
                if isinstance(an, ast.If):
                    in_body = any(ch is b for b in an.body)
                    t = an.test
                    neg = isinstance(t, ast.UnaryOp) and isinstance(t.op, ast.Not)
                    core = t.operand if neg else t
                    tests11.append(U(t)[:40])
                    if isinstance(core, ast.Call) and (dotted(core.func) or '').split('.')[-1] == '_read_flag' and (in_body == neg):
                        flag_off = True
                ch, an = an, kv.parents.get(an)
            ctx.check('C01.R11', stored or flag_off, kv, cont, f'Keyvalues.parse goes on to the next token under `{" / ".join(reversed(tests11))}` without having stored the keyvalue it just read (`{kvname}`): '
                      'that name/value pair is silently missing from the tree although the writer produced it', text=f'continue under `{" / ".join(reversed(tests11))[:60]}` keeps the keyvalue')
        ctx.shape('C01.R11', n11 >= 1, kv, parse, 'no `continue` found in the STRING arm of the token loop (flag-disabled skip confirmed by hand)', text='parsed keyvalue reaches the tree')
    ctx.rule('C01.R7', "Keyvalues.parse refuses string content only for a literal '\\n' / '\\r' (names; values on request)", floor=2)
    content_vars: Set[str] = set()
    # the tokenizer local: whatever is assigned a Tokenizer(...) instance
    tok_vars = {t.id for a in walk_no_nested(parse) if isinstance(a, ast.Assign) and any(isinstance(c, ast.Call) and dotted(c.func) == 'Tokenizer' for c in ast.walk(a.value))
                for t in a.targets if isinstance(t, ast.Name)} or {'tokenizer'}
    tok_calls = set(tok_vars) | {'next'} | {v + '.__call__' for v in tok_vars}
    for n in walk_no_nested(parse):
        if isinstance(n, ast.Assign) and isinstance(n.value, ast.Call) and dotted(n.value.func) in tok_calls and isinstance(n.targets[0], ast.Tuple) and len(n.targets[0].elts) == 2 \
                and isinstance(n.targets[0].elts[1], ast.Name):
            content_vars.add(n.targets[0].elts[1].id)
        if isinstance(n, ast.For) and isinstance(n.target, ast.Tuple) and len(n.target.elts) == 2 and isinstance(n.target.elts[1], ast.Name) and any(isinstance(x, ast.Name) and x.id in tok_vars for x in ast.walk(n.iter)):
            content_vars.add(n.target.elts[1].id)
    if not content_vars:
        raise AnalysisError('Keyvalues.parse: token value variables not found')
    BROAD = {'splitlines', 'isprintable', 'isspace', 'isascii', 'isalnum', 'isalpha', 'isidentifier', 'isnumeric', 'isdigit', 'isdecimal', 'strip', 'lstrip', 'rstrip', 'split', 'encode', 'search', 'match', 'fullmatch', 'findall'}
    n_rej = 0
    for n in walk_no_nested(parse):
        if not (isinstance(n, ast.If) and n.body and isinstance(n.body[0], ast.Raise)):
            continue
        mentions = [x for x in ast.walk(n.test) if isinstance(x, ast.Name) and x.id in content_vars]
        if not mentions:
            continue
        # the option that allows line breaks switches the refusal off completely: with `newline_values=True` the test is false whatever the text
        # is (three-valued evaluation over the boolean structure; `not opt and a or b` is `(not opt and a) or b`, which `b` alone can satisfy)
        opt_params = {a.arg for a in parse.args.args + parse.args.kwonlyargs if a.arg.startswith('newline')}
        used_opts = sorted({x.id for x in ast.walk(n.test) if isinstance(x, ast.Name) and x.id in opt_params})

        def tv(e: ast.AST, on: str) -> Optional[bool]:
            if isinstance(e, ast.Name) and e.id == on:
                return True
            if isinstance(e, ast.UnaryOp) and isinstance(e.op, ast.Not):
                v_ = tv(e.operand, on)
                return None if v_ is None else not v_
            if isinstance(e, ast.BoolOp):
                vs = [tv(x, on) for x in e.values]
                if isinstance(e.op, ast.And):
                    return False if any(x is False for x in vs) else (True if all(x is True for x in vs) else None)
                return True if any(x is True for x in vs) else (False if all(x is False for x in vs) else None)
            return None
        for op_ in used_opts:
            ctx.check('C01.R7', tv(n.test, op_) is False, kv, n, f'with {op_}=True the refusal `{U(n.test)[:80]}` can still fire (the option does not gate every alternative: `and` binds tighter than `or`): parse() then '
                      'rejects text that serialise() wrote, e.g. a value containing a carriage return', text=f'refusal switched off by {op_}')
        # atoms of the test that look at the text
        atoms = []
        for x in ast.walk(n.test):
            if isinstance(x, ast.Compare) and any(isinstance(y, ast.Name) and y.id in content_vars for y in ast.walk(x)):
                atoms.append(x)
            elif isinstance(x, ast.Call) and any(isinstance(y, ast.Name) and y.id in content_vars for y in ast.walk(x)) and not any(x is z for a in atoms for z in ast.walk(a)):
                atoms.append(x)
        for a in atoms:
            # a one-expression module helper (`_has_newline(text)`: `'\n' in text or '\r' in text`) stands for the tests it makes
            if isinstance(a, ast.Call) and isinstance(a.func, ast.Name) and len(a.args) == 1 and isinstance(a.args[0], ast.Name) and not a.keywords:
                try:
                    hf_ = kv.func(a.func.id)
                except AnalysisError:
                    hf_ = None
                if hf_ is not None and hf_.args.args:
                    hb_ = [b for b in hf_.body if not (isinstance(b, ast.Expr) and isinstance(b.value, ast.Constant))]
                    hp_ = hf_.args.args[0].arg
                    if len(hb_) == 1 and isinstance(hb_[0], ast.Return) and hb_[0].value is not None:
                        cmps_ = [c for c in ast.walk(hb_[0].value) if isinstance(c, ast.Compare)]
                        plain_ = isinstance(hb_[0].value, (ast.BoolOp, ast.Compare)) and (not isinstance(hb_[0].value, ast.BoolOp) or isinstance(hb_[0].value.op, ast.Or)) and bool(cmps_) and \
                            all(len(c.ops) == 1 and isinstance(c.ops[0], ast.In) and isinstance(c.left, ast.Constant) and c.left.value in ('\n', '\r') and dotted(c.comparators[0]) == hp_ for c in cmps_) \
                            and not any(isinstance(x, ast.Call) for x in ast.walk(hb_[0].value))
                        if plain_:
                            for c in cmps_:
                                n_rej += 1
                                ctx.check('C01.R7', True, kv, a, 'line break test', text=f'rejects {c.left.value!r} in {a.args[0].id}')
                            continue
            n_rej += 1
            if isinstance(a, ast.Compare) and len(a.ops) == 1 and isinstance(a.ops[0], ast.In) and isinstance(a.left, ast.Constant) and a.left.value in ('\n', '\r') and isinstance(a.comparators[0], ast.Name):
                ctx.check('C01.R7', True, kv, a, 'line break test', text=f'rejects {a.left.value!r} in {a.comparators[0].id}')
                continue
            calls = {c.func.attr for c in ast.walk(a) if isinstance(c, ast.Call) and isinstance(c.func, ast.Attribute)} | {dotted(c.func) or '' for c in ast.walk(a) if isinstance(c, ast.Call)}
            if calls & BROAD or any((c or '').startswith('re.') for c in calls):
                ctx.check('C01.R7', False, kv, a, f'parse refuses a string when `{U(a)[:70]}`: that is broader than a literal LF/CR (e.g. str.splitlines also breaks on \\v, \\f, \\x1c-\\x1e, NEL, '
                          'U+2028/9), so text that serialise() writes is rejected', text=f'content rejection `{U(a)[:50]}`')
            else:
                ctx.shape('C01.R7', False, kv, a, f'content rejection test `{U(a)[:70]}` is not an enumerated form', text=f'content rejection `{U(a)[:50]}`')
    # ... and it never silently stops or skips on what a string contains: every character can occur in a name the writer produced
    for n in walk_no_nested(parse):
        if not (isinstance(n, ast.If) and n.body and isinstance(n.body[-1], (ast.Break, ast.Continue, ast.Return))):
            continue
        looks = [x for x in ast.walk(n.test) if isinstance(x, ast.Call) and isinstance(x.func, ast.Attribute) and isinstance(x.func.value, ast.Name) and x.func.value.id in content_vars] + \
                [x for x in ast.walk(n.test) if isinstance(x, ast.Compare) and isinstance(x.ops[0], (ast.In, ast.NotIn)) and isinstance(x.comparators[0], ast.Name) and x.comparators[0].id in content_vars] + \
                [x for x in ast.walk(n.test) if isinstance(x, ast.Subscript) and isinstance(x.value, ast.Name) and x.value.id in content_vars]
        for lk in looks:
            ctx.check('C01.R7', False, kv, lk, f'parse leaves the token loop ({type(n.body[-1]).__name__.lower()}) when `{U(n.test)[:70]}`: a name or value with that content is produced by serialise() '
                      'like any other, and everything after it is silently dropped', text=f'content-dependent {type(n.body[-1]).__name__.lower()} `{U(lk)[:40]}`')
    if n_rej < 4:
        raise AnalysisError(f'Keyvalues.parse: only {n_rej} content rejection tests found (4 confirmed by hand: LF and CR, for names and for values)')


def _in_orelse(ifnode: ast.If, node: ast.AST, mod: Any) -> bool:
    cur = node
    while cur is not None and mod.parents.get(cur) is not ifnode:
        cur = mod.parents.get(cur)
    return cur in ifnode.orelse


MUTANTS = [
    {'id': 'parse_normalises_names', 'file': 'keyvalues.py', 'find': "                # Skip calling __init__ for speed. Value needs to be set\n", 'replace': "                token_value = token_value.strip()\n                # Skip calling __init__ for speed. Value needs to be set\n", 'expect': 'C01.R4', 'note': 'round 13'},
    {'id': 'parse_drops_hash_names', 'file': 'keyvalues.py', 'find': "                    keyvalue._value = prop_value\n\n                    # Check for flags.", 'replace': "                    if token_value.startswith('#'):\n                        continue\n                    keyvalue._value = prop_value\n\n                    # Check for flags.", 'expect': 'C01.R11', 'note': 'round 12'},
    {'id': 'parsed_name_shares_folded_string', 'file': 'keyvalues.py', 'find': "                keyvalue.real_name = sys.intern(token_value)\n", 'replace': "                folded_name = sys.intern(token_value.casefold())\n                keyvalue._real_name = folded_name if token_value.islower() else sys.intern(token_value)\n", 'expect': 'C01.R4'},
    {'id': 'parse_prefilters_chunks', 'file': 'keyvalues.py', 'find': "            tokenizer = Tokenizer(\n                file_contents,", 'replace': "            if not isinstance(file_contents, (str, bytes)):\n                file_contents = (ln for ln in file_contents if not ln.startswith('//'))\n            tokenizer = Tokenizer(\n                file_contents,", 'expect': 'C01.R4'},
    {'id': 'value_newline_guard_loses_parentheses', 'file': 'keyvalues.py', 'find': "                    if not newline_values and ('\\n' in prop_value or '\\r' in prop_value):", 'replace': "                    if not newline_values and '\\n' in prop_value or '\\r' in prop_value:", 'expect': 'C01.R7'},
    {'id': 'pushback_list_class_level', 'file': 'tokenizer.py', 'find': "    _pushback: list[tuple[Token, str]]\n", 'replace': "    _pushback: list[tuple[Token, str]] = []\n", 'extra': [{'file': 'tokenizer.py', 'find': "        self._pushback = []\n        self.line_num = 1\n", 'replace': "        self.line_num = 1\n"}], 'expect': 'C01.R10'},
    {'id': 'ok_pushback_default_and_init', 'file': 'tokenizer.py', 'find': "    _pushback: list[tuple[Token, str]]\n", 'replace': "    _pushback: list[tuple[Token, str]] = []\n", 'expect': None},
    {'id': 'leaf_line_percent_formatted', 'file': 'keyvalues.py', 'find': "            file.write(f'{cur_indent}\"{escape_text(self._real_name)}\" \"{escape_text(self._value)}\"\\n')", 'replace': "            name_part = f'{cur_indent}\"{escape_text(self._real_name)}\"'\n            file.write(f'{name_part} \"%s\"\\n' % escape_text(self._value))", 'expect': 'C01.R9'},
    {'id': 'ok_leaf_line_percent_constant_template', 'file': 'keyvalues.py', 'find': "            file.write(f'{cur_indent}\"{escape_text(self._real_name)}\" \"{escape_text(self._value)}\"\\n')", 'replace': "            file.write('%s\"%s\" \"%s\"\\n' % (cur_indent, escape_text(self._real_name), escape_text(self._value)))", 'expect': None, 'refuse_ok': True},
    {'id': 'start_indent_through_textwrap', 'file': 'keyvalues.py', 'find': "        self._serialise(file, indent, open_brace, close_brace, start_indent)\n", 'replace': "        if start_indent:\n            import textwrap\n            block = io.StringIO()\n            self._serialise(block, indent, open_brace, close_brace, '')\n            file.write(textwrap.indent(block.getvalue(), start_indent))\n        else:\n            self._serialise(file, indent, open_brace, close_brace, start_indent)\n", 'expect': 'C01.R8'},
    {'id': 'serialise_returns_stripped', 'file': 'keyvalues.py', 'find': "        if buffer is not None:\n            return buffer.getvalue()\n        return None\n\n    def _serialise(", 'replace': "        if buffer is not None:\n            return buffer.getvalue().replace('\\r', '')\n        return None\n\n    def _serialise(", 'expect': 'C01.R8'},
    {'id': 'escape_wrapper_fast_path_accepts_cr', 'file': 'keyvalues.py', 'find': """            file.write(f'{cur_indent}"{escape_text(self._real_name)}" "{escape_text(self._value)}"\\n')\n\n    serialize""", 'replace': """            file.write(f'{cur_indent}"{_escape(self._real_name)}" "{_escape(self._value)}"\\n')\n\n    serialize""", 'extra': [{'file': 'keyvalues.py', 'find': "def _read_flag(", 'replace': "_PLAIN_TEXT = re.compile(r'[\\w\\s./+:,-]*')\n\n\ndef _escape(text: str) -> str:\n    if _PLAIN_TEXT.fullmatch(text) is not None:\n        return text\n    return escape_text(text)\n\n\ndef _read_flag("}, {'file': 'keyvalues.py', 'find': "import sys\n", 'replace': "import sys\nimport re\n"}], 'expect': 'C01.R1'},
    {'id': 'escape_wrapper_fast_path_words_only', 'file': 'keyvalues.py', 'find': """            file.write(f'{cur_indent}"{escape_text(self._real_name)}" "{escape_text(self._value)}"\\n')\n\n    serialize""", 'replace': """            file.write(f'{cur_indent}"{_escape(self._real_name)}" "{_escape(self._value)}"\\n')\n\n    serialize""", 'extra': [{'file': 'keyvalues.py', 'find': "def _read_flag(", 'replace': "_PLAIN_TEXT = re.compile(r'[A-Za-z0-9_ ./+:,-]*')\n\n\ndef _escape(text: str) -> str:\n    if _PLAIN_TEXT.fullmatch(text) is not None:\n        return text\n    return escape_text(text)\n\n\ndef _read_flag("}, {'file': 'keyvalues.py', 'find': "import sys\n", 'replace': "import sys\nimport re\n"}], 'expect': None},
    {'id': 'leaf_escaped_jointly_and_split', 'file': 'keyvalues.py', 'find': """            file.write(f'{cur_indent}"{escape_text(self._real_name)}" "{escape_text(self._value)}"\\n')\n\n    serialize""", 'replace': """            name, _, value = escape_text(f'{self._real_name}\\x1f{self._value}').partition('\\x1f')\n            file.write(f'{cur_indent}"{name}" "{value}"\\n')\n\n    serialize""", 'expect': 'C01.R1'},
    {'id': 'parse_stops_at_nul_name', 'file': 'keyvalues.py', 'find': "            if token_type is STRING:   # \"string\"\n", 'replace': "            if token_type is STRING:   # \"string\"\n                if token_value.startswith('\\x00'):\n                    break\n", 'expect': 'C01.R7'},
    {'id': 'key_newline_test_by_splitlines', 'file': 'keyvalues.py', 'find': "                if not newline_keys and ('\\n' in token_value or '\\r' in token_value):", 'replace': "                if not newline_keys and len(token_value.splitlines()) > 1:", 'expect': 'C01.R7'},
    {'id': 'root_test_by_value', 'file': 'keyvalues.py', 'find': "            if self._real_name is None:\n                # If the name is None, we just output the children\n                # without a \"Name\" { } surround. These Keyvalue objects represent the root.\n                for child in self._value:", 'replace': "            if not self._real_name:\n                # If the name is None, we just output the children\n                # without a \"Name\" { } surround. These Keyvalue objects represent the root.\n                for child in self._value:", 'expect': 'C01.R6'},
    {'id': 'name_precomputed_ok', 'file': 'keyvalues.py', 'find': "                file.write(f'{cur_indent}\"{escape_text(self._real_name)}\"\\n')", 'replace': "                name = escape_text(self._real_name)\n                file.write(f'{cur_indent}\"{name}\"\\n')", 'expect': None, 'note': 'negative control: escaped name held in a local'},
    {'id': 'block_name_unescaped', 'file': 'keyvalues.py', 'find': 'file.write(f\'{cur_indent}"{escape_text(self._real_name)}"\\n\')', 'replace': 'file.write(f\'{cur_indent}"{self._real_name}"\\n\')', 'expect': 'C01.R1'},
    {'id': 'leaf_value_unescaped', 'file': 'keyvalues.py', 'find': '"{escape_text(self._real_name)}" "{escape_text(self._value)}"\\n\')\n\n    serialize', 'replace': '"{escape_text(self._real_name)}" "{self._value}"\\n\')\n\n    serialize', 'expect': 'C01.R1'},
    {'id': 'indent_in_quotes', 'file': 'keyvalues.py', 'find': "file.write(f'{cur_indent}\"{", 'replace': "file.write(f'\"{cur_indent}{", 'expect': 'C01.R2'},
    {'id': 'serialise_sorts_children', 'file': 'keyvalues.py', 'find': "                child_indent = f\"{cur_indent}{indent}\"\n", 'replace': "                child_indent = f\"{cur_indent}{indent}\"\n                self._value.sort(key=id)\n", 'expect': 'C01.R3'},
    {'id': 'parse_escapes_off', 'file': 'keyvalues.py', 'find': "        allow_escapes: bool = True,\n        single_line: bool = False,\n        single_block: bool = False,\n    ) -> \"Keyvalues\":", 'replace': "        allow_escapes: bool = False,\n        single_line: bool = False,\n        single_block: bool = False,\n    ) -> \"Keyvalues\":", 'expect': 'C01.R4'},
    {'id': 'parse_not_passing_escapes', 'file': 'keyvalues.py', 'find': "                allow_escapes=allow_escapes,\n            )\n\n        # A pseudo-enum", 'replace': "                allow_escapes=False,\n            )\n\n        # A pseudo-enum", 'expect': 'C01.R4'},
    {'id': 'children_reversed', 'file': 'keyvalues.py', 'find': "                for child in self._value:\n                    child._serialise(file, indent, open_brace, close_brace, child_indent)", 'replace': "                for child in reversed(self._value):\n                    child._serialise(file, indent, open_brace, close_brace, child_indent)", 'expect': 'C01.R5'},
    {'id': 'parse_inserts_front', 'file': 'keyvalues.py', 'find': "                    block_line = BLOCK_LINE_EXPECT\n                    can_flag_replace = False\n                    cur_block_contents.append(keyvalue)", 'replace': "                    block_line = BLOCK_LINE_EXPECT\n                    can_flag_replace = False\n                    cur_block_contents.insert(0, keyvalue)", 'expect': 'C01.R5'},
    {'id': 'indent_branch', 'file': 'keyvalues.py', 'find': "                file.write(f'{cur_indent}{open_brace}')\n", 'replace': "                if cur_indent:\n                    file.write(f'{cur_indent}{open_brace}')\n", 'expect': 'C01.R2'},
]
