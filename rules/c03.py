"""C03 - tokenizing is total and independent of chunking (DESIGN.md C03).

  K1  cursor encapsulation: _cur_chunk/_chunk_iter are touched only in __init__ and _next_char; _char_index is
      written elsewhere only by the rewind idiom `self._char_index -= 1`; nothing else indexes the chunk.  Hence
      every character is observed through _next_char() and chunk boundaries are invisible to the token functions.
  K2  single rewind: no execution of any loop iteration / function body rewinds twice without a _next_char()
      in between (each body is started from the conservative assumption that a rewind just happened).
  K3  progress: every loop iteration that continues has read at least one real character more than it rewound.
  K4  EOF: an iteration that reads EOF (None) never continues the loop, and None never reaches a str-only use
      (`in <str>`, `.casefold()`, append to a list that is later joined).
  K5  exception discipline: every raise reachable in the token functions is `raise self.error(...)`; implicit
      lookups that can fail sit in a try that catches their exception (modelled: a Python-level exception escaping
      the evaluated slice is a violation); error() constructs self.error_type, and __init__ rejects a non
      TokenSyntaxError error type.  Keyvalues.parse passes KeyValError and raises only tokenizer.error()/KeyValError.
  K6  line numbers: line_num only changes by += 1 in iterations that read a line-break character.
  K7  every return of the token functions is a (Token member, text) pair (or None for a swallowed comment).
  K8  Cython sibling: chunk cursor fields are written only in __init__/_next_char and by `self.char_index -= 1`
      (BOM rewinds inside __init__ are a named exception).
K2-K4, K6, K7 are decided by tabulating the transition function of each loop over the finite alphabet partition
(every character the code mentions + OTHER + EOF) x option flags x loop-carried state, by the finite-domain
evaluator; the loop-carried state set is computed as a fixed point.
"""
from __future__ import annotations

import ast
import re
from typing import Any, Dict, List, Optional, Sequence, Set, Tuple

from engine.srcmatch import U
from engine.abseval import OTHER, ErrorValue, Joined, Machine, Outcome, explore, mentioned_chars
from engine.fold import EnumMember, Folder
from engine.model import inline_tail_helpers, AnalysisError, Program, dotted, walk_no_nested
from engine.pyx import PyxFile

LEVEL = 'other'

FLAGS = {'string_bracket', 'string_parens', 'allow_escapes', 'allow_star_comments', 'preserve_comments',
         'colon_operator', 'plus_operator'}
COMMENT_TOKEN = ('<comment-token>',)
STRING_TOKEN = ('<string-token>',)


def _freeze(v: Any) -> Any:
    if isinstance(v, list):
        return ('list', len(v) > 0)
    if isinstance(v, dict):
        return tuple(sorted((k, _freeze(x)) for k, x in v.items()))
    return repr(v)


class LoopTab:
    """Tabulates one loop (or a straight function body) of a tokenizer method."""

    def __init__(self, tk: Any, fold: Folder, alphabet: Sequence[Any], qual: str) -> None:
        self.tk, self.fold, self.alphabet, self.qual = tk, fold, alphabet, qual
        self.outcomes: List[Tuple[str, Outcome]] = []   # (where, outcome)
        self.iterations = 0

    def methods(self) -> Dict[str, Any]:
        def handle_comment(m: Machine, args: List[Any]) -> Any:
            m.last_was_rewind = True      # the callee may end with a rewind
            return m.choose('_handle_comment', [None, COMMENT_TOKEN])

        def handle_string(m: Machine, args: List[Any]) -> Any:
            m.last_was_rewind = True
            return STRING_TOKEN
        return {'_handle_comment': handle_comment, '_handle_string': handle_string}

    def make(self, env: Dict[str, Any], selfattrs: Dict[str, Any], lists: Dict[str, List[Any]], after_rewind: bool = True):
        def mk(inputs: List[Any], flags: Dict[str, Any], choices: Dict[str, Any]) -> Machine:
            m = Machine(self.tk, self.fold, inputs, env, selfattrs, lists, methods=self.methods())
            m.lazy_flags = set(FLAGS)
            m.flag_values = dict(flags)
            m.choices = dict(choices)
            m.stop_at_loops = True
            m.last_was_rewind = after_rewind
            return m
        return mk

    def run(self, body: Sequence[ast.stmt], in_loop: bool, entries: List[Any],
            where: str) -> List[Outcome]:
        """Fixed point over loop-carried state.  entries: (env, selfattrs, lists)."""
        live: Set[str] = set()
        while True:
            seen: Set[Any] = set()
            work = []
            for env, sa, lists, ar in entries:
                work.append((dict(env), dict(sa), {k: list(v) for k, v in lists.items()}, ar))
            outs: List[Outcome] = []
            grew = False
            while work:
                env, sa, lists, ar = work.pop()
                penv = {k: v for k, v in env.items() if k in live}
                plists = {k: v for k, v in lists.items() if k in live or True}
                key = (_freeze(penv), _freeze({k: v for k, v in sa.items() if k != 'line_num'}), _freeze({k: v for k, v in plists.items()}), ar)
                if key in seen:
                    continue
                seen.add(key)
                res = explore(self.make(env, sa, lists, ar), body, in_loop, self.alphabet)
                self.iterations += len(res)
                for o in res:
                    new = o.reads_before_write - live - set(plists)
                    if new:
                        live |= new
                        grew = True
                    outs.append(o)
                    if o.kind == 'next' and in_loop:
                        work.append((o.env, o.selfattrs, o.lists, o.ends_after_rewind))
                if grew:
                    break
            if not grew:
                for o in outs:
                    self.outcomes.append((where, o))
                return outs


def _continuation(mod: Any, node: ast.stmt, fn: ast.AST) -> Tuple[List[ast.stmt], bool]:
    """Statements executed after `node` completes normally, up to the end of fn or of an enclosing loop body.
    Returns (statements, ends_in_outer_loop)."""
    stmts: List[ast.stmt] = []
    cur: ast.AST = node
    while True:
        parent = mod.parents.get(cur)
        if parent is None:
            raise AnalysisError('continuation: lost parent chain')
        for field in ('body', 'orelse', 'finalbody'):
            seq = getattr(parent, field, None)
            if isinstance(seq, list) and cur in seq:
                stmts.extend(seq[seq.index(cur) + 1:])
        if parent is fn:
            return stmts, False
        if isinstance(parent, (ast.While, ast.For)):
            return stmts, True
        if isinstance(parent, ast.Try):
            raise AnalysisError('continuation through try blocks is not modelled')
        cur = parent


def _state_flag_justifies(kv: Any, parse: ast.AST, sub: ast.Subscript) -> bool:
    """The one enumerated shape invariant of Keyvalues.parse: `block_line is BLOCK_LINE_EXPECT` implies that the current block's child list is
    non-empty.  Accepted for `<list>[-1]` when (1) the read sits in the else arm of `if block_line is BLOCK_LINE_SKIP` after an
    `if block_line is BLOCK_LINE_NONE: raise` in the same block (so the flag is EXPECT there), (2) every `block_line = BLOCK_LINE_EXPECT`
    shares its statement list with an append / last-element store into that very list on every path, and (3) while the flag is not NONE
    only NEWLINE tokens are let through (the `elif block_line is not BLOCK_LINE_NONE and token_type is not NEWLINE: raise` arm), so the
    list cannot be re-bound in between."""
    lst = dotted(sub.value)
    if lst is None:
        return False
    st: Any = sub
    while st is not None and not isinstance(st, ast.stmt):
        st = kv.parents.get(st)
    branch = kv.parents.get(st)

    def is_test(t: ast.AST) -> Optional[Tuple[str, str]]:
        # `<flag> is <CONST>` -> (flag, CONST)
        if isinstance(t, ast.Compare) and len(t.ops) == 1 and isinstance(t.ops[0], ast.Is) and isinstance(t.left, ast.Name) and isinstance(t.comparators[0], ast.Name):
            return t.left.id, t.comparators[0].id
        return None
    bt = is_test(branch.test) if isinstance(branch, ast.If) else None
    if bt is None or st not in branch.orelse:
        return False
    flag, k_skip = bt
    outer = kv.parents.get(branch)
    blk = getattr(outer, 'body', [])
    if branch not in blk:
        return False
    k_none = None
    for p_ in blk[:blk.index(branch)]:
        pt = is_test(p_.test) if isinstance(p_, ast.If) else None
        if pt is not None and pt[0] == flag and pt[1] != k_skip and p_.body and isinstance(p_.body[-1], ast.Raise):
            k_none = pt[1]
    if k_none is None:
        return False

    def stores(stmts: Any) -> bool:
        for x in stmts:
            if isinstance(x, ast.Expr) and isinstance(x.value, ast.Call) and isinstance(x.value.func, ast.Attribute) and x.value.func.attr == 'append' and dotted(x.value.func.value) == lst:
                return True
            if isinstance(x, ast.Assign) and any(isinstance(t, ast.Subscript) and dotted(t.value) == lst for t in x.targets):
                return True
            if isinstance(x, ast.If) and x.orelse and stores(x.body) and stores(x.orelse):
                return True
        return False
    # every assignment of a third state (neither NONE nor SKIP) to the flag shares its statement list with a store into the list
    sets = [a for a in ast.walk(parse) if isinstance(a, ast.Assign) and any(dotted(t) == flag for t in a.targets) and isinstance(a.value, ast.Name) and a.value.id not in (k_none, k_skip)]
    if not sets:
        return False
    for a in sets:
        par = kv.parents.get(a)
        holder = next((b for b in (getattr(par, 'body', []), getattr(par, 'orelse', [])) if a in b), None)
        if holder is None or not stores(holder):
            return False
    # while the flag is not NONE only NEWLINE tokens get through
    passthrough = False
    for x in ast.walk(parse):
        if isinstance(x, ast.If) and x.body and isinstance(x.body[-1], ast.Raise) and isinstance(x.test, ast.BoolOp) and isinstance(x.test.op, ast.And):
            def _is_newline(e: ast.AST) -> bool:
                if dotted(e) == 'Token.NEWLINE':
                    return True
                # a local alias (`NEWLINE: Final = Token.NEWLINE`)
                return isinstance(e, ast.Name) and any(isinstance(a, (ast.Assign, ast.AnnAssign)) and getattr(a, 'value', None) is not None and dotted(a.value) == 'Token.NEWLINE'
                                                       and any(isinstance(t, ast.Name) and t.id == e.id for t in (a.targets if isinstance(a, ast.Assign) else [a.target])) for a in ast.walk(parse))
            flag_live = any(isinstance(v, ast.Compare) and len(v.ops) == 1 and isinstance(v.ops[0], ast.IsNot) and dotted(v.left) == flag and dotted(v.comparators[0]) == k_none for v in x.test.values)
            only_nl = any(isinstance(v, ast.Compare) and len(v.ops) == 1 and isinstance(v.ops[0], ast.IsNot) and _is_newline(v.comparators[0]) for v in x.test.values)
            if flag_live and only_nl:
                passthrough = True
    return passthrough


def fold_slots(v: ast.AST) -> Optional[List[str]]:
    if isinstance(v, (ast.Tuple, ast.List)) and all(isinstance(e, ast.Constant) and isinstance(e.value, str) for e in v.elts):
        return [e.value for e in v.elts]
    return None


def _following(mod: Any, stmt: ast.stmt, fn: ast.AST) -> List[ast.stmt]:
    """statements that run after `stmt` on the fall-through path: the rest of its block, then what follows the enclosing if/try/with blocks -
    up to the enclosing loop or function; stops at a statement that leaves the block"""
    out: List[ast.stmt] = []
    cur: ast.AST = stmt
    while True:
        par = mod.parents.get(cur)
        if par is None:
            break
        blk = None
        for fld in ('body', 'orelse', 'finalbody', 'handlers'):
            b_ = getattr(par, fld, None)
            if isinstance(b_, list) and cur in b_:
                blk = b_
        if blk is not None:
            for st in blk[blk.index(cur) + 1:]:
                out.append(st)
                if isinstance(st, (ast.Return, ast.Raise, ast.Continue, ast.Break)):
                    return out
        if par is fn or isinstance(par, (ast.For, ast.While, ast.FunctionDef, ast.AsyncFunctionDef)):
            break
        cur = par
    return out


def run(ctx: Any, prog: Program) -> None:
    tk = prog.module('tokenizer')
    kv = prog.module('keyvalues')
    fold = Folder(prog, tk)
    ctx.assumptions += ['strings are sequences of code points delivered as non-empty-or-empty str chunks; K1 makes the chunking invisible',
                        'the alphabet partition (characters mentioned in the code + OTHER + EOF) makes every comparison in the token functions determinate']
    ctx.not_decided += ['equality of the Python and Cython token streams (BOM handling differs by design)',
                        'behaviour on chunks that are not str (ValueError is raised by design)',
                        'value-dependent control flow of Keyvalues.parse beyond its raise sites']
    ctx.rule('C03.K1', 'chunk cursor is touched only by __init__/_next_char and the rewind idiom `self._char_index -= 1`', floor=6)
    ctx.rule('C03.K2', 'no two rewinds without an intervening _next_char()', floor=10)
    ctx.rule('C03.K3', 'every continuing loop iteration consumes at least one character net', floor=10)
    ctx.rule('C03.K4', 'EOF ends every loop; None never reaches a str-only operation', floor=8)
    ctx.rule('C03.K5', 'only self.error(...) (the configured TokenSyntaxError subclass) is raised', floor=12)
    ctx.rule('C03.K6', 'line_num changes only by += 1 when a line-break character was read', floor=4)
    ctx.rule('C03.K7', 'token functions return (Token member, text) pairs', floor=10)
    ctx.rule('C03.K9', 'the token functions do not call each other recursively (stack depth must not grow with the input)', floor=5)
    ctx.rule('C03.K8', 'Cython chunk cursor fields written only in __init__/_next_char and by `self.char_index -= 1`', floor=3)

    tok_methods = tk.methods('Tokenizer')
    # ---- K1 --------------------------------------------------------------------------------------
    allowed_full = {'__init__', '_next_char'}
    # the character source may be split into private helpers that only it calls (`return self._advance_chunk()`): they are part of it
    nc_view, nc_helpers = inline_tail_helpers(tok_methods['_next_char'], tok_methods) if '_next_char' in tok_methods else (None, [])
    allowed_full |= set(nc_helpers)
    for name, fn in tok_methods.items():
        for n in ast.walk(fn):
            if isinstance(n, ast.Attribute) and isinstance(n.value, ast.Name) and n.value.id == 'self':
                if n.attr in ('_cur_chunk', '_chunk_iter'):
                    ctx.check('C03.K1', name in allowed_full, tk, n, f'self.{n.attr} accessed outside __init__/_next_char: token functions must see characters only through _next_char()',
                              text=f'self.{n.attr} in {name}')
                elif n.attr == '_char_index' and name not in allowed_full:
                    st = tk.parents.get(n)
                    ok = (isinstance(st, ast.AugAssign) and st.target is n and isinstance(st.op, ast.Sub)
                          and isinstance(st.value, ast.Constant) and st.value.value == 1)
                    ctx.check('C03.K1', ok, tk, st if isinstance(st, ast.stmt) else n,
                              'self._char_index may only be rewound by exactly one (`self._char_index -= 1`) outside _next_char',
                              text=f'_char_index use in {name}: ' + U(st)[:60])
    # _next_char itself: the only subscript of the chunk uses self._char_index after += 1; refill sets index 0 and returns chunk[0]
    nc = nc_view
    if nc is None:
        raise AnalysisError('Tokenizer._next_char not found')
    first = [s for s in nc.body if not (isinstance(s, ast.Expr) and isinstance(s.value, ast.Constant))][0]
    ok = isinstance(first, ast.AugAssign) and dotted(first.target) == 'self._char_index' and isinstance(first.op, ast.Add) \
        and isinstance(first.value, ast.Constant) and first.value.value == 1
    ctx.check('C03.K1', ok, tk, first, '_next_char must begin by advancing the index by one', text='_next_char: index += 1')
    subs = [n for n in ast.walk(nc) if isinstance(n, ast.Subscript) and dotted(n.value) == 'self._cur_chunk']
    ok = len(subs) == 1 and dotted(subs[0].slice) == 'self._char_index'
    ctx.check('C03.K1', ok, tk, subs[0] if subs else nc, '_next_char must read exactly self._cur_chunk[self._char_index]', text='_next_char: chunk[index]')
    idx_stores = [n for n in ast.walk(nc) if isinstance(n, ast.Assign) and any(dotted(t) == 'self._char_index' for t in n.targets)]
    ok = all(isinstance(n.value, ast.Constant) and n.value.value == 0 for n in idx_stores) and len(idx_stores) == 1
    ctx.check('C03.K1', ok, tk, idx_stores[0] if idx_stores else nc, 'after a refill the index must be 0 (so a rewind of one re-reads chunk[0])', text='_next_char: refill index = 0')
    # the refilled chunk must be non-empty and its first char returned
    for n in ast.walk(nc):
        if isinstance(n, ast.Return) and n.value is not None and isinstance(n.value, ast.Subscript) and dotted(n.value.value) not in ('self._cur_chunk',):
            ok = isinstance(n.value.slice, ast.Constant) and n.value.slice.value == 0
            ctx.check('C03.K1', ok, tk, n, 'refill must return the first character of the new chunk', text='_next_char: return chunk[0]')

    # refill transparency: the chunk taken from the iterator becomes the current chunk unchanged, and nothing about its content other than
    # emptiness/type is looked at - otherwise the position of chunk boundaries changes what the token functions see
    refill = [l for l in ast.walk(nc) if isinstance(l, ast.For) and dotted(l.iter) == 'self._chunk_iter' and isinstance(l.target, ast.Name)]
    if len(refill) != 1:
        raise AnalysisError('_next_char: expected one refill loop over self._chunk_iter')
    cv = refill[0].target.id
    # the cursor and the chunk it indexes change together: wherever the refill loop resets `_char_index`, the same run of statements stores the
    # new chunk before anything can leave it (a reset in front of the empty-chunk `continue` rewinds the cursor into the chunk that was already
    # consumed - if no further chunk follows, that chunk is tokenised a second time)
    for rs in [a for a in ast.walk(refill[0]) if isinstance(a, ast.Assign) and any(dotted(t) == 'self._char_index' for t in a.targets)]:
        par_ = tk.parents.get(rs)
        blk_ = next((getattr(par_, f_) for f_ in ('body', 'orelse', 'finalbody') if isinstance(getattr(par_, f_, None), list) and rs in getattr(par_, f_)), None)
        ok_ = False
        if blk_ is not None:
            stores = [i for i, st in enumerate(blk_) if isinstance(st, ast.Assign) and any(dotted(t) == 'self._cur_chunk' for t in st.targets)]
            if stores:
                lo, hi = sorted((blk_.index(rs), stores[0]))
                between = blk_[lo + 1:hi]
                ok_ = not any(isinstance(x, (ast.Continue, ast.Break, ast.Return, ast.Raise)) for st in between for x in ast.walk(st))
        ctx.check('C03.K1', ok_, tk, rs, f'_next_char resets the cursor (`{U(rs)}`) on a path that can leave the loop body without storing the new chunk: the index then points into the chunk that was already consumed, '
                  'and when the input ends on empty chunks that text is tokenised again', text='_next_char: cursor reset together with the chunk')
    for n in ast.walk(refill[0]):
        if isinstance(n, (ast.Assign, ast.AugAssign, ast.AnnAssign)):
            tg = n.targets if isinstance(n, ast.Assign) else [n.target]
            if any(isinstance(t, ast.Name) and t.id == cv for t in tg):
                ctx.check('C03.K1', False, tk, n, f'_next_char rewrites the chunk it just loaded (`{U(n)[:60]}`): characters are dropped or altered depending on where the input was cut', text='_next_char: chunk rewritten at load')
            elif any(dotted(t) == 'self._cur_chunk' for t in tg):
                ctx.check('C03.K1', dotted(n.value) == cv, tk, n, f'_next_char stores `{U(n.value)[:60]}` as the current chunk instead of the chunk it loaded', text='_next_char: current chunk = loaded chunk')
    for n in ast.walk(refill[0]):
        if isinstance(n, ast.Name) and n.id == cv and isinstance(n.ctx, ast.Load):
            par = tk.parents.get(n)
            ok = (isinstance(par, ast.Call) and dotted(par.func) == 'isinstance') or isinstance(par, ast.If) or (isinstance(par, ast.Subscript) and isinstance(par.slice, ast.Constant) and par.slice.value == 0) \
                or (isinstance(par, ast.Assign) and par.value is n) or (isinstance(par, ast.UnaryOp) and isinstance(par.op, ast.Not)) or (isinstance(par, ast.Call) and dotted(par.func) == 'len')
            ctx.check('C03.K1', ok, tk, par if par is not None else n, f'_next_char inspects the content of the loaded chunk (`{U(par)[:60] if par is not None else cv}`): only its type and emptiness may matter, '
                      'anything else makes chunk boundaries observable', text=f'_next_char: chunk used as `{U(par)[:40] if par is not None else cv}`')
    # __init__: the cursor starts in front of the first character whatever the data is
    init_fn = tok_methods.get('__init__')
    if init_fn is not None:
        for n in ast.walk(init_fn):
            if isinstance(n, ast.Assign) and any(dotted(t) == 'self._char_index' for t in n.targets):
                ok = isinstance(n.value, ast.UnaryOp) and isinstance(n.value.op, ast.USub) and isinstance(n.value.operand, ast.Constant) and n.value.operand.value == 1
                ctx.check('C03.K1', ok, tk, n, f'__init__ starts the cursor at `{U(n.value)[:50]}`: it must be -1 for every kind of input (a data-dependent start skips characters for a str but not for the same text in chunks)', text='__init__: cursor starts at -1')

        # ... and the text is handed to the cursor as it was given: the data parameter is never reassigned, `_cur_chunk` starts as that parameter or
        # as a constant, and `_chunk_iter` as iter(<data>) / iter(()) - a clean-up applied to one kind of input (a str) and not to the same text
        # arriving in chunks makes the tokens depend on how the text is delivered
        dparam = next((a.arg for a in init_fn.args.args[1:2]), None)
        if dparam is None:
            ctx.shape('C03.K1', False, tk, init_fn, 'Tokenizer.__init__ has no data parameter', text='__init__: data handed on unchanged')
        else:
            re_ = [n for n in ast.walk(init_fn) if isinstance(n, ast.Name) and n.id == dparam and isinstance(n.ctx, (ast.Store, ast.Del))]
            ctx.check('C03.K1', not re_, tk, tk.parents.get(re_[0]) if re_ else init_fn, f'__init__ rewrites its `{dparam}` argument (`{U(tk.parents.get(re_[0]))[:70] if re_ else ""}`) before handing it to the cursor: what the token '
                      'functions see then depends on whether the text came as one str or as chunks', text='__init__: data not rewritten')
            for n in ast.walk(init_fn):
                def alts(v0: ast.AST) -> List[ast.AST]:
                    return alts(v0.body) + alts(v0.orelse) if isinstance(v0, ast.IfExp) else [v0]
                if isinstance(n, ast.Assign) and any(dotted(t) == 'self._cur_chunk' for t in n.targets):
                    for av in alts(n.value):
                        plain = (isinstance(av, ast.Name) and av.id == dparam) or (isinstance(av, ast.Constant) and av.value == '')
                        derived = any(isinstance(x, ast.Name) and x.id == dparam for x in ast.walk(av)) and not plain
                        if plain:
                            ctx.check('C03.K1', True, tk, n, '', text=f'__init__: first chunk `{U(av)[:30]}`')
                        elif derived:
                            ctx.check('C03.K1', False, tk, n, f'__init__ starts the cursor on `{U(av)[:60]}`, a rewritten form of the text it was given: the same text arriving in chunks is not rewritten', text=f'__init__: first chunk `{U(av)[:30]}`')
                        else:
                            ctx.shape('C03.K1', False, tk, n, f'first chunk `{U(av)[:60]}` is neither the data nor the empty chunk', text=f'__init__: first chunk `{U(av)[:30]}`')
                if isinstance(n, ast.Assign) and any(dotted(t) == 'self._chunk_iter' for t in n.targets):
                    for v_ in alts(n.value):
                        ok = isinstance(v_, ast.Call) and dotted(v_.func) == 'iter' and len(v_.args) == 1 and ((isinstance(v_.args[0], ast.Name) and v_.args[0].id == dparam) or (isinstance(v_.args[0], ast.Tuple) and not v_.args[0].elts))
                        if ok:
                            ctx.check('C03.K1', True, tk, n, '', text=f'__init__: chunk source `{U(v_)[:30]}`')
                        else:
                            ctx.shape('C03.K1', False, tk, n, f'chunk source `{U(v_)[:60]}` is not iter(<data>) / iter(())', text=f'__init__: chunk source `{U(v_)[:30]}`')

    # ---- K9: acyclic call graph among the tokenizer's own methods -------------------------------------------
    graph: Dict[str, Set[str]] = {}
    all_methods = dict(tk.methods('BaseTokenizer'))
    all_methods.update(tok_methods)
    for name, fn in all_methods.items():
        callees = set()
        for n in walk_no_nested(fn):
            if isinstance(n, ast.Call):
                d = dotted(n.func)
                if d and d.startswith('self.') and d.count('.') == 1 and d[5:] in all_methods:
                    callees.add(d[5:])
                elif d == 'self' :
                    callees.add('__call__')
        graph[name] = callees
    def reaches(src: str, dst: str, seen: Set[str]) -> bool:
        for c in graph.get(src, ()):
            if c == dst:
                return True
            if c not in seen:
                seen.add(c)
                if reaches(c, dst, seen):
                    return True
        return False
    for name in ('_get_token', '_handle_comment', '_handle_string', '_next_char', '__call__'):
        if name not in all_methods:
            raise AnalysisError(f'anchor vanished: Tokenizer.{name}')
        rec = reaches(name, name, set())
        ctx.check('C03.K9', not rec, tk, all_methods[name], f'{name} can (indirectly) call itself: stack depth grows with the input and ends in RecursionError, not TokenSyntaxError',
                  func='Tokenizer.' + name, text=f'{name} not recursive')

    # ---- K2..K7: transition tabulation ---------------------------------------------------------------
    gt, hc, hs = tk.func('Tokenizer._get_token'), tk.func('Tokenizer._handle_comment'), tk.func('Tokenizer._handle_string')
    tables = []
    for name in ('BARE_DISALLOWED', 'ESCAPES', '_OPERATORS'):
        try:
            tables.append(fold.global_(name))
        except AnalysisError:
            pass
    alphabet: List[Any] = sorted(set(mentioned_chars(gt, fold, tables)) | set(mentioned_chars(hc, fold)) | set(mentioned_chars(hs, fold)))
    alphabet.append(OTHER)
    base_sa = [{'_last_was_cr': False, 'line_num': 1}, {'_last_was_cr': True, 'line_num': 1}]

    def body_of(fn: ast.AST) -> List[ast.stmt]:
        return [s for s in fn.body if not (isinstance(s, ast.Expr) and isinstance(s.value, ast.Constant))]

    def analyse_function(fn: Any, qual: str, entry_sa: List[Dict[str, Any]]) -> LoopTab:
        tab = LoopTab(tk, fold, alphabet, qual)
        body = body_of(fn)
        pending: List[Tuple[ast.While, List[Tuple[Dict[str, Any], Dict[str, Any], Dict[str, List[Any]]]]]] = []
        done: Dict[int, Set[Any]] = {}

        def collect(outs: List[Outcome]) -> None:
            byloop: Dict[int, Tuple[ast.While, List[Any]]] = {}
            for o in outs:
                if o.kind == 'inner-loop':
                    node = o.value
                    byloop.setdefault(id(node), (node, []))[1].append((o.env, o.selfattrs, o.lists, o.ends_after_rewind))
            for node, ents in byloop.values():
                fresh = []
                for e in ents:
                    k = (_freeze(e[0]), _freeze({a: b for a, b in e[1].items() if a != 'line_num'}), _freeze(e[2]), e[3])
                    if k not in done.setdefault(id(node), set()):
                        done[id(node)].add(k)
                        fresh.append(e)
                if fresh:
                    pending.append((node, fresh))

        # straight-line part of the function (up to loops)
        outs = tab.run(body, False, [({}, sa, {}, True) for sa in entry_sa], f'{qual}: function body')
        collect(outs)
        guard = 0
        while pending:
            guard += 1
            if guard > 200:
                raise AnalysisError(f'{qual}: loop discovery did not converge')
            node, ents = pending.pop()
            where = f'{qual}: loop at `{U(node.body[0])[:50]}` (line offset {node.lineno - fn.lineno})'
            louts = tab.run(node.body, True, ents, where)
            collect(louts)
            # loops that `break`: analyse the continuation
            brk = [o for o in louts if o.kind == 'break']
            if brk:
                cont, in_outer = _continuation(tk, node, fn)
                couts = tab.run(cont, in_outer, [(o.env, o.selfattrs, o.lists, o.ends_after_rewind) for o in brk], where + ' continuation')
                collect(couts)
        return tab

    tabs = {
        'Tokenizer._get_token': analyse_function(gt, 'Tokenizer._get_token', base_sa),
        'Tokenizer._handle_comment': analyse_function(hc, 'Tokenizer._handle_comment', [base_sa[0]]),
        'Tokenizer._handle_string': analyse_function(hs, 'Tokenizer._handle_string', [base_sa[0]]),
    }
    fnodes = {'Tokenizer._get_token': gt, 'Tokenizer._handle_comment': hc, 'Tokenizer._handle_string': hs}
    total_iter = 0
    for qual, tab in tabs.items():
        fn = fnodes[qual]
        total_iter += tab.iterations
        groups: Dict[str, List[Outcome]] = {}
        for where, o in tab.outcomes:
            groups.setdefault(where, []).append(o)
        for where, outs in groups.items():
            def fmt(o: Outcome) -> str:
                return f'inputs={o.inputs!r} flags={o.flags} -> {o.kind} {o.value!r}'
            # K2
            bad = [o for o in outs if o.double_rewind]
            ctx.check('C03.K2', not bad, tk, fn, ('two rewinds without a read between them: ' + fmt(bad[0])) if bad else f'{len(outs)} transitions, no double rewind',
                      func=qual, text='K2 ' + where)
            # K3
            bad = [o for o in outs if o.kind == 'next' and (o.real_reads - o.rewinds) < 1]
            ctx.check('C03.K3', not bad, tk, fn, ('loop continues without net consumption: ' + fmt(bad[0])) if bad else f'{sum(1 for o in outs if o.kind == "next")} continuing transitions all consume >= 1',
                      func=qual, text='K3 ' + where)
            # K4
            bad = [o for o in outs if (o.kind == 'next' and o.eof_reads > 0) or (o.kind == 'raise' and isinstance(o.value, str) and o.value.startswith('python:'))]
            ctx.check('C03.K4', not bad, tk, fn, ('EOF continues the loop or None reaches a str-only operation: ' + fmt(bad[0])) if bad else 'EOF exits; no Python-level exception in any transition',
                      func=qual, text='K4 ' + where)
            # K5 (dynamic part): raised values are self.error(...)
            bad = [o for o in outs if o.kind == 'raise' and not isinstance(o.value, ErrorValue) and not (isinstance(o.value, str) and o.value.startswith('python:'))]
            ctx.check('C03.K5', not bad, tk, fn, ('raises something other than self.error(...): ' + fmt(bad[0])) if bad else 'all raised values are self.error(...)',
                      func=qual, text='K5 ' + where)
            # K6
            bad = [o for o in outs if o.line_incs > sum(1 for c in o.inputs if c in ('\n', '\r'))]
            ctx.check('C03.K6', not bad, tk, fn, ('line_num incremented without a line break being read: ' + fmt(bad[0])) if bad else 'line increments bounded by line breaks read',
                      func=qual, text='K6 ' + where)
            # K7
            def good_ret(v: Any) -> bool:
                if v is COMMENT_TOKEN or v is STRING_TOKEN:
                    return True
                if v is None:
                    return qual.endswith('_handle_comment')
                return (isinstance(v, tuple) and len(v) == 2 and isinstance(v[0], EnumMember) and v[0].cls == 'Token'
                        and (isinstance(v[1], (str, Joined))))
            bad = [o for o in outs if o.kind == 'return' and not good_ret(o.value)]
            ctx.check('C03.K7', not bad, tk, fn, ('returns something that is not a (Token, text) pair: ' + fmt(bad[0])) if bad else f'{sum(1 for o in outs if o.kind == "return")} returning transitions well-formed',
                      func=qual, text='K7 ' + where)
            bad = [o for o in outs if o.kind == 'fallthrough' and not qual.endswith('_handle_comment')]
            ctx.check('C03.K7', not bad, tk, fn, 'function can fall off its end (returns None instead of a token)' if bad else 'no fall-through', func=qual, text='K7 fallthrough ' + where)
    ctx.note(f'transition tabulation: {total_iter} transitions over alphabet {alphabet!r}')
    # _handle_comment returns only None / COMMENT, so the nondeterministic stub used in _get_token is faithful
    for where, o in tabs['Tokenizer._handle_comment'].outcomes:
        if o.kind == 'return' and o.value is not None:
            ok = isinstance(o.value, tuple) and isinstance(o.value[0], EnumMember) and o.value[0].name == 'COMMENT'
            if not ok:
                ctx.check('C03.K7', False, tk, hc, f'_handle_comment returns a non-COMMENT token: {o.value!r}', text='comment stub faithful')
    # ---- K5: objects made without __init__ ---------------------------------------------------------------------------------------------
    # `Keyvalues.__new__(Keyvalues)` skips the constructor; the class has __slots__, so a slot that is not assigned afterwards does not exist
    # and reading it (the unclosed-block error lists `kv.line_num` of every open block) raises AttributeError instead of the documented error
    kvm = prog.module('keyvalues')
    n_new = 0
    for cname_, cnode in [(c.name, c) for c in kvm.tree.body if isinstance(c, ast.ClassDef)]:
        slots_ = next((fold_slots(st.value) for st in cnode.body if isinstance(st, ast.Assign) and any(isinstance(t, ast.Name) and t.id == '__slots__' for t in st.targets)), None)
        if not slots_:
            continue
        setters: Dict[str, Set[str]] = {}
        for m_ in cnode.body:
            if isinstance(m_, ast.FunctionDef) and any(isinstance(d, ast.Attribute) and d.attr == 'setter' for d in m_.decorator_list):
                setters[m_.name] = {t.attr for a in ast.walk(m_) if isinstance(a, ast.Assign) for t in a.targets if isinstance(t, ast.Attribute) and isinstance(t.value, ast.Name) and t.value.id == m_.args.args[0].arg}
        for q_, fl_ in kvm.all_funcs().items():
            for f_ in fl_:
                for a in walk_no_nested(f_):
                    if not (isinstance(a, ast.Assign) and isinstance(a.value, ast.Call) and isinstance(a.value.func, ast.Attribute) and a.value.func.attr == '__new__'
                            and dotted(a.value.func.value) in (cname_, 'cls') and (dotted(a.value.func.value) == cname_ or q_.startswith(cname_ + '.'))):
                        continue
                    names_ = {t.id for t in a.targets if isinstance(t, ast.Name)}
                    if not names_:
                        continue
                    n_new += 1
                    got: Set[str] = set()
                    for st in _following(kvm, a, f_):
                        for x in ast.walk(st):
                            if isinstance(x, ast.Attribute) and isinstance(x.ctx, ast.Store) and isinstance(x.value, ast.Name) and x.value.id in names_:
                                got |= setters.get(x.attr, set()) | {x.attr}
                    missing = sorted(set(slots_) - got)
                    ctx.check('C03.K5', not missing, kvm, a, f'{q_} creates a {cname_} with __new__ and never assigns the slot(s) {missing}: the object is used like any other (the end-of-text error reads '
                              '`line_num` of every open block), and reading an unset slot raises AttributeError instead of the documented error', func=q_, text=f'{q_}: slots of the object made by __new__')
    ctx.shape('C03.K5', n_new >= 3, kvm, kvm.tree, f'{n_new} `__new__` constructions of slotted classes found in keyvalues.py (3 confirmed by hand)', text='__new__ constructions')

    # ---- K5 static part ---------------------------------------------------------------------------
    for qual in ('Tokenizer._get_token', 'Tokenizer._handle_comment', 'Tokenizer._handle_string'):
        fn = fnodes[qual]
        for n in walk_no_nested(fn):
            if isinstance(n, ast.Raise):
                ok = n.exc is not None and isinstance(n.exc, ast.Call) and dotted(n.exc.func) == 'self.error'
                ctx.check('C03.K5', ok, tk, n, 'token functions may only `raise self.error(...)`')
    for n in walk_no_nested(nc):
        if isinstance(n, ast.Raise):
            src = U(n.exc) if n.exc is not None else ''
            ok = (isinstance(n.exc, ast.Call) and dotted(n.exc.func) == 'self.error') or \
                 (isinstance(n.exc, ast.Call) and dotted(n.exc.func) == 'ValueError' and _guarded_by_nonstr(tk, n))
            ctx.check('C03.K5', ok, tk, n, '_next_char may raise only self.error(...) or ValueError for non-str chunks (outside the property: inputs are str)')
    # error(message, *args) treats a str message as a str.format template.  Text that comes from the document must therefore travel in the
    # arguments, never in the template: a `{` in a token value makes format() raise ValueError/KeyError/IndexError instead of the syntax error.
    def template_hazard(e: ast.AST, fn_: ast.AST, depth: int = 0) -> Optional[ast.AST]:
        params_ = {a.arg for a in fn_.args.args + fn_.args.kwonlyargs}          # type: ignore[attr-defined]
        if isinstance(e, ast.Constant):
            return None
        if isinstance(e, ast.IfExp):
            return template_hazard(e.body, fn_, depth) or template_hazard(e.orelse, fn_, depth)
        if isinstance(e, ast.BinOp) and isinstance(e.op, ast.Add):
            return template_hazard(e.left, fn_, depth) or template_hazard(e.right, fn_, depth)
        if isinstance(e, ast.JoinedStr):
            for v in e.values:
                if isinstance(v, ast.FormattedValue) and not (isinstance(v.value, ast.Name) and v.value.id in params_) and not isinstance(v.value, ast.Constant):
                    return v
            return None
        if isinstance(e, ast.Name) and depth < 3:
            defs_ = [a.value for a in walk_no_nested(fn_) if isinstance(a, (ast.Assign, ast.AugAssign)) and any(dotted(t) == e.id for t in (a.targets if isinstance(a, ast.Assign) else [a.target]))]
            for d_ in defs_:
                if isinstance(d_, (ast.Constant, ast.IfExp, ast.BinOp, ast.JoinedStr, ast.Name)):
                    h_ = template_hazard(d_, fn_, depth + 1)
                    if h_ is not None:
                        return h_
            return None            # a parameter or a token unpacked from the stream: error() accepts a Token in place of the message
        return None
    n_tmpl = 0
    for modx, quals in ((tk, [q for q in tk.all_funcs() if q.startswith(('BaseTokenizer.', 'Tokenizer.'))]), (kv, ['Keyvalues.parse'])):
        for q_ in quals:
            for fn_ in (modx.all_funcs().get(q_) or []):
                for c in walk_no_nested(fn_):
                    if isinstance(c, ast.Call) and isinstance(c.func, ast.Attribute) and c.func.attr == 'error' and c.args and not isinstance(c.args[0], ast.Starred):
                        n_tmpl += 1
                        hz = template_hazard(c.args[0], fn_)
                        ctx.check('C03.K5', hz is None, modx, c, f'{q_} builds the error template at run time from `{U(hz)[:40] if hz is not None else ""}`: error() passes the template to str.format(), so a brace in that text raises '
                                  'ValueError/KeyError/IndexError instead of the syntax error (document text belongs in the format arguments)', func=q_, text=f'{q_}: error template `{U(c.args[0])[:40]}` is constant')
    if n_tmpl < 20:
        raise AnalysisError(f'only {n_tmpl} error(...) calls found in the tokenizer and Keyvalues.parse (28 confirmed by hand)')
    err = tk.func('BaseTokenizer.error')
    rets = [n for n in walk_no_nested(err) if isinstance(n, ast.Return)]
    ok = len(rets) == 1 and isinstance(rets[0].value, ast.Call) and dotted(rets[0].value.func) == 'self.error_type'
    ctx.check('C03.K5', ok, tk, rets[0] if rets else err, 'error() must construct self.error_type', text='error() returns self.error_type(...)')
    init = tk.func('BaseTokenizer.__init__')
    guard_ok = False
    for n in ast.walk(init):
        if isinstance(n, ast.If) and isinstance(n.test, ast.UnaryOp) and isinstance(n.test.op, ast.Not) and isinstance(n.test.operand, ast.Call) \
                and dotted(n.test.operand.func) == 'issubclass' and len(n.test.operand.args) == 2 and dotted(n.test.operand.args[1]) == 'TokenSyntaxError' \
                and any(isinstance(x, ast.Raise) for x in n.body):
            guard_ok = True
    ctx.check('C03.K5', guard_ok, tk, init, 'BaseTokenizer.__init__ must reject an error type that is not a TokenSyntaxError subclass', text='error type guard')
    call = tk.func('BaseTokenizer.__call__')
    raises = [n for n in walk_no_nested(call) if isinstance(n, ast.Raise)]
    ctx.check('C03.K5', not raises, tk, raises[0] if raises else call, '__call__ itself raises nothing', text='__call__ raise-free')
    # Keyvalues.parse
    parse = kv.func('Keyvalues.parse')
    tcalls = [c for c in ast.walk(parse) if isinstance(c, ast.Call) and dotted(c.func) == 'Tokenizer']
    ok = bool(tcalls) and len(tcalls[0].args) >= 3 and dotted(tcalls[0].args[2]) == 'KeyValError'
    ctx.check('C03.K5', ok, kv, tcalls[0] if tcalls else parse, 'Keyvalues.parse must construct its Tokenizer with KeyValError as error type', text='Tokenizer(..., KeyValError)')
    kve = kv.cls('KeyValError')
    ctx.check('C03.K5', any(dotted(b) == 'TokenSyntaxError' for b in kve.bases), kv, kve, 'KeyValError must derive from TokenSyntaxError', text='KeyValError base')
    for n in walk_no_nested(parse):
        if isinstance(n, ast.Raise):
            tok_vars = {t.id for a in ast.walk(parse) if isinstance(a, ast.Assign) and any(c is a.value or c in ast.walk(a.value) for c in tcalls) for t in a.targets if isinstance(t, ast.Name)} | {'tokenizer'}
            ok = isinstance(n.exc, ast.Call) and (dotted(n.exc.func) == 'KeyValError' or (isinstance(n.exc.func, ast.Attribute) and n.exc.func.attr == 'error' and dotted(n.exc.func.value) in tok_vars))
            ctx.check('C03.K5', ok, kv, n, 'Keyvalues.parse may raise only tokenizer.error(...) or KeyValError(...)')
    # implicit IndexError in the module-level helpers parse() calls (`_read_flag`): a constant index into a string parameter needs that string to be
    # non-empty - the input decides (`[]` is a legal, empty flag) - so it sits behind a truth/length test of the parameter or inside
    # `try ... except IndexError`; a slice (`x[:1]`) is always safe
    helper_names = {c.func.id for c in ast.walk(parse) if isinstance(c, ast.Call) and isinstance(c.func, ast.Name) and kv.has_func(c.func.id) and '.' not in c.func.id}
    for hn in sorted(helper_names):
        hf = kv.func(hn)
        hparams = {a.arg for a in hf.args.args}
        for sub_ in walk_no_nested(hf):
            if not (isinstance(sub_, ast.Subscript) and isinstance(sub_.ctx, ast.Load) and isinstance(sub_.value, ast.Name) and sub_.value.id in hparams and isinstance(sub_.slice, ast.Constant) and isinstance(sub_.slice.value, int)):
                continue
            guarded = False
            ch_, an_ = sub_, kv.parents.get(sub_)
            while an_ is not None and an_ is not hf:
                if isinstance(an_, ast.Try) and any(ch_ is b or any(ch_ is x for x in ast.walk(b)) for b in an_.body) and any(dotted(h.type) in ('IndexError', 'LookupError', 'Exception') for h in an_.handlers):
                    guarded = True
                if isinstance(an_, (ast.If, ast.IfExp, ast.BoolOp)) and any(isinstance(x, ast.Name) and x.id == sub_.value.id for x in ast.walk(an_.test if not isinstance(an_, ast.BoolOp) else an_.values[0])) and ch_ is not getattr(an_, 'test', None):
                    guarded = True
                ch_, an_ = an_, kv.parents.get(an_)
            ctx.check('C03.K5', guarded, kv, sub_, f'{hn}() reads `{U(sub_)}` without knowing that `{sub_.value.id}` is non-empty: for an empty string (an empty flag `[]` is legal input) this raises IndexError, '
                      'which is not the KeyValError parse() promises for every input', func=hn, text=f'{hn}: `{U(sub_)}` guarded')
    # implicit ValueError: BaseTokenizer.push_back raises ValueError (not the syntax error type) when it is given a value-carrying token
    # without its value.  A token that parse() took from the tokenizer may be any token (the input decides), so it goes back together with
    # the value it came with; the one-argument form is fine for a literal operator token only.
    pb = tk.func('BaseTokenizer.push_back')
    pb_raises_value = any(isinstance(r, ast.Raise) and isinstance(r.exc, ast.Call) and dotted(r.exc.func) == 'ValueError' for r in ast.walk(pb))
    ctx.shape('C03.K5', pb_raises_value and len(pb.args.args) == 3, tk, pb, 'BaseTokenizer.push_back(tok, value=None) raises ValueError for a missing value', func='BaseTokenizer.push_back', text='push_back contract')
    try:
        op_vals = Folder(prog, tk).global_('_OPERATOR_VALS')
        op_names = {getattr(k_, 'name', None) for k_ in op_vals}
    except Exception:          # noqa: BLE001
        op_names = set()
    n_pb = 0
    for c in walk_no_nested(parse):
        if isinstance(c, ast.Call) and isinstance(c.func, ast.Attribute) and c.func.attr == 'push_back' and dotted(c.func.value) in ('tokenizer',):
            n_pb += 1
            tok_a = c.args[0] if c.args else None
            has_val = len(c.args) >= 2 or any(k.arg == 'value' for k in c.keywords)
            literal_op = isinstance(tok_a, ast.Attribute) and dotted(tok_a.value) == 'Token' and tok_a.attr in op_names
            ctx.check('C03.K5', has_val or literal_op, kv, c, f'`{U(c)}` hands back a token taken from the input without its value: when that token is a PAREN_ARGS, DIRECTIVE, STRING or PROP_FLAG '
                      'push_back raises a plain ValueError ("Value required"), which is not the KeyValError parse() promises for malformed text', func='Keyvalues.parse', text='push_back(token, value)')
    ctx.shape('C03.K5', n_pb >= 2, kv, parse, f'{n_pb} push_back calls in Keyvalues.parse (3 confirmed by hand)', func='Keyvalues.parse', text='push_back calls')
    # implicit IndexError: every constant-index read of a sequence in Keyvalues.parse is inside `try ... except IndexError`, or behind a
    # non-emptiness test of that sequence (earlier operand of the same `and`, an enclosing `if`, or a preceding `if not seq: raise/return`)
    def _seq_names(node: ast.AST) -> Set[str]:
        d = dotted(node) or ''
        return {d, d + '._value', d[:-len('._value')] if d.endswith('._value') else d}

    def _tests_nonempty(test: ast.AST, names: Set[str]) -> bool:
        for x in ast.walk(test):
            if (dotted(x) or '') in names and isinstance(x, (ast.Name, ast.Attribute)):
                par = kv.parents.get(x)
                if isinstance(par, (ast.BoolOp, ast.If, ast.While)) or (isinstance(par, ast.Call) and dotted(par.func) == 'len'):
                    return True
        return False
    n_sub = 0
    for n in walk_no_nested(parse):
        if not (isinstance(n, ast.Subscript) and isinstance(n.ctx, ast.Load)):
            continue
        idx = n.slice
        const_idx = (isinstance(idx, ast.Constant) and isinstance(idx.value, int)) or (isinstance(idx, ast.UnaryOp) and isinstance(idx.op, ast.USub) and isinstance(idx.operand, ast.Constant))
        if not const_idx:
            continue
        anc = kv.parents.get(n)
        in_annotation = False
        child: ast.AST = n
        while anc is not None and anc is not parse:
            if isinstance(anc, ast.AnnAssign) and child is anc.annotation:
                in_annotation = True
            child, anc = anc, kv.parents.get(anc)
        if in_annotation:
            continue
        n_sub += 1
        names = _seq_names(n.value)
        safe = False
        cur: Optional[ast.AST] = n
        while cur is not None and cur is not parse and not safe:
            par = kv.parents.get(cur)
            if isinstance(par, ast.Try) and cur in par.body and any(h.type is None or any((dotted(e) or '').split('.')[-1] in ('IndexError', 'LookupError', 'Exception') for e in (h.type.elts if isinstance(h.type, ast.Tuple) else [h.type])) for h in par.handlers):
                safe = True
            if isinstance(par, ast.BoolOp) and isinstance(par.op, ast.And):
                pos = par.values.index(cur) if cur in par.values else len(par.values)
                if any(_tests_nonempty(v, names) or (dotted(v) or '') in names for v in par.values[:pos]):
                    safe = True
            if isinstance(par, ast.If) and cur in par.body and (_tests_nonempty(par.test, names) or (dotted(par.test) or '') in names):
                safe = True
            if isinstance(par, (ast.If, ast.For, ast.While, ast.FunctionDef)) or isinstance(cur, ast.stmt):
                blk = next((b for b in (getattr(par, 'body', []), getattr(par, 'orelse', [])) if cur in b), None)
                if blk is not None:
                    for prev in blk[:blk.index(cur)]:
                        if isinstance(prev, ast.If) and isinstance(prev.test, ast.UnaryOp) and isinstance(prev.test.op, ast.Not) and (dotted(prev.test.operand) or '') in names \
                                and prev.body and isinstance(prev.body[-1], (ast.Raise, ast.Return, ast.Continue)):
                            safe = True
            cur = par
        if not safe and _state_flag_justifies(kv, parse, n):
            safe = True
        ctx.check('C03.K5', safe, kv, n, f'`{U(n)}` in Keyvalues.parse can raise a bare IndexError: nothing on the way to it establishes that `{U(n.value)}` is non-empty '
                  '(parse may only fail with KeyValError)', func='Keyvalues.parse', text=f'guarded index `{U(n)}`')
    if n_sub < 4:
        raise AnalysisError(f'Keyvalues.parse: only {n_sub} constant-index reads found (confirmed by hand: open_keyvalues[-1], cur_block_contents[-1] x4, root[0])')
    # ---- K6 static part ---------------------------------------------------------------------------
    for name, fn in tok_methods.items():
        for n in walk_no_nested(fn):
            tgt = None
            if isinstance(n, ast.AugAssign):
                tgt = dotted(n.target)
            elif isinstance(n, ast.Assign):
                tgt = ','.join(dotted(t) or '' for t in n.targets)
            if tgt and 'self.line_num' in tgt.split(','):
                ok = isinstance(n, ast.AugAssign) and isinstance(n.op, ast.Add) and isinstance(n.value, ast.Constant) and n.value.value == 1
                ctx.check('C03.K6', ok, tk, n, 'line_num may only change by `+= 1` inside the tokenizer')
    # ---- K8 Cython ----------------------------------------------------------------------------------
    pyx = PyxFile(prog, '_tokenizer.pyx')
    fields = ('char_index', 'chunk_buf', 'chunk_size', 'cur_chunk')
    pat = re.compile(r'^self\.(' + '|'.join(fields) + r')\s*(=|\+=|-=)\s*(.+)$')
    for q, f in pyx.funcs.items():
        if not q.startswith('Tokenizer.'):
            continue
        for ln in f.body:
            m = pat.match(ln.text)
            if not m:
                continue
            fld, op, rhs = m.groups()
            if f.name in ('__init__', '__cinit__', '_next_char', '__dealloc__'):
                ctx.check('C03.K8', True, None, None, 'cursor write inside constructor/_next_char', file=pyx.relpath, func=q, text=ln.text)
            else:
                ok = fld == 'char_index' and op == '-=' and rhs.strip() == '1'
                ctx.check('C03.K8', ok, None, None, 'Cython tokenizer: chunk cursor written outside __init__/_next_char other than by `self.char_index -= 1`',
                          file=pyx.relpath, func=q, text=ln.text)

    # refill transparency (Cython): the object taken from the iterator is only type-checked, measured and installed as the current chunk
    cnc = pyx.func('Tokenizer._next_char')
    allowed = [
        r'^(?:self\.cur_chunk|chunk_obj)\s*=\s*(?:next\(self\.chunk_iter,\s*None\)|self\.chunk_iter\(FILE_BUFFER\)|chunk_obj)$',
        r'^if\s+chunk_obj\s+is\s+None\s*:$',
        r'^if\s+isinstance\(chunk_obj,\s*bytes\)\s*:$',
        r'^(?:if|elif)\s+type\((?:chunk_obj|self\.cur_chunk)\)\s+is(?:\s+not)?\s+str\s*:$',
        r'^if\s+len\(\s*(?:<str>)?\s*chunk_obj\)\s*>\s*0\s*:$',
        r'^self\.chunk_buf\s*=\s*<const uchar \*>\s*PyUnicode_AsUTF8AndSize\(self\.cur_chunk,\s*&self\.chunk_size\)$',
        r"^raise ValueError\('Expected string, got '\s*\+\s*type\(self\.cur_chunk\)\.__name__\)$",
        r'^cdef\s+(?:object|str)\s+\w+$',
    ]
    n_chunk_lines = 0
    for ln in cnc.body:
        if not re.search(r'\bchunk_obj\b|\bself\.cur_chunk\b', ln.text):
            continue
        n_chunk_lines += 1
        ok = any(re.match(a, ln.text.strip()) for a in allowed)
        content_op = re.search(r'\[[^\]]*:[^\]]*\]|\.(?:startswith|endswith|replace|strip|lstrip|rstrip|removeprefix|removesuffix|translate|find|index|split)\(|(?:==|!=)\s*[\'"]', ln.text) is not None
        if not ok and not content_op:
            ctx.shape('C03.K8', False, None, type('PyxLine', (), {'lineno': ln.lineno})(), f'Cython _next_char line `{ln.text.strip()[:70]}` is not one of the enumerated chunk-handling lines', file=pyx.relpath,
                      func='Tokenizer._next_char', text=f'_next_char chunk use: {ln.text.strip()[:50]}')
            continue
        ctx.check('C03.K8', ok, None, type('PyxLine', (), {'lineno': ln.lineno})(), f'Cython _next_char does something with the loaded chunk other than checking its type / length and installing it: `{ln.text.strip()[:70]}` '
                  '(content-dependent handling at load time makes chunk boundaries observable)', file=pyx.relpath, func='Tokenizer._next_char', text=f'_next_char chunk use: {ln.text.strip()[:50]}')
    if n_chunk_lines < 6:
        raise AnalysisError(f'Cython _next_char: only {n_chunk_lines} lines mention the loaded chunk (confirmed by hand: 10)')

    # ---- K4 (token level): a loop that pulls tokens ends at EOF -------------------------------------------------------------------------------
    # The tokenizer answers (EOF, '') for ever once the text is exhausted.  `for tok in tokenizer:` stops there by itself; a `while` loop in
    # keyvalues.py that calls the tokenizer has to look for EOF and leave (return / raise / break), otherwise text that ends inside the
    # construct the loop skips over makes parse() spin - "finishes in a number of steps linear in the input" fails for that input.
    kv4 = prog.module('keyvalues')
    n_tl = 0
    for q4, fl4 in kv4.all_funcs().items():
        for f4 in fl4:
            params4 = {a.arg for a in f4.args.args + f4.args.kwonlyargs}
            tok_names = {n_ for n_ in params4 if 'tok' in n_} | {t.id for a in walk_no_nested(f4) if isinstance(a, ast.Assign) and isinstance(a.value, ast.Call) and (dotted(a.value.func) or '').endswith('Tokenizer')
                                                                  for t in a.targets if isinstance(t, ast.Name)}
            for lp4 in [l for l in walk_no_nested(f4) if isinstance(l, (ast.While, ast.For))]:
                pulls = [c for c in ast.walk(lp4) if isinstance(c, ast.Call) and isinstance(c.func, ast.Name) and c.func.id in tok_names]
                iter_tok = isinstance(lp4, ast.For) and isinstance(lp4.iter, ast.Name) and lp4.iter.id in tok_names
                if not pulls and not iter_tok:
                    continue
                n_tl += 1
                if iter_tok:
                    ctx.check('C03.K4', True, kv4, lp4, 'iteration over the tokenizer stops at EOF', func=q4, text=f'{q4}: token loop ends at EOF')
                    continue
                eof_exit = False
                for if4 in [i for i in ast.walk(lp4) if isinstance(i, ast.If)]:
                    if any(isinstance(c, ast.Compare) and any((dotted(x) or '').split('.')[-1] == 'EOF' for x in [c.left] + list(c.comparators)) for c in ast.walk(if4.test)) \
                            and any(isinstance(x, (ast.Return, ast.Raise, ast.Break)) for b in if4.body for x in ast.walk(b)):
                        eof_exit = True
                bounded = isinstance(lp4, ast.While) and not (isinstance(lp4.test, ast.Constant) and lp4.test.value is True) and any(isinstance(x, ast.Name) and x.id != 'True' for x in ast.walk(lp4.test)) \
                    and any(isinstance(c, ast.Compare) and any((dotted(x) or '').split('.')[-1] == 'EOF' for x in [c.left] + list(c.comparators)) for c in ast.walk(lp4.test))
                ctx.check('C03.K4', eof_exit or bounded, kv4, lp4, f'{q4} pulls tokens in a loop that never looks for EOF: the tokenizer keeps answering EOF once the text has ended, so text that stops inside what this loop '
                          'consumes (an unclosed block) is never finished with - parse() does not return', func=q4, text=f'{q4}: token loop ends at EOF')
    ctx.shape('C03.K4', n_tl >= 1, kv4, kv4.tree, 'no token loop found in keyvalues.py (the main loop of Keyvalues.parse confirmed by hand)', text='token loops of keyvalues.py')


def _guarded_by_nonstr(mod: Any, n: ast.AST) -> bool:
    p = mod.parents.get(n)
    while p is not None:
        if isinstance(p, ast.If):
            t = U(p.test)
            if 'isinstance(chunk, bytes)' in t or 'not isinstance(chunk, str)' in t:
                return True
        p = mod.parents.get(p)
    return False


MUTANTS = [
    {'id': 'flag_skip_loop_ignores_eof', 'file': 'keyvalues.py', 'find': "class Keyvalues:\n    \"\"\"Represents Valve's Keyvalues 1 file format.", 'replace': "def _skip_line(tokenizer: BaseTokenizer) -> None:\n    while True:\n        tok_type, tok_value = tokenizer()\n        if tok_type is Token.NEWLINE:\n            return\n\n\nclass Keyvalues:\n    \"\"\"Represents Valve's Keyvalues 1 file format.", 'expect': 'C03.K4', 'note': 'round 12'},
    {'id': 'read_flag_indexes_empty_string', 'file': 'keyvalues.py', 'find': "    flag_inv = flag_val[:1] == '!'", 'replace': "    flag_inv = flag_val[0] == '!'", 'expect': 'C03.K5'},
    {'id': 'cursor_reset_before_empty_chunk_skip', 'file': 'tokenizer.py', 'find': "                    if chunk:\n                        self._cur_chunk = chunk\n                        self._char_index = 0\n                        return chunk[0]\n", 'replace': "                    self._char_index = 0\n                    if not chunk:\n                        continue\n                    self._cur_chunk = chunk\n                    return chunk[0]\n", 'expect': 'C03.K1'},
    {'id': 'push_back_without_value', 'file': 'keyvalues.py', 'find': "                    tokenizer.push_back(prop_type, prop_value)", 'replace': "                    tokenizer.push_back(prop_type)", 'expect': 'C03.K5'},
    {'id': 'skipped_block_without_line_num', 'file': 'keyvalues.py', 'find': "                    cur_block.line_num = None  # Not used, but make sure to keep it valid.\n", 'replace': "", 'expect': 'C03.K5'},
    {'id': 'init_collapses_crlf_for_str_only', 'file': 'tokenizer.py', 'find': "        if isinstance(data, str):\n            self._cur_chunk = data\n", 'replace': "        if isinstance(data, str):\n            self._cur_chunk = data.replace('\\r\\n', '\\n')\n", 'expect': 'C03.K1'},
    {'id': 'expect_error_template_from_token_text', 'file': 'tokenizer.py', 'find': "            raise self.error(\n                'Expected {}, but got {}!',\n                token,\n                next_token,\n            )", 'replace': "            message = 'Expected {}, but got {}'\n            if next_token.has_value:\n                message += f' = \"{value}\"'\n            raise self.error(message + '!', token, next_token)", 'expect': 'C03.K5'},
    {'id': 'ok_expect_error_value_as_argument', 'file': 'tokenizer.py', 'find': "            raise self.error(\n                'Expected {}, but got {}!',\n                token,\n                next_token,\n            )", 'replace': "            raise self.error('Expected {}, but got {} = \"{}\"!', token, next_token, value)", 'expect': None},
    {'id': 'cython_refill_strips_bom', 'file': '_tokenizer.pyx', 'find': "            if len(<str>chunk_obj) > 0:\n                self.cur_chunk = chunk_obj", 'replace': "            if self.line_num == 1 and (<str>chunk_obj).startswith('\\uFEFF'):\n                chunk_obj = (<str>chunk_obj)[1:]\n            if len(<str>chunk_obj) > 0:\n                self.cur_chunk = chunk_obj", 'expect': 'C03.K8'},
    {'id': 'expect_block_without_append', 'file': 'keyvalues.py', 'find': "                    block_line = BLOCK_LINE_EXPECT\n                    can_flag_replace = False\n                    cur_block_contents.append(keyvalue)\n", 'replace': "                    block_line = BLOCK_LINE_EXPECT\n                    can_flag_replace = False\n", 'expect': 'C03.K5'},
    {'id': 'flag_replace_unguarded_index', 'file': 'keyvalues.py', 'find': "                            can_flag_replace and\n                            cur_block_contents and\n                            cur_block_contents[-1]._real_name == token_value and\n                            cur_block_contents[-1].has_children()", 'replace': "                            can_flag_replace and\n                            cur_block_contents[-1]._real_name == token_value and\n                            cur_block_contents[-1].has_children()", 'expect': 'C03.K5'},
    {'id': 'single_block_unguarded_root', 'file': 'keyvalues.py', 'find': "                    if not root._value:\n                        raise tokenizer.error('The block was disabled by its [flag], there is nothing to return.')\n", 'replace': "", 'expect': 'C03.K5'},
    {'id': 'refill_strips_bom', 'file': 'tokenizer.py', 'find': "                    if chunk:\n                        self._cur_chunk = chunk\n                        self._char_index = 0", 'replace': "                    if self.line_num == 1 and chunk.startswith('\\uFEFF'):\n                        chunk = chunk[1:]\n                    if chunk:\n                        self._cur_chunk = chunk\n                        self._char_index = 0", 'expect': 'C03.K1'},
    {'id': 'refill_len_test', 'file': 'tokenizer.py', 'find': "                    if chunk:\n                        self._cur_chunk = chunk\n                        self._char_index = 0", 'replace': "                    if len(chunk) > 0:\n                        self._cur_chunk = chunk\n                        self._char_index = 0", 'expect': None},
    {'id': 'comment_recurses', 'file': 'tokenizer.py', 'find': "        return None  # Swallow the comment.", 'replace': "        return self._get_token()  # Swallow the comment.", 'expect': 'C03.K9'},
    {'id': 'peek_chunk', 'file': 'tokenizer.py', 'find': "                        elif next_next_char == '/':\n                            break", 'replace': "                        elif next_next_char == '/' or self._cur_chunk[self._char_index:self._char_index + 1] == '/':\n                            break", 'expect': 'C03.K1'},
    {'id': 'rewind_two', 'file': 'tokenizer.py', 'find': "                            # \"**/\" parses correctly!\n                            self._char_index -= 1", 'replace': "                            # \"**/\" parses correctly!\n                            self._char_index -= 2", 'expect': 'C03.K1'},
    {'id': 'double_rewind', 'file': 'tokenizer.py', 'find': "            # We want to produce the token for the end character.\n            self._char_index -= 1", 'replace': "            # We want to produce the token for the end character.\n            self._char_index -= 1\n            self._char_index -= 1", 'expect': 'C03.K2'},
    {'id': 'no_progress_on_bom', 'file': 'tokenizer.py', 'find': "            elif next_char == '\\uFEFF' and self.line_num == 1:\n                continue", 'replace': "            elif next_char == '\\uFEFF' and self.line_num == 1:\n                self._char_index -= 1\n                continue", 'expect': 'C03.K3'},
    {'id': 'eof_not_checked_in_bracket', 'file': 'tokenizer.py', 'find': "                    elif next_char is None:\n                        raise self.error(\n                            'Unterminated property flag!", 'replace': "                    elif next_char is None and False:\n                        raise self.error(\n                            'Unterminated property flag!", 'expect': 'C03.K4'},
    {'id': 'eof_in_string_dropped', 'file': 'tokenizer.py', 'find': "            if next_char is None:\n                raise self.error('Unterminated string!')\n            else:\n                value_chars.append(next_char)", 'replace': "            if next_char is None:\n                continue\n            else:\n                value_chars.append(next_char)", 'expect': 'C03.K4'},
    {'id': 'raise_valueerror', 'file': 'tokenizer.py', 'find': "                        raise self.error('Cannot nest [] brackets!')", 'replace': "                        raise ValueError('Cannot nest [] brackets!')", 'expect': 'C03.K5'},
    {'id': 'operator_lookup_unprotected', 'file': 'tokenizer.py', 'find': "            try:\n                return _OPERATORS[next_char], next_char\n            except KeyError:\n                pass", 'replace': "            if next_char in '{}=,:':\n                return _OPERATORS[next_char], next_char", 'expect': 'C03.K4'},
    {'id': 'line_num_on_tab', 'file': 'tokenizer.py', 'find': "            if next_char in ' \\t':\n                # Ignore whitespace..\n                continue", 'replace': "            if next_char in ' \\t':\n                # Ignore whitespace..\n                self.line_num += 1\n                continue", 'expect': 'C03.K6'},
    {'id': 'parse_raises_other', 'file': 'keyvalues.py', 'find': "                    raise tokenizer.error(\n                        'Keyvalues cannot have sub-section if it already '", 'replace': "                    raise ValueError(\n                        'Keyvalues cannot have sub-section if it already '", 'expect': 'C03.K5'},
    {'id': 'cy_cursor_write', 'file': '_tokenizer.pyx', 'find': "            elif next_char == b'\"':\n                self.buf_reset()", 'replace': "            elif next_char == b'\"':\n                self.char_index += 0\n                self.buf_reset()", 'expect': 'C03.K8'},
]
